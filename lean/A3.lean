import Mathlib
open Finset
-- A3: sum over a permutation is invariant
theorem perm_sum (n : ℕ) (σ : Equiv.Perm (Fin n)) (f : Fin n → ℤ) :
    ∑ k, f (σ k) = ∑ c, f c := Equiv.sum_comp σ f
