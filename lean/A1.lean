import Mathlib
open Finset

/-- A1: pairwise interior-disjoint integer rectangles inside a `W × H` bin have total area ≤ `W * H`. -/
theorem area_le_bin {ι : Type*} [DecidableEq ι] (s : Finset ι) (l r b t : ι → ℕ) (W H : ℕ)
    (hin : ∀ i ∈ s, r i ≤ W ∧ t i ≤ H)
    (hdis : ∀ i ∈ s, ∀ j ∈ s, i ≠ j → r i ≤ l j ∨ r j ≤ l i ∨ t i ≤ b j ∨ t j ≤ b i) :
    ∑ i ∈ s, (r i - l i) * (t i - b i) ≤ W * H := by
  classical
  let cell : ι → Finset (ℕ × ℕ) := fun i => Ico (l i) (r i) ×ˢ Ico (b i) (t i)
  have hcard : ∀ i, (cell i).card = (r i - l i) * (t i - b i) := by
    intro i; simp [cell, card_product, Nat.card_Ico]
  have hpd : (s : Set ι).PairwiseDisjoint cell := by
    intro i hi j hj hij
    rw [Function.onFun, Finset.disjoint_left]
    rintro ⟨x, y⟩ hx hy
    simp only [cell, mem_product, mem_Ico] at hx hy
    rcases hdis i hi j hj hij with h | h | h | h <;> omega
  have hsub : s.biUnion cell ⊆ range W ×ˢ range H := by
    intro p hp
    rcases mem_biUnion.mp hp with ⟨i, hi, hpi⟩
    obtain ⟨x, y⟩ := p
    simp only [cell, mem_product, mem_Ico] at hpi
    have := hin i hi
    simp only [mem_product, mem_range]
    omega
  calc ∑ i ∈ s, (r i - l i) * (t i - b i) = ∑ i ∈ s, (cell i).card := by
        simp [hcard]
    _ = (s.biUnion cell).card := (card_biUnion hpd).symm
    _ ≤ (range W ×ˢ range H).card := card_le_card hsub
    _ = W * H := by simp [card_product]
