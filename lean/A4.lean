import Mathlib
open Finset

/-!
A4 (rearrangement inequality in the form used by `qap.instance.trivial_bounds`).

`f g : Fin m → ℤ` are the flattened flow and distance matrices (m = n²), `π` is the permutation of the index pairs
induced by an assignment `p` ((i, j) ↦ (p i, p j)), `σ` / `τ` are the sorting permutations (`f ∘ σ`, `g ∘ τ` ascending).
Then   Σ (f∘σ) k · (g∘τ) (rev k)  ≤  Σ f k · g (π k)  ≤  Σ (f∘σ) k · (g∘τ) k,
i.e. "largest flow × shortest distance, …" is a lower bound and "largest flow × largest distance, …" an upper bound
of the QAP objective of every assignment.
-/

theorem qap_upper {m : ℕ} (f g : Fin m → ℤ) (σ τ π : Equiv.Perm (Fin m))
    (hf : Monotone (f ∘ σ)) (hg : Monotone (g ∘ τ)) :
    ∑ k, f k * g (π k) ≤ ∑ k, (f ∘ σ) k * (g ∘ τ) k := by
  have hmono : Monovary (f ∘ σ) (g ∘ τ) := hf.monovary hg
  -- re-index the left-hand side by σ and express g through g ∘ τ
  have h1 : ∑ k, f k * g (π k) = ∑ k, (f ∘ σ) k * (g ∘ τ) ((τ⁻¹ * π * σ) k) := by
    rw [← Equiv.sum_comp σ (fun k => f k * g (π k))]
    apply Finset.sum_congr rfl
    intro k _
    simp [Function.comp, Equiv.Perm.mul_apply]
  rw [h1]
  exact hmono.sum_mul_comp_perm_le_sum_mul (σ := τ⁻¹ * π * σ)

theorem qap_lower {m : ℕ} (f g : Fin m → ℤ) (σ τ π : Equiv.Perm (Fin m))
    (hf : Monotone (f ∘ σ)) (hg : Monotone (g ∘ τ)) :
    ∑ k, (f ∘ σ) k * (g ∘ τ) (Fin.rev k) ≤ ∑ k, f k * g (π k) := by
  let r : Equiv.Perm (Fin m) := Fin.revPerm
  have hr : ∀ k, r k = Fin.rev k := fun k => rfl
  have hrr : ∀ k, r (r k) = k := fun k => by simp [hr]
  have hanti : Antitone ((g ∘ τ) ∘ r) := by
    intro a b hab
    apply hg
    simpa [hr] using Fin.rev_le_rev.mpr hab
  have hav : Antivary (f ∘ σ) ((g ∘ τ) ∘ r) := hf.antivary hanti
  let ρ : Equiv.Perm (Fin m) := r * τ⁻¹ * π * σ
  have h1 : ∑ k, f k * g (π k) = ∑ k, (f ∘ σ) k * ((g ∘ τ) ∘ r) (ρ k) := by
    rw [← Equiv.sum_comp σ (fun k => f k * g (π k))]
    apply Finset.sum_congr rfl
    intro k _
    simp [ρ, Function.comp, Equiv.Perm.mul_apply, hrr]
  have h2 : ∑ k, (f ∘ σ) k * (g ∘ τ) (Fin.rev k) = ∑ k, (f ∘ σ) k * ((g ∘ τ) ∘ r) k := by
    apply Finset.sum_congr rfl
    intro k _
    simp [Function.comp, hr]
  rw [h1, h2]
  exact hav.sum_mul_le_sum_mul_comp_perm (σ := ρ)

/-- The link between the QAP double sum and the flattened form: an assignment `p` acts on index pairs as the
bijection `(i, j) ↦ (p i, p j)`; `e` is any enumeration of the pairs (numpy's `flatten` is one). -/
theorem qap_flatten {n m : ℕ} (F D : Fin n → Fin n → ℤ) (p : Equiv.Perm (Fin n)) (e : Fin n × Fin n ≃ Fin m) :
    ∑ i, ∑ j, F i j * D (p i) (p j)
      = ∑ k, (fun k => F (e.symm k).1 (e.symm k).2) k
          * (fun k => D (e.symm k).1 (e.symm k).2) ((e.symm.trans ((Equiv.prodCongr p p).trans e)) k) := by
  rw [← Fintype.sum_prod_type']
  rw [← Equiv.sum_comp e.symm (fun x : Fin n × Fin n => F x.1 x.2 * D (p x.1) (p x.2))]
  apply Finset.sum_congr rfl
  intro k _
  simp

/-- C09 bounds clause: for flattened-and-sorted copies of the two matrices, "largest with smallest" is a lower and
"largest with largest" an upper bound of the objective of every assignment. -/
theorem qap_bounds {n m : ℕ} (F D : Fin n → Fin n → ℤ) (p : Equiv.Perm (Fin n)) (e : Fin n × Fin n ≃ Fin m)
    (σ τ : Equiv.Perm (Fin m))
    (hf : Monotone ((fun k => F (e.symm k).1 (e.symm k).2) ∘ σ))
    (hg : Monotone ((fun k => D (e.symm k).1 (e.symm k).2) ∘ τ)) :
    (∑ k, ((fun k => F (e.symm k).1 (e.symm k).2) ∘ σ) k * ((fun k => D (e.symm k).1 (e.symm k).2) ∘ τ) (Fin.rev k)
        ≤ ∑ i, ∑ j, F i j * D (p i) (p j)) ∧
    (∑ i, ∑ j, F i j * D (p i) (p j)
        ≤ ∑ k, ((fun k => F (e.symm k).1 (e.symm k).2) ∘ σ) k * ((fun k => D (e.symm k).1 (e.symm k).2) ∘ τ) k) := by
  rw [qap_flatten F D p e]
  exact ⟨qap_lower _ _ σ τ _ hf hg, qap_upper _ _ σ τ _ hf hg⟩
