import Mathlib
open Finset

/-- A1': disjoint rectangles inside the bin lie under any function `sky` that dominates the tops of the
rectangles covering each column, hence their total area is at most the area under `sky`. -/
theorem area_le_skyline {ι : Type*} [DecidableEq ι] (s : Finset ι) (l r b t : ι → ℕ) (W : ℕ) (sky : ℕ → ℕ)
    (hin : ∀ i ∈ s, r i ≤ W)
    (hsky : ∀ i ∈ s, ∀ x, l i ≤ x → x < r i → t i ≤ sky x)
    (hdis : ∀ i ∈ s, ∀ j ∈ s, i ≠ j → r i ≤ l j ∨ r j ≤ l i ∨ t i ≤ b j ∨ t j ≤ b i) :
    ∑ i ∈ s, (r i - l i) * (t i - b i) ≤ ∑ x ∈ range W, sky x := by
  classical
  let cell : ι → Finset (ℕ × ℕ) := fun i => Ico (l i) (r i) ×ˢ Ico (b i) (t i)
  let under : Finset (ℕ × ℕ) := (range W).biUnion (fun x => ({x} : Finset ℕ) ×ˢ range (sky x))
  have hcard : ∀ i, (cell i).card = (r i - l i) * (t i - b i) := by
    intro i; simp [cell, card_product, Nat.card_Ico]
  have hpd : (s : Set ι).PairwiseDisjoint cell := by
    intro i hi j hj hij
    rw [Function.onFun, Finset.disjoint_left]
    rintro ⟨x, y⟩ hx hy
    simp only [cell, mem_product, mem_Ico] at hx hy
    rcases hdis i hi j hj hij with h | h | h | h <;> omega
  have hsub : s.biUnion cell ⊆ under := by
    intro p hp
    rcases mem_biUnion.mp hp with ⟨i, hi, hpi⟩
    obtain ⟨x, y⟩ := p
    simp only [cell, mem_product, mem_Ico] at hpi
    have h1 := hin i hi
    have h2 := hsky i hi x hpi.1.1 hpi.1.2
    simp only [under, mem_biUnion, mem_range, mem_product, mem_singleton]
    exact ⟨x, by omega, rfl, by omega⟩
  have hunder : under.card = ∑ x ∈ range W, sky x := by
    simp only [under]
    rw [card_biUnion]
    · simp [card_product]
    · intro x _ y _ hxy
      rw [Function.onFun, Finset.disjoint_left]
      rintro ⟨a, c⟩ ha hb
      simp only [mem_product, mem_singleton] at ha hb
      exact hxy (ha.1.symm.trans hb.1)
  calc ∑ i ∈ s, (r i - l i) * (t i - b i) = ∑ i ∈ s, (cell i).card := by simp [hcard]
    _ = (s.biUnion cell).card := (card_biUnion hpd).symm
    _ ≤ under.card := card_le_card hsub
    _ = ∑ x ∈ range W, sky x := hunder
