"""Contract data structures (sidecar contracts for real /repo functions).

A contract clause is a Python *expression string*.  It is interpreted twice:
symbolically (pyvc.symexec, z3 terms) and concretely (pyvc.conc, Python
values), see DESIGN.md section 2.5.
"""
from __future__ import annotations

import ast
from dataclasses import dataclass, field
from typing import Callable, Optional


# ---- parameter types -------------------------------------------------------
@dataclass(frozen=True)
class T:
    kind: str                 # "int" | "pyint" | "bool" | "real" | "arr"
    ndim: int = 0
    dtype: Optional[str] = None   # dtype symbol for integer arrays ("D"); None => elements are unbounded ints
    elem: str = "int"         # "int" | "real" | "bool"
    cols: Optional[int] = None    # fixed second dimension
    uninit: bool = False      # contents may not be read before written in this call (ghost written-set)
    shape: Optional[tuple] = None  # optional names of ghost ints the dims equal


OBJ = T("obj")          # opaque Python object (no symbolic value)
INT = T("int")          # numba int64 scalar (i64 obligations on arithmetic)
PYINT = T("pyint")      # unbounded python int
BOOL = T("bool")
REAL = T("real")
DTYPE = T("dtype")      # a numpy integer dtype as the pair (lowest, highest) representable value


def CONST(value):
    """a parameter fixed to a Python constant (e.g. a format string): branches on it are decided statically"""
    return T("const", shape=(value,))


def A1(dtype=None, elem="int", uninit=False):
    return T("arr", 1, dtype, elem, None, uninit)


def A2(dtype=None, elem="int", cols=None, uninit=False):
    return T("arr", 2, dtype, elem, cols, uninit)


@dataclass
class Clause:
    expr: str
    label: str = ""
    props: frozenset = frozenset()
    ast: Optional[ast.AST] = None

    def __post_init__(self):
        self.ast = ast.parse(self.expr.strip(), mode="eval").body
        if not self.label:
            self.label = self.expr.strip()[:40]


def tag(props: str, label: str, expr: str) -> Clause:
    return Clause(expr, label, frozenset(props.split()))


def _cl(x, default_props) -> Clause:
    if isinstance(x, Clause):
        if not x.props:
            x.props = default_props
        return x
    return Clause(x, "", default_props)


@dataclass
class Loop:
    inv: list = field(default_factory=list)
    variant: Optional[str] = None
    index: Optional[str] = None       # name for the hidden counter of `for v in arr`
    ghost_pre: list = field(default_factory=list)   # ghost statements executed at loop entry (before inv-init)
    ghost_end: list = field(default_factory=list)   # ghost statements executed at the end of each iteration
    lemmas: list = field(default_factory=list)      # lemma applications offered to inv-pres / exit
    assume: list = field(default_factory=list)      # clauses *assumed* at the loop head (listed as assumptions)
    iter: list = field(default_factory=list)        # two-state iteration contract: at_iter(e) = value at iteration start
    exit: list = field(default_factory=list)        # clauses that must hold when the loop condition turns false
    range_is: Optional[tuple] = None                # (lo, hi) expressions the evaluated range() bounds must equal
    range_props: str = "C14"                        # property tags of that refinement assertion


@dataclass
class Summary:
    """Assumed effect of a statement the engine does not model (a call into moptipy/numpy/...):
    the statement is *not* executed; the listed variables are re-bound to fresh values of the
    given types and the clauses are assumed.  Every summary is an assumption and is listed as such."""
    binds: dict = field(default_factory=dict)
    assume: list = field(default_factory=list)
    note: str = ""
    raises_if: Optional[str] = None     # the statement raises exactly under this condition (evaluated before the binds)
    capture: tuple = ()                 # ghost names bound to the (evaluated) positional arguments of the summarised call
    subscripts: bool = False            # still generate the bounds obligation of every element subscript `a[i]` / `a[i, j]`
                                        # that occurs in the statement (a known array, no slices) and perform its element
                                        # stores with an unknown value: only the *values* are abstracted, not the accesses


@dataclass
class SpecFn:
    name: str
    params: list
    body: str
    ret: str = "int"              # "int" | "bool" | "real"
    recursive: bool = False
    ptypes: Optional[list] = None  # for recursive ones: "int" | "arr1" | "arr2" per parameter
    ast: Optional[ast.AST] = None
    pyimpl: Optional[Callable] = None   # concrete implementation of an uninterpreted spec function
    qdef: bool = False                  # also offer the definition as a quantified axiom (needed under binders)

    def __post_init__(self):
        self.ast = ast.parse(self.body.strip(), mode="eval").body if self.body is not None else None


SPECS: dict = {}


def spec(sig: str, body, ret: str = "int", ptypes=None, pyimpl=None, qdef=False):
    """Declare a spec function.  `sig` is e.g. "box(p, k, W, H)".
    Non-recursive spec functions are inlined; recursive ones (that mention
    their own name) become uninterpreted functions unfolded on demand."""
    name, _, rest = sig.partition("(")
    name = name.strip()
    params = [p.strip() for p in rest.rstrip(") ").split(",") if p.strip()]
    sf = SpecFn(name, params, body, ret, False, ptypes, None, pyimpl, qdef)
    if body is None:      # uninterpreted: only (assumed or proved) lemmas speak about it
        sf.recursive = True
        SPECS[name] = sf
        return sf
    sf.recursive = any(isinstance(n, ast.Call) and isinstance(n.func, ast.Name) and n.func.id == name
                       for n in ast.walk(sf.ast))
    if sf.recursive and ptypes is None:
        raise ValueError(f"recursive spec {name} needs ptypes")
    if ptypes is not None:      # explicitly typed => kept as a function symbol, definition unfolded on ground terms only
        sf.recursive = True
    SPECS[name] = sf
    return sf


@dataclass
class Lemma:
    """A lemma: forall params. hyps => concl.  Proved once (optionally by
    induction on `induct`), then *applied explicitly* at named program points."""
    name: str
    params: dict                 # name -> "int" | "arr1" | "arr2"
    hyps: list
    concl: str
    induct: Optional[str] = None   # induction variable (int, >= base)
    base: str = "0"
    uses: list = field(default_factory=list)  # other lemma applications allowed in the proof: "name(args)"
    note: str = ""
    assumed: bool = False        # an axiom: not proved here (mathematical lemma proved elsewhere, e.g. Lean) -> listed


LEMMAS: dict = {}


def lemma(name, params, hyps, concl, induct=None, base="0", uses=(), note="", assumed=False):
    lm = Lemma(name, params, list(hyps), concl, induct, base, list(uses), note, assumed)
    LEMMAS[name] = lm
    return lm


def axiom(name, params, hyps, concl, note):
    return lemma(name, params, hyps, concl, note=note, assumed=True)


@dataclass
class Contract:
    fn: str
    params: dict
    props: str = ""                         # default property tags
    ghosts: dict = field(default_factory=dict)    # spec-only symbols: name -> T
    dtypes: dict = field(default_factory=dict)    # dtype symbol -> None | (lo, hi) fixed
    requires: list = field(default_factory=list)
    ensures: list = field(default_factory=list)
    raises_iff: Optional[str] = None        # P-subset: function raises exactly when this holds
    modifies: list = field(default_factory=list)  # parameter arrays that may be written
    loops: dict = field(default_factory=dict)     # "0", "0.1", ... -> Loop
    wraps: list = field(default_factory=list)     # subscripts (source text, spaces removed) that may wrap around
    returns: Optional[T] = None
    calls: dict = field(default_factory=dict)     # callee name -> {callee ghost: caller expr}
    asserts: dict = field(default_factory=dict)   # "after <stmt pattern> #k" -> [Clause]  (refinement assertions)
    ghost_code: dict = field(default_factory=dict)  # "after <stmt pattern> #k" -> ["ghost stmt", ...]
    branch_iff: dict = field(default_factory=dict)  # "if#k" -> Clause: branch taken exactly under the condition
    lemmas_at: dict = field(default_factory=dict)   # "entry" / "post" / "after ..." -> ["lemma(args)"]
    ghost_results: dict = field(default_factory=dict)  # ghost locals mentioned by ensures: name -> T (existential for callers)
    no_raise: bool = False                          # every `raise` must be unreachable under the pre-condition (completeness)
    assigns: Optional[list] = None                  # attribute targets the method may assign (frame); None = unchecked
    fields: dict = field(default_factory=dict)      # object state at entry: "self.__x" -> T  (P-subset methods)
    block: Optional[tuple] = None       # (first key, last key): the contract is a Hoare triple on this contiguous block of
                                        # statements of the function ("assign x #0" style keys); `params` are the block's inputs
    attrs: dict = field(default_factory=dict)       # attribute expression text -> spec expression (e.g. "inst.n_items": "n")
    summaries: dict = field(default_factory=dict)   # "<stmt pattern> #k" -> Summary (assumed effect of an unmodelled statement)
    split: list = field(default_factory=list)       # "if#k": keep the two branch states as separate paths (no merge)
    must_fail: list = field(default_factory=list)
    i64: bool = True                        # emit int64 overflow obligations
    arith_props: str = ""                   # tags for i64/range obligations (default: props)
    bounds_props: str = "C13"
    gen: Optional[Callable] = None          # rng -> dict of concrete inputs satisfying requires
    call: Optional[Callable] = None         # (inputs) -> result of the real function (mutates inputs)
    assumptions: list = field(default_factory=list)  # free-text assumptions this contract rests on
    opaque: dict = field(default_factory=dict)  # assumed contracts of external callables: name -> Contract
    defaults: dict = field(default_factory=dict)    # default values of trailing parameters (read from the real `def`, see
                                                    # pyvc.extract.real_defaults): filled in when a call omits them
    npscalars: bool = False                 # interpreted (not njit) code: arithmetic on array elements that were not passed
                                            # through int() is numpy scalar arithmetic in the array's dtype (it wraps): every
                                            # such +, -, * gets a range obligation

    def __post_init__(self):
        dp = frozenset(self.props.split())
        self.requires = [_cl(c, dp) for c in self.requires]
        self.ensures = [_cl(c, dp) for c in self.ensures]
        self.must_fail = [_cl(c, dp) for c in self.must_fail]
        for lp in self.loops.values():
            lp.inv = [_cl(c, dp) for c in lp.inv]
            lp.iter = [_cl(c, dp) for c in lp.iter]
            lp.exit = [_cl(c, dp) for c in lp.exit]
        for k in list(self.asserts):
            self.asserts[k] = [_cl(c, dp) for c in self.asserts[k]]
        for k in list(self.branch_iff):
            self.branch_iff[k] = _cl(self.branch_iff[k], dp)
        if not self.arith_props:
            self.arith_props = self.props


CONTRACTS: dict = {}


def contract(fn: str, **kw) -> Contract:
    c = Contract(fn, **kw)
    CONTRACTS[fn] = c
    return c
