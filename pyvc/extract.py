"""Mechanical extraction of real functions from the /repo working tree.

Dropped, and nothing else: decorators, doc-strings, type annotations
(`x: Final[int] = e` is read as `x = e`; a bare `x: int` declaration is
dropped), and the message expressions of `raise` statements.
"""
from __future__ import annotations

import ast
import hashlib
import os
from dataclasses import dataclass, field

REPO = os.environ.get("VERIF_REPO", "/repo")


@dataclass
class FnSource:
    qualname: str            # "moptipyapps.tsp.tour_length:tour_length"
    path: str
    node: ast.FunctionDef
    source: str
    sha256: str
    consts: dict = field(default_factory=dict)   # module-level int/float/bool/str constants
    module_funcs: dict = field(default_factory=dict)  # name -> ast.FunctionDef of the same module
    stmt_ord: dict = field(default_factory=dict)  # id(stmt) -> pre-order ordinal
    if_ord: dict = field(default_factory=dict)    # id(If) -> k   (pre-order)
    loop_ord: dict = field(default_factory=dict)  # id(For/While) -> "0", "0.0", "1", ... (nesting path)
    after_key: dict = field(default_factory=dict)  # id(stmt) -> "after <pattern> #k" (k-th statement of that pattern)
    generic_key: dict = field(default_factory=dict)  # id(stmt) -> "assign a[] #k": element store into a, whatever the index
    renamed_locals: list = field(default_factory=list)  # (current name, name the contract uses) pairs mapped back (pure renaming)


def module_path(module: str) -> str:
    p = os.path.join(REPO, *module.split("."))
    if os.path.isdir(p):
        return os.path.join(p, "__init__.py")
    return p + ".py"


_cache: dict = {}


def _parse(path: str):
    st = os.stat(path)
    key = (path, st.st_mtime_ns, st.st_size)
    if key not in _cache:
        with open(path, encoding="utf-8") as f:
            text = f.read()
        _cache[key] = (text, ast.parse(text))
    return _cache[key]


def _module_consts(tree: ast.Module, module: str, depth: int = 0) -> dict:
    """Module-level constants: literal assignments, simple arithmetic on them,
    and names imported from other repo modules (one level)."""
    consts: dict = {}
    for s in tree.body:
        if isinstance(s, ast.ImportFrom) and s.module == "math":
            import math
            for a in s.names:
                if a.name in ("pi", "e", "inf", "tau"):
                    consts[a.asname or a.name] = getattr(math, a.name)
            continue
        if isinstance(s, ast.ImportFrom) and s.module and s.module.startswith("moptipyapps") and depth < 2:
            try:
                _, t2 = _parse(module_path(s.module))
                sub = _module_consts(t2, s.module, depth + 1)
            except (OSError, SyntaxError):
                sub = {}
            for a in s.names:
                if a.name in sub:
                    consts[a.asname or a.name] = sub[a.name]
            continue
        tgt = val = None
        if isinstance(s, ast.AnnAssign) and isinstance(s.target, ast.Name) and s.value is not None:
            tgt, val = s.target.id, s.value
        elif isinstance(s, ast.Assign) and len(s.targets) == 1 and isinstance(s.targets[0], ast.Name):
            tgt, val = s.targets[0].id, s.value
        if tgt is None:
            continue
        try:
            v = _const_eval(val, consts)
        except Exception:
            continue
        consts[tgt] = v
    return consts


def _const_eval(e: ast.AST, env: dict):
    if isinstance(e, ast.Constant) and isinstance(e.value, (int, float, bool, str)):
        return e.value
    if isinstance(e, ast.Name):
        return env[e.id]
    if isinstance(e, ast.UnaryOp) and isinstance(e.op, ast.USub):
        return -_const_eval(e.operand, env)
    if isinstance(e, ast.BinOp):
        a, b = _const_eval(e.left, env), _const_eval(e.right, env)
        if isinstance(a, str) or isinstance(b, str):
            raise ValueError
        ops = {ast.Add: lambda: a + b, ast.Sub: lambda: a - b, ast.Mult: lambda: a * b,
               ast.FloorDiv: lambda: a // b, ast.Div: lambda: a / b, ast.Pow: lambda: a ** b,
               ast.Mod: lambda: a % b}
        return ops[type(e.op)]()
    if isinstance(e, ast.Call) and isinstance(e.func, ast.Name) and e.func.id in ("int", "float") and len(e.args) == 1:
        return {"int": int, "float": float}[e.func.id](_const_eval(e.args[0], env))
    if isinstance(e, ast.Call) and isinstance(e.func, ast.Attribute) and e.func.attr == "sqrt" and len(e.args) == 1 \
            and isinstance(e.func.value, ast.Name) and e.func.value.id in ("np", "numpy", "math"):
        import math
        return math.sqrt(_const_eval(e.args[0], env))
    raise ValueError("not const")


def strip_doc(body: list) -> list:
    if body and isinstance(body[0], ast.Expr) and isinstance(body[0].value, ast.Constant) \
            and isinstance(body[0].value.value, str):
        return body[1:]
    return body


def get_function(qualname: str) -> FnSource:
    full = qualname
    qualname = qualname.partition("#")[0]     # "module:func#label": several (block) contracts on one function
    module, _, fpath = qualname.partition(":")
    path = module_path(module)
    text, tree = _parse(path)
    node = None
    scope = tree.body
    parts = fpath.split(".")
    for k, p in enumerate(parts):
        found = None
        for s in scope:
            if isinstance(s, (ast.FunctionDef, ast.ClassDef)) and s.name == p:
                found = s
                break
        if found is None:
            raise KeyError(f"{qualname}: no such function in {path}")
        node = found
        scope = found.body
    if not isinstance(node, ast.FunctionDef):
        raise KeyError(f"{qualname}: not a function")
    src = ast.get_source_segment(text, node) or ""
    # hash of the function with doc-string removed (so doc edits do not change identity)
    nd = ast.FunctionDef(name=node.name, args=node.args, body=strip_doc(node.body) or [ast.Pass()],
                         decorator_list=[], returns=None, type_comment=None, type_params=[])
    ast.fix_missing_locations(nd)
    h = hashlib.sha256(ast.dump(nd, include_attributes=False).encode()).hexdigest()
    import copy as _copy
    node = _copy.deepcopy(node)          # the cached module AST stays untouched
    renamed = undo_pure_renaming(qualname, node)
    fs = FnSource(full, path, node, src, h)
    fs.renamed_locals = renamed
    fs.restructured = restructured(qualname, node)
    fs.consts = _module_consts(tree, module)
    fs.module_funcs = {s.name: s for s in tree.body if isinstance(s, ast.FunctionDef)}
    index_function(fs)
    return fs


def real_defaults(qualname: str) -> dict:
    """The constant default values of the parameters of a real function, read from its `def` on every run."""
    node = get_function(qualname).node
    a = node.args
    out = {}
    pos = a.posonlyargs + a.args
    for p, d in zip(pos[len(pos) - len(a.defaults):], a.defaults):
        if isinstance(d, ast.Constant):
            out[p.arg] = d.value
        elif isinstance(d, ast.UnaryOp) and isinstance(d.op, ast.USub) and isinstance(d.operand, ast.Constant):
            out[p.arg] = -d.operand.value
    return out


# ---- renamed locals -------------------------------------------------------------------------------------------------
# Contracts name local variables of the real functions.  A refactoring that only renames locals would make every such
# clause dangle.  contracts/_shapes.json (written by tools/gen_shapes.py from the tree the contracts were written
# against) records, per function, the hash of its AST with the locals replaced by v0, v1, ... in order of first
# occurrence, and the names in that order.  If the current function has the *same* canonical hash but other names, the
# change is a pure renaming and the names are mapped back position by position before anything else looks at the AST;
# for any other change nothing is done here.
_SHAPES = None


def _local_names(node: ast.FunctionDef):
    """parameters and every name bound in the function body (assignment, loop, with, comprehension targets), in order of
    first occurrence in a pre-order walk; nested function definitions are left alone"""
    order, seen = [], set()

    def add(n):
        if n not in seen:
            seen.add(n)
            order.append(n)
    for a in node.args.posonlyargs + node.args.args + node.args.kwonlyargs:
        add(a.arg)
    if node.args.vararg:
        add(node.args.vararg.arg)
    if node.args.kwarg:
        add(node.args.kwarg.arg)
    bound = {n.id for n in ast.walk(node) if isinstance(n, ast.Name) and isinstance(n.ctx, (ast.Store, ast.Del))}
    for n in ast.walk(node):
        if isinstance(n, ast.Name) and (n.id in bound or n.id in seen):
            add(n.id)
    return order


def _canonical(node: ast.FunctionDef, names):
    import copy
    m = {n: f"v{k}" for k, n in enumerate(names)}
    c = copy.deepcopy(node)
    c.decorator_list, c.returns = [], None
    c.body = strip_doc(c.body) or [ast.Pass()]
    for n in ast.walk(c):
        if isinstance(n, ast.Name) and n.id in m:
            n.id = m[n.id]
        elif isinstance(n, ast.arg):
            if n.arg in m:
                n.arg = m[n.arg]
            n.annotation = None
        elif isinstance(n, ast.AnnAssign):
            n.annotation = ast.Constant(None)
    c.name = "f"
    return hashlib.sha256(ast.dump(c, include_attributes=False).encode()).hexdigest()


def skeleton_of(node: ast.FunctionDef) -> str:
    """Hash of what the positional keys of a contract depend on: the pre-order sequence of statement patterns
    ("assign <target>", "call <callee>", if / for / while / return, other statement kinds) with their nesting depth."""
    out = []

    def visit(stmts, depth):
        for s in stmts:
            pat = stmt_pattern(s) or type(s).__name__
            if isinstance(s, (ast.Assign, ast.AnnAssign, ast.AugAssign)):
                t = s.targets[0] if isinstance(s, ast.Assign) else s.target
                while isinstance(t, ast.Subscript):       # an element store: the array matters, not the index expression
                    t = t.value
                    pat = "assign " + unparse(t) + "[]"
            out.append(f"{depth}:{pat}")
            for fld in ("body", "orelse", "finalbody"):
                b = getattr(s, fld, None)
                if isinstance(b, list) and b and isinstance(b[0], ast.stmt) and not isinstance(s, (ast.FunctionDef, ast.ClassDef)):
                    out.append(f"{depth}:{fld}")
                    visit(b, depth + 1)
    visit(strip_doc(node.body), 0)
    return hashlib.sha256("\n".join(out).encode()).hexdigest()


def shape_of(node: ast.FunctionDef):
    names = _local_names(node)
    return {"canonical": _canonical(node, names), "locals": names, "skeleton": skeleton_of(node)}


def restructured(qualname: str, node: ast.FunctionDef) -> bool:
    """True if the statement skeleton of the function differs from the one the contracts were written against (recorded
    in contracts/_shapes.json): `if#k`, loop ordinals and `after <statement> #k` keys may then sit on other statements."""
    # (the record is loaded by undo_pure_renaming, which get_function calls first)
    rec = (_SHAPES or {}).get(qualname.partition("#")[0])
    if not rec or "skeleton" not in rec:
        return False
    return rec["skeleton"] != skeleton_of(node)


def undo_pure_renaming(qualname: str, node: ast.FunctionDef):
    """-> list of (current name, recorded name) pairs that were mapped back (empty if nothing was done)"""
    global _SHAPES
    if _SHAPES is None:
        import json
        path = os.path.join(os.path.dirname(os.path.dirname(os.path.abspath(__file__))), "contracts", "_shapes.json")
        try:
            with open(path, encoding="utf-8") as f:
                _SHAPES = json.load(f)
        except (OSError, ValueError):
            _SHAPES = {}
    rec = _SHAPES.get(qualname)
    if not rec:
        return []
    cur = shape_of(node)
    if cur["locals"] == rec["locals"] or cur["canonical"] != rec["canonical"] or len(cur["locals"]) != len(rec["locals"]):
        return []
    m = {a: b for a, b in zip(cur["locals"], rec["locals"]) if a != b}
    tmp = {a: f"__renamed_{k}__" for k, a in enumerate(m)}        # two steps: a <-> b swaps must not collide
    for table in (tmp, {tmp[a]: b for a, b in m.items()}):
        for n in ast.walk(node):
            if isinstance(n, ast.Name) and n.id in table:
                n.id = table[n.id]
            elif isinstance(n, ast.arg) and n.arg in table:
                n.arg = table[n.arg]
    return sorted(m.items())


def stmt_pattern(s):
    if isinstance(s, (ast.Assign, ast.AnnAssign, ast.AugAssign)):
        t = s.targets[0] if isinstance(s, ast.Assign) else s.target
        return "assign " + unparse(t)
    if isinstance(s, ast.Expr) and isinstance(s.value, ast.Call):
        return "call " + unparse(s.value.func)
    if isinstance(s, ast.While):
        return "while"
    if isinstance(s, ast.For):
        return "for"
    if isinstance(s, ast.If):
        return "if"
    if isinstance(s, ast.Return):
        return "return"
    return None


def index_function(fs: FnSource):
    """Syntactic (pre-order) ordinals: statements, ifs, loops, 'after <pattern> #k' keys."""
    n = 0
    nif = 0
    pat_counts: dict = {}

    def visit(stmts, loop_path, counter):
        nonlocal n, nif
        for s in stmts:
            fs.stmt_ord[id(s)] = n
            n += 1
            pat = stmt_pattern(s)
            if pat is not None:
                k = pat_counts.get(pat, 0)
                pat_counts[pat] = k + 1
                fs.after_key[id(s)] = f"after {pat} #{k}"
            if isinstance(s, (ast.Assign, ast.AnnAssign, ast.AugAssign)):
                t = s.targets[0] if isinstance(s, ast.Assign) else s.target
                if isinstance(t, ast.Subscript) and isinstance(t.value, ast.Name):
                    gp = f"assign {t.value.id}[]"
                    k = pat_counts.get(gp, 0)
                    pat_counts[gp] = k + 1
                    fs.generic_key[id(s)] = f"{gp} #{k}"
            if isinstance(s, ast.If):
                fs.if_ord[id(s)] = nif
                nif += 1
                visit(s.body, loop_path, counter)
                visit(s.orelse, loop_path, counter)
            elif isinstance(s, (ast.For, ast.While)):
                me = loop_path + [counter[0]]
                counter[0] += 1
                fs.loop_ord[id(s)] = ".".join(str(x) for x in me)
                visit(s.body, me, [0])
                visit(s.orelse, loop_path, counter)
            else:
                for fld in ("body", "orelse", "finalbody"):
                    b = getattr(s, fld, None)
                    if isinstance(b, list) and b and isinstance(b[0], ast.stmt):
                        visit(b, loop_path, counter)
    if fs.node is not None:
        visit(strip_doc(fs.node.body), [], [0])


def unparse(e: ast.AST) -> str:
    return ast.unparse(e).replace(" ", "")
