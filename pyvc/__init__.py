"""pyvc: verification-condition generator for real Python/numba functions of /repo (see /verif/DESIGN.md)."""
