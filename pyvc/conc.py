"""Concrete interpreter: runs the *same* extracted AST of the real function on concrete
inputs while checking the *same* contract (pre, loop invariants, bounds, ranges, i64,
init, post) with the same obligation names as the symbolic engine.  Used for
counterexample search / replay and for cross-checking the engine against CPython/numba.
"""
from __future__ import annotations

import ast
import sys
from dataclasses import dataclass, field

import numpy as np

from . import spec as S
from .extract import get_function, strip_doc, unparse

sys.setrecursionlimit(20000)
I64_MIN, I64_MAX = -2 ** 63, 2 ** 63 - 1


class Violation(Exception):
    def __init__(self, kind, label, detail=""):
        super().__init__(f"{kind}/{label}: {detail}")
        self.kind, self.label, self.detail = kind, label, detail


class _Break(Exception):
    pass


class _Continue(Exception):
    pass


class _Return(Exception):
    def __init__(self, v):
        self.v = v


class _Raise(Exception):
    """the interpreted code executed a `raise` statement"""


class Unsupported(Exception):
    pass


def pyval(v):
    if isinstance(v, (np.integer,)):
        return int(v)
    if isinstance(v, np.bool_):
        return bool(v)
    if isinstance(v, np.floating):
        return float(v)
    return v


@dataclass
class Frame:
    fn: str
    c: S.Contract
    fs: object
    env: dict
    old: dict
    wr: dict = field(default_factory=dict)       # name -> bool ndarray (written-set) for uninit arrays
    at_loop: list = field(default_factory=list)
    at_iter: list = field(default_factory=list)
    stmt: object = None
    stmt_counts: dict = field(default_factory=dict)
    if_count: int = 0
    loop_ord: list = field(default_factory=list)
    loop_counter: list = field(default_factory=lambda: [0])


class Interp:
    def __init__(self, contracts=None, collect=False, check_inv=True):
        self.contracts = contracts if contracts is not None else S.CONTRACTS
        self.collect = collect          # collect violations instead of raising at the first
        self.violations: list = []
        self.check_inv = check_inv
        self.steps = 0
        self.max_steps = 2_000_000
        self.paths: set = set()

    # ------------------------------------------------------------ reporting
    def fail(self, fr: Frame, kind, label, detail=""):
        v = Violation(kind, label, detail)
        v.fn = fr.fn
        v.props = None
        if self.collect and kind not in ("bounds",):
            self.violations.append(v)
            return
        raise v

    def lab(self, fr):
        return f"s{fr.fs.stmt_ord.get(id(fr.stmt), '?')}"

    # ------------------------------------------------------------ spec evaluation
    def sev(self, e, fr: Frame, env, ctx):
        """Evaluate a contract expression concretely."""
        t = type(e)
        if t is ast.Constant:
            return e.value
        if t is ast.Name:
            b = ctx.get("bound")
            if b and e.id in b:
                return b[e.id]
            if e.id == "return_value" and "result" in ctx:
                return ctx["result"]
            if e.id in env:
                return env[e.id]
            if e.id == "result":
                return ctx["result"]
            if e.id.endswith(("_lo", "_hi")):
                dn = e.id[:-3]
                for p, ty in fr.c.params.items():
                    if ty.kind == "arr" and ty.dtype == dn and p in fr.env:
                        info = np.iinfo(fr.env[p].dtype) if fr.env[p].dtype.kind in "iu" else None
                        if info is None:
                            return I64_MIN if e.id.endswith("_lo") else I64_MAX
                        return int(info.min) if e.id.endswith("_lo") else int(info.max)
                if "dts" in ctx and dn in ctx["dts"]:
                    return ctx["dts"][dn][0 if e.id.endswith("_lo") else 1]
            if e.id in fr.fs.consts:
                return fr.fs.consts[e.id]
            raise Unsupported(f"spec name {e.id}")
        if t is ast.UnaryOp:
            v = self.sev(e.operand, fr, env, ctx)
            return {ast.USub: lambda: -v, ast.Not: lambda: not v, ast.UAdd: lambda: v}[type(e.op)]()
        if t is ast.BinOp:
            a, b = self.sev(e.left, fr, env, ctx), self.sev(e.right, fr, env, ctx)
            a, b = pyval(a), pyval(b)
            return {ast.Add: lambda: a + b, ast.Sub: lambda: a - b, ast.Mult: lambda: a * b,
                    ast.FloorDiv: lambda: a // b, ast.Mod: lambda: a % b, ast.Div: lambda: a / b,
                    ast.Pow: lambda: a ** b}[type(e.op)]()
        if t is ast.BoolOp:
            if isinstance(e.op, ast.And):
                for v in e.values:
                    if not self.sev(v, fr, env, ctx):
                        return False
                return True
            for v in e.values:
                if self.sev(v, fr, env, ctx):
                    return True
            return False
        if t is ast.Compare:
            l = pyval(self.sev(e.left, fr, env, ctx))
            for op, c in zip(e.ops, e.comparators):
                r = pyval(self.sev(c, fr, env, ctx))
                ok = {ast.Lt: lambda: l < r, ast.LtE: lambda: l <= r, ast.Gt: lambda: l > r, ast.GtE: lambda: l >= r,
                      ast.Eq: lambda: l == r, ast.NotEq: lambda: l != r, ast.Is: lambda: l is r,
                      ast.IsNot: lambda: l is not r}[type(op)]()
                if not ok:
                    return False
                l = r
            return True
        if t is ast.IfExp:
            return self.sev(e.body, fr, env, ctx) if self.sev(e.test, fr, env, ctx) else self.sev(e.orelse, fr, env, ctx)
        if t is ast.Subscript:
            arr = self.sev(e.value, fr, env, ctx)
            idx = e.slice.elts if isinstance(e.slice, ast.Tuple) else [e.slice]
            ks = tuple(pyval(self.sev(x, fr, env, ctx)) for x in idx)
            if isinstance(arr, tuple):
                return arr[ks[0]]
            for d, k in enumerate(ks):
                if not (0 <= k < arr.shape[d]):
                    # a spec reads outside the array: mathematical arrays are total; give an arbitrary value
                    return 0
            return pyval(arr[ks])
        if t is ast.Tuple:
            return tuple(self.sev(x, fr, env, ctx) for x in e.elts)
        if t is ast.Call and isinstance(e.func, ast.Name):
            n = e.func.id
            if n in ("forall", "exists"):
                var = e.args[0].id
                lo = pyval(self.sev(e.args[1], fr, env, ctx))
                hi = pyval(self.sev(e.args[2], fr, env, ctx))
                c2 = dict(ctx)
                c2["bound"] = dict(ctx.get("bound") or {})
                for k in range(lo, hi):
                    c2["bound"][var] = k
                    v = self.sev(e.args[3], fr, env, c2)
                    if n == "forall" and not v:
                        return False
                    if n == "exists" and v:
                        return True
                return n == "forall"
            if n == "implies":
                return (not self.sev(e.args[0], fr, env, ctx)) or bool(self.sev(e.args[1], fr, env, ctx))
            if n == "iff":
                return bool(self.sev(e.args[0], fr, env, ctx)) == bool(self.sev(e.args[1], fr, env, ctx))
            if n == "ite":
                return self.sev(e.args[1], fr, env, ctx) if self.sev(e.args[0], fr, env, ctx) \
                    else self.sev(e.args[2], fr, env, ctx)
            if n == "old":
                return self.sev(e.args[0], fr, ctx["old"], ctx)
            if n == "at_loop":
                return self.sev(e.args[0], fr, ctx["at_loop"], ctx)
            if n == "at_iter":
                return self.sev(e.args[0], fr, ctx["at_iter"], ctx)
            if n == "len":
                return len(self.sev(e.args[0], fr, env, ctx))
            if n == "shape":
                return self.sev(e.args[0], fr, env, ctx).shape[e.args[1].value]
            if n == "view_index":
                raise Unsupported("view_index in concrete mode")
            if n == "rev_seg":
                a = self.sev(e.args[0], fr, env, ctx).copy()
                i_, j_ = pyval(self.sev(e.args[1], fr, env, ctx)), pyval(self.sev(e.args[2], fr, env, ctx))
                a[i_:j_ + 1] = a[i_:j_ + 1][::-1].copy()
                return a
            if n == "written":
                an = e.args[0].id
                ks = tuple(pyval(self.sev(x, fr, env, ctx)) for x in e.args[1:])
                w = ctx.get("wr", fr.wr).get(an)
                if w is None:
                    return True
                for d, k in enumerate(ks):
                    if not (0 <= k < w.shape[d]):
                        return False
                return bool(w[ks])
            if n == "same_array":
                return bool(np.array_equal(self.sev(e.args[0], fr, env, ctx), self.sev(e.args[1], fr, env, ctx)))
            if n in ("min", "max", "abs", "int"):
                vs = [pyval(self.sev(a, fr, env, ctx)) for a in e.args]
                return {"min": min, "max": max, "abs": abs, "int": int}[n](*vs)
            if n in S.SPECS:
                sf = S.SPECS[n]
                args = [self.sev(a, fr, env, ctx) for a in e.args]
                if sf.ast is None:
                    if sf.pyimpl is None:
                        raise Unsupported(f"uninterpreted spec {n} has no concrete implementation")
                    return sf.pyimpl(*args)
                c2 = {k: v for k, v in ctx.items() if k != "bound"}
                return self.sev(sf.ast, fr, dict(zip(sf.params, args)), c2)
        raise Unsupported(f"spec expression {ast.unparse(e)}")

    def check_clause(self, fr, cl, env, ctx, kind, label):
        try:
            ok = self.sev(cl.ast, fr, env, ctx)
        except RecursionError:
            raise Unsupported("recursion")
        if not ok:
            v = Violation(kind, label, cl.expr)
            v.fn, v.props = fr.fn, cl.props
            if self.collect:
                self.violations.append(v)
            else:
                raise v

    # ------------------------------------------------------------ running a function under its contract
    def run(self, qualname, inputs: dict, contract: S.Contract = None, ghosts_from=None):
        c = contract or self.contracts[qualname]
        fs = get_function(qualname)
        args = [a.arg for a in fs.node.args.args if a.arg not in ("self", "cls")]
        body = strip_doc(fs.node.body)
        if c.block is not None:       # Hoare triple on a statement block: inputs are the contract's params
            keys = [fs.after_key.get(id(s_)) for s_ in body]
            k0, k1 = "after " + c.block[0], "after " + c.block[1]
            if k0 not in keys or k1 not in keys:
                raise Unsupported(f"block {c.block} of {qualname} is not a top-level statement range of the current function")
            body = body[keys.index(k0):keys.index(k1) + 1]
            args = list(c.params)
        if c.block is None:
            # a parameter the contract (and hence the input generator) does not know: the signature changed.  A constant
            # default value is what every existing caller gets; anything else is outside what can be run here
            pos = fs.node.args.posonlyargs + fs.node.args.args
            dflt = dict(zip([p_.arg for p_ in pos[len(pos) - len(fs.node.args.defaults):]], fs.node.args.defaults))
            for a in args:
                if a not in inputs:
                    d_ = dflt.get(a)
                    if isinstance(d_, ast.Constant):
                        inputs = dict(inputs)
                        inputs[a] = d_.value
                    else:
                        raise Unsupported(f"parameter {a} of {qualname} is not known to the contract")
        env = {a: inputs[a] for a in args}
        for g, gt in c.ghosts.items():
            if g in inputs:
                env[g] = inputs[g]
            elif gt.kind in ("int", "pyint"):
                env[g] = 0          # a scalar ghost that the generator does not supply: set by ghost code before it is read
            else:
                env[g] = inputs[g]
        fr = Frame(qualname, c, fs, env, {})
        for p, ty in c.params.items():
            if ty.kind == "arr" and ty.uninit:
                fr.wr[p] = np.zeros(env[p].shape, bool)
        fr.old = {k: (v.copy() if isinstance(v, np.ndarray) else v) for k, v in env.items()}
        ctx = {"old": fr.old}
        for cl in c.requires:
            if not self.sev(cl.ast, fr, env, ctx):
                raise Violation("pre", cl.label, "precondition not satisfied by the input: " + cl.expr)
        result = None
        try:
            self.block(body, fr)
        except _Return as r:
            result = pyval(r.v)
        except _Raise:
            return None          # abnormal exit: the post-condition speaks about normal completion only
        ctx = {"old": fr.old, "result": result}
        for cl in c.ensures:
            self.check_clause(fr, cl, fr.env, ctx, "post", cl.label)
        return result

    # ------------------------------------------------------------ code evaluation
    def i64(self, fr, v):
        if fr.c.i64 and isinstance(v, int) and not isinstance(v, bool) and not (I64_MIN <= v <= I64_MAX):
            self.fail(fr, "i64", self.lab(fr), f"value {v}")
        return v

    def index(self, fr, txt, arr, d, k):
        n = arr.shape[d]
        lab = f"{txt}#{d}@{self.lab(fr)}"
        if not (-n <= k < n):
            v = Violation("bounds", lab, f"index {k} for axis {d} of size {n}")
            v.fn, v.props = fr.fn, frozenset(fr.c.bounds_props.split())
            raise v
        if k < 0:
            if not (isinstance(k, int) and txt.endswith("]") and (txt in fr.c.wraps or self._neg_const(txt))):
                self.fail(fr, "nowrap", lab, f"index {k} wraps")
            k += n
        return k

    @staticmethod
    def _neg_const(txt):
        inner = txt[txt.index("[") + 1:-1]
        return any(p.startswith("-") and p[1:].isdigit() for p in inner.split(","))

    def ev(self, e, fr: Frame):
        self.steps += 1
        if self.steps > self.max_steps:
            raise Unsupported("step limit")
        t = type(e)
        env = fr.env
        if t is ast.Constant:
            return e.value
        if t is ast.Name:
            if e.id in env:
                return env[e.id]
            if e.id in fr.fs.consts:
                return fr.fs.consts[e.id]
            raise Unsupported(f"name {e.id}")
        if t is ast.UnaryOp:
            v = pyval(self.ev(e.operand, fr))
            if isinstance(e.op, ast.USub):
                return self.i64(fr, -v)
            if isinstance(e.op, ast.Not):
                return not v
            return v
        if t is ast.BinOp:
            a, b = pyval(self.ev(e.left, fr)), pyval(self.ev(e.right, fr))
            op = type(e.op)
            if op in (ast.FloorDiv, ast.Mod, ast.Div) and b == 0:
                self.fail(fr, "div0", self.lab(fr), "division by zero")
                return 0
            r = {ast.Add: lambda: a + b, ast.Sub: lambda: a - b, ast.Mult: lambda: a * b,
                 ast.FloorDiv: lambda: a // b, ast.Mod: lambda: a % b, ast.Div: lambda: a / b,
                 ast.Pow: lambda: a ** b}[op]()
            return self.i64(fr, r)
        if t is ast.BoolOp:
            if isinstance(e.op, ast.And):
                v = True
                for x in e.values:
                    v = self.ev(x, fr)
                    if not v:
                        return v
                return v
            v = False
            for x in e.values:
                v = self.ev(x, fr)
                if v:
                    return v
            return v
        if t is ast.Compare:
            l = pyval(self.ev(e.left, fr))
            for op, c in zip(e.ops, e.comparators):
                r = pyval(self.ev(c, fr))
                ok = {ast.Lt: lambda: l < r, ast.LtE: lambda: l <= r, ast.Gt: lambda: l > r, ast.GtE: lambda: l >= r,
                      ast.Eq: lambda: l == r, ast.NotEq: lambda: l != r, ast.Is: lambda: l is r,
                      ast.IsNot: lambda: l is not r}[type(op)]()
                if not ok:
                    return False
                l = r
            return True
        if t is ast.IfExp:
            return self.ev(e.body, fr) if self.ev(e.test, fr) else self.ev(e.orelse, fr)
        if t is ast.Tuple:
            return tuple(self.ev(x, fr) for x in e.elts)
        if t is ast.Attribute:
            v = self.ev(e.value, fr)
            if isinstance(v, np.ndarray) and e.attr in ("shape", "size"):
                return getattr(v, e.attr)
            raise Unsupported(ast.unparse(e))
        if t is ast.Subscript:
            return self.load_sub(e, fr)
        if t is ast.Call:
            return self.call(e, fr)
        raise Unsupported(f"expression {ast.unparse(e)}")

    def base_info(self, node, fr):
        """-> (array value, written-set or None) for a Name; views created from names are numpy views."""
        v = self.ev(node, fr)
        return v

    def load_sub(self, e, fr):
        base = self.ev(e.value, fr)
        if isinstance(base, tuple):
            return base[pyval(self.ev(e.slice, fr))]
        elts = e.slice.elts if isinstance(e.slice, ast.Tuple) else [e.slice]
        txt = unparse(e)
        if any(isinstance(x, ast.Slice) for x in elts):
            # numpy slicing gives a view; bounds of slice limits are clipped by numpy (safe)
            idx = tuple(self.slice_obj(x, fr) if isinstance(x, ast.Slice) else
                        self.index(fr, txt, base, d, pyval(self.ev(x, fr))) for d, x in enumerate(elts))
            v = base[idx]
            wname = self.wr_name(e.value, fr)
            if wname and isinstance(v, np.ndarray):
                self._view_wr[id(v)] = (fr.wr[wname][idx], v)
            return v
        ks = tuple(self.index(fr, txt, base, d + self.view_axis(base, d), pyval(self.ev(x, fr)))
                   for d, x in enumerate(elts))
        if len(ks) < base.ndim:
            return base[ks]
        w = self.wr_for(e.value, base, fr)
        if w is not None and not w[ks]:
            self.fail(fr, "init", f"{txt}@{self.lab(fr)}", f"read of unwritten cell {ks}")
        return pyval(base[ks])

    def view_axis(self, base, d):
        return 0

    def wr_name(self, node, fr):
        if isinstance(node, ast.Name) and node.id in fr.wr:
            return node.id
        return None

    def wr_for(self, node, base, fr):
        n = self.wr_name(node, fr)
        if n:
            return fr.wr[n]
        ent = self._view_wr.get(id(base))
        if ent is not None and ent[1] is base:
            return ent[0]
        return None

    def slice_obj(self, s, fr):
        f = lambda x: None if x is None else pyval(self.ev(x, fr))
        return slice(f(s.lower), f(s.upper), f(s.step))

    def call(self, e, fr):
        f = e.func
        if isinstance(f, ast.Name):
            n = f.id
            if n in ("int", "float", "bool", "min", "max", "abs", "len"):
                vs = [pyval(self.ev(a, fr)) for a in e.args]
                if n in ("min", "max") and len(vs) == 1 and isinstance(vs[0], np.ndarray):
                    if vs[0].size == 0:
                        self.fail(fr, "nonempty", f"{unparse(e)}@{self.lab(fr)}", "empty")
                        return 0
                    return pyval(getattr(vs[0], n)())
                r = {"int": int, "float": float, "bool": bool, "min": min, "max": max, "abs": abs, "len": len}[n](*vs)
                return self.i64(fr, r) if n == "abs" else r
            if n in fr.fs.module_funcs:
                qn = fr.fn.partition(":")[0] + ":" + n
                cc = self.contracts.get(qn)
                if cc is None:
                    raise Unsupported(f"no contract for {qn}")
                actual = [self.ev(a, fr) for a in e.args]
                inputs = dict(zip(cc.params, actual))
                gmap = fr.c.calls.get(n, {})
                for g in cc.ghosts:
                    inputs[g] = pyval(self.sev(ast.parse(gmap[g], mode="eval").body, fr, fr.env, {"old": fr.old}))
                # written-sets travel with uninit arrays
                sub = Interp(self.contracts, self.collect, self.check_inv)
                sub._view_wr = self._view_wr
                sub.steps, sub.max_steps = self.steps, self.max_steps
                try:
                    res = sub.run_inner(qn, cc, inputs, fr, e)
                except Violation as v:
                    if v.kind == "pre":
                        v2 = Violation("pre@call", f"{n}@{self.lab(fr)}:{v.label}", v.detail)
                        v2.fn, v2.props = fr.fn, None
                        raise v2
                    raise
                self.steps = sub.steps
                self.violations.extend(sub.violations)
                return res
            raise Unsupported(f"call {n}")
        if isinstance(f, ast.Attribute):
            obj = self.ev(f.value, fr)
            if isinstance(obj, np.ndarray):
                if f.attr == "fill":
                    v = pyval(self.ev(e.args[0], fr))
                    self.range_check(fr, obj, v, unparse(e))
                    obj.fill(v)
                    w = self.wr_for(f.value, obj, fr)
                    if w is not None:
                        w.fill(True)
                    return None
                if f.attr in ("min", "max") and not e.args:
                    if obj.size == 0:
                        self.fail(fr, "nonempty", f"{unparse(e)}@{self.lab(fr)}", "empty")
                        return 0
                    w = self.wr_for(f.value, obj, fr)
                    if w is not None and not w.all():
                        self.fail(fr, "init", f"{unparse(e)}@{self.lab(fr)}", "reduction over unwritten cells")
                    return pyval(getattr(obj, f.attr)())
        raise Unsupported(f"call {ast.unparse(e)}")

    def run_inner(self, qn, cc, inputs, caller: Frame, call_node):
        fs = get_function(qn)
        args = [a.arg for a in fs.node.args.args]
        env = {a: inputs[a] for a in args}
        for g in cc.ghosts:
            env[g] = inputs[g]
        fr = Frame(qn, cc, fs, env, {})
        # share written-sets for arrays passed by name
        for p, a in zip(args, call_node.args):
            if isinstance(a, ast.Name) and a.id in caller.wr:
                fr.wr[p] = caller.wr[a.id]
        fr.old = {k: (v.copy() if isinstance(v, np.ndarray) else v) for k, v in env.items()}
        ctx = {"old": fr.old}
        for cl in cc.requires:
            if not self.sev(cl.ast, fr, env, ctx):
                raise Violation("pre", cl.label, cl.expr)
        result = None
        try:
            self.block(strip_doc(fs.node.body), fr)
        except _Return as r:
            result = pyval(r.v)
        ctx = {"old": fr.old, "result": result}
        for cl in cc.ensures:
            self.check_clause(fr, cl, fr.env, ctx, "post", cl.label)
        return result

    def range_check(self, fr, arr, v, txt):
        if arr.dtype.kind in "iu":
            info = np.iinfo(arr.dtype)
            if not (info.min <= v <= info.max):
                self.fail(fr, "range", f"{txt}@{self.lab(fr)}", f"value {v} does not fit {arr.dtype}")
                return False
        return True

    # ------------------------------------------------------------ statements
    def block(self, stmts, fr):
        for s in stmts:
            fr.stmt = s
            self.stmt(s, fr)
            self.after_stmt(s, fr)

    def after_stmt(self, s, fr):
        c = fr.c
        key = fr.fs.after_key.get(id(s))
        if key is None or not (c.ghost_code or c.asserts):
            return
        for gs in c.ghost_code.get(key, []):
            self.ghost(gs, fr)
        for cl in c.asserts.get(key, []):
            self.check_clause(fr, cl, fr.env, self.ctx(fr), "assert", f"{key}:{cl.label}")

    def ctx(self, fr):
        c = {"old": fr.old}
        if fr.at_loop:
            c["at_loop"] = fr.at_loop[-1]
        if fr.at_iter:
            c["at_iter"] = fr.at_iter[-1]
        return c

    def ghost(self, text, fr):
        node = ast.parse(text.strip()).body[0]
        tgt = node.targets[0]
        val = self.sev(node.value, fr, fr.env, self.ctx(fr))
        if isinstance(tgt, ast.Name):
            fr.env[tgt.id] = val
        else:
            arr = fr.env[tgt.value.id]
            idx = tgt.slice.elts if isinstance(tgt.slice, ast.Tuple) else [tgt.slice]
            ks = tuple(pyval(self.sev(x, fr, fr.env, self.ctx(fr))) for x in idx)
            if all(0 <= k < arr.shape[d] for d, k in enumerate(ks)):
                arr[ks] = val

    def stmt(self, s, fr):
        t = type(s)
        if t is ast.Pass:
            return
        if t is ast.Expr:
            if not isinstance(s.value, ast.Constant):
                self.ev(s.value, fr)
            return
        if t is ast.AnnAssign:
            if s.value is not None:
                self.assign(s.target, self.ev(s.value, fr), fr)
            return
        if t is ast.Assign:
            tgt = s.targets[0]
            if isinstance(tgt, ast.Subscript) and isinstance(tgt.slice, ast.Slice):
                return self.slice_assign(tgt, s.value, fr)
            val = self.ev(s.value, fr)
            for tgt in s.targets:
                self.assign(tgt, val, fr)
            return
        if t is ast.AugAssign:
            ld = ast.Subscript(value=s.target.value, slice=s.target.slice, ctx=ast.Load()) \
                if isinstance(s.target, ast.Subscript) else ast.Name(id=s.target.id, ctx=ast.Load())
            node = ast.BinOp(left=ld, op=s.op, right=s.value)
            self.assign(s.target, self.ev(node, fr), fr)
            return
        if t is ast.Return:
            raise _Return(self.ev(s.value, fr) if s.value is not None else None)
        if t is ast.Break:
            raise _Break()
        if t is ast.Continue:
            raise _Continue()
        if t is ast.If:
            k = fr.fs.if_ord[id(s)]
            c = bool(self.ev(s.test, fr))
            key = f"if#{k}"
            if key in fr.c.branch_iff:
                cl = fr.c.branch_iff[key]
                g = bool(self.sev(cl.ast, fr, fr.env, self.ctx(fr)))
                if g != c:
                    self.fail(fr, "branch-iff", f"{key}:{cl.label}", cl.expr)
            self.paths.add((fr.fn, id(s), c))
            self.block(s.body if c else s.orelse, fr)
            fr.stmt = s
            return
        if t is ast.For:
            return self.for_(s, fr)
        if t is ast.While:
            return self.while_(s, fr)
        if t is ast.Assert:
            return
        if t is ast.Raise:
            raise _Raise()
        raise Unsupported(f"statement {t.__name__}")

    def assign(self, tgt, val, fr):
        if isinstance(tgt, ast.Name):
            fr.env[tgt.id] = pyval(val) if not isinstance(val, (np.ndarray, tuple)) else val
            return
        if isinstance(tgt, ast.Tuple):
            for t_, v in zip(tgt.elts, val):
                self.assign(t_, v, fr)
            return
        if isinstance(tgt, ast.Subscript):
            base = self.ev(tgt.value, fr)
            elts = tgt.slice.elts if isinstance(tgt.slice, ast.Tuple) else [tgt.slice]
            txt = unparse(tgt)
            ks = tuple(self.index(fr, txt, base, d, pyval(self.ev(x, fr))) for d, x in enumerate(elts))
            val = pyval(val)
            if isinstance(tgt.value, ast.Name) and tgt.value.id in fr.c.params \
                    and tgt.value.id not in fr.c.modifies:
                self.fail(fr, "frame", f"{txt}@{self.lab(fr)}", "store into an array outside the frame")
            if self.range_check(fr, base, val, txt):
                base[ks] = val
            w = self.wr_for(tgt.value, base, fr)
            if w is not None:
                w[ks] = True
            return
        raise Unsupported("assignment target")

    def slice_assign(self, tgt, value, fr):
        base = self.ev(tgt.value, fr)
        src = self.ev(value.value, fr)
        ts, vs = self.slice_obj(tgt.slice, fr), self.slice_obj(value.slice, fr)
        n = base.shape[0]
        lab = f"{unparse(tgt)}@{self.lab(fr)}"
        a = ts.start or 0
        b = n if ts.stop is None else ts.stop
        c = vs.start
        cnt = (c + 1) if vs.stop is None else (c - vs.stop)
        ok = 0 <= a <= b <= n and c is not None and 0 <= c < n and (vs.stop is None or vs.stop >= 0) and cnt == b - a
        if not ok:
            v = Violation("bounds", lab, f"slice assignment {ts} <- {vs} on length {n}")
            v.fn, v.props = fr.fn, frozenset(fr.c.bounds_props.split())
            raise v
        base[ts] = src[vs].copy()


    def needs_at_loop(self, fr, lp):
        if self.check_inv and any("at_loop" in cl.expr for cl in lp.inv):
            return True
        if any("at_loop" in cl.expr for cl in list(lp.iter) + list(lp.exit)):
            return True
        return any("at_loop" in cl.expr for v in fr.c.asserts.values() for cl in v)

    def snapshot(self, fr):
        return {k: (v.copy() if isinstance(v, np.ndarray) else v) for k, v in fr.env.items()}

    def check_invs(self, fr, lp, ordn, kind):
        if not self.check_inv:
            return
        ctx = self.ctx(fr)
        for cl in lp.inv:
            self.check_clause(fr, cl, fr.env, ctx, kind, f"loop{ordn}:{cl.label}")

    def for_(self, s, fr):
        ordn = fr.fs.loop_ord[id(s)]
        try:
            lp = fr.c.loops.get(ordn) or S.Loop()
            it, tgt = s.iter, s.target
            cvar = evar = None
            if isinstance(it, ast.Call) and isinstance(it.func, ast.Name) and it.func.id == "range":
                a = [pyval(self.ev(x, fr)) for x in it.args]
                lo, hi = (0, a[0]) if len(a) == 1 else (a[0], a[1])
                cvar = tgt.id
                seq = None
            else:
                if isinstance(it, ast.Call) and isinstance(it.func, ast.Name) and it.func.id == "enumerate":
                    seq = self.ev(it.args[0], fr)
                    seq_node = it.args[0]
                    cvar, evar = tgt.elts[0].id, tgt.elts[1].id
                else:
                    seq = self.ev(it, fr)
                    seq_node = it
                    evar = tgt.id
                    cvar = lp.index or f"_k{ordn.replace('.', '_')}"
                lo, hi = 0, len(seq)
            if lp.range_is is not None and seq is None:
                rl = pyval(self.sev(ast.parse(lp.range_is[0], mode="eval").body, fr, fr.env, self.ctx(fr)))
                rh = pyval(self.sev(ast.parse(lp.range_is[1], mode="eval").body, fr, fr.env, self.ctx(fr)))
                if (lo, hi) != (rl, rh):
                    v = Violation("assert", f"loop{ordn}:range-is", f"range({lo}, {hi}) instead of ({rl}, {rh})")
                    v.fn, v.props = fr.fn, frozenset(lp.range_props.split())
                    raise v
            for gs in lp.ghost_pre:
                self.ghost(gs, fr)
            need_snap = self.needs_at_loop(fr, lp)
            fr.at_loop.append(self.snapshot(fr) if need_snap else fr.env)
            iter_snap = bool(lp.iter) or any("at_iter" in cl.expr for v in fr.c.asserts.values() for cl in v)
            k = lo
            fr.env[cvar] = k
            self.check_invs(fr, lp, ordn, "inv-init")
            top = max(lo, hi)
            try:
                while k < hi:
                    fr.env[cvar] = k
                    if evar:
                        w = self.wr_for(seq_node, seq, fr)
                        if w is not None and not w[k]:
                            self.fail(fr, "init", f"for-elem@{self.lab(fr)}", f"read of unwritten cell {k}")
                        fr.env[evar] = pyval(seq[k])
                    fr.at_iter.append(self.snapshot(fr) if iter_snap else fr.env)
                    try:
                        try:
                            self.block(s.body, fr)
                        except _Continue:
                            pass
                        for cl in lp.iter:
                            self.check_clause(fr, cl, fr.env, self.ctx(fr), "iter", f"loop{ordn}:{cl.label}")
                    finally:
                        fr.at_iter.pop()
                    for gs in lp.ghost_end:
                        self.ghost(gs, fr)
                    k += 1
                    fr.env[cvar] = k
                    fr.stmt = s
                    self.check_invs(fr, lp, ordn, "inv-pres")
                    fr.env[cvar] = k - 1 if cvar == getattr(tgt, "id", None) else k
            except _Break:
                pass
            fr.at_loop.pop()
            fr.stmt = s
        finally:
            pass

    def while_(self, s, fr):
        ordn = fr.fs.loop_ord[id(s)]
        try:
            lp = fr.c.loops.get(ordn) or S.Loop()
            for gs in lp.ghost_pre:
                self.ghost(gs, fr)
            need_snap = self.needs_at_loop(fr, lp)
            fr.at_loop.append(self.snapshot(fr) if need_snap else fr.env)
            self.check_invs(fr, lp, ordn, "inv-init")
            var = ast.parse(lp.variant, mode="eval").body if lp.variant else None
            try:
                while True:
                    v0 = pyval(self.sev(var, fr, fr.env, self.ctx(fr))) if var is not None else None
                    fr.stmt = s
                    snap = self.snapshot(fr) if (lp.iter or lp.exit) else fr.env
                    if not self.ev(s.test, fr):
                        fr.at_iter.append(snap)
                        try:
                            for cl in lp.exit:
                                self.check_clause(fr, cl, fr.env, self.ctx(fr), "exit", f"loop{ordn}:{cl.label}")
                        finally:
                            fr.at_iter.pop()
                        break
                    fr.at_iter.append(snap)
                    try:
                        try:
                            self.block(s.body, fr)
                        except _Continue:
                            pass
                        for cl in lp.iter:
                            self.check_clause(fr, cl, fr.env, self.ctx(fr), "iter", f"loop{ordn}:{cl.label}")
                    finally:
                        fr.at_iter.pop()
                    for gs in lp.ghost_end:
                        self.ghost(gs, fr)
                    fr.stmt = s
                    self.check_invs(fr, lp, ordn, "inv-pres")
                    if var is not None:
                        v1 = pyval(self.sev(var, fr, fr.env, self.ctx(fr)))
                        if not (v0 >= 0 and v1 < v0):
                            self.fail(fr, "variant", f"loop{ordn}", f"{v0} -> {v1}")
            except _Break:
                pass
            fr.at_loop.pop()
        finally:
            pass

    _view_wr: dict = {}
