"""Straight-line float kernels (controllers, system equations): the real function's AST is evaluated over
sympy symbols (state[k] -> s_k, params[k] -> p_k, control[k] -> c_k); `if` statements split paths.  The result
(out[k] as exact symbolic terms over the reals) is compared with the documented formula by polynomial normal
form / structural identity (sympy) and, for the piecewise kernels, by z3's non-linear real arithmetic.

Assumption stated in every evidence file: IEEE arithmetic is treated as real arithmetic (these kernels are
compiled with fastmath=True, so bit-exact claims would be meaningless anyway)."""
from __future__ import annotations

import ast
import itertools
import math
import time
from dataclasses import dataclass, field

import sympy as sp

from .extract import get_function, strip_doc, unparse


class FloatOutOfSubset(Exception):
    pass


@dataclass
class Res:
    """decided pseudo-obligation (same reporting interface as symexec.Obl)"""
    fn: str
    kind: str
    label: str
    props: frozenset
    result: str
    backend: str = "sympy"
    time: float = 0.0
    model: str = ""
    reason: str = ""
    expect: str = "unsat"
    smt2: str = ""
    witness: dict = None

    @property
    def name(self):
        return f"{self.fn}/{self.kind}/{self.label}"


class Sym:
    def __init__(self):
        self.syms = {}
        self.reads = {}      # array name -> set of constant indices read
        self.writes = {}     # array name -> set of constant indices written

    def elem(self, arr, k):
        key = (arr, k)
        if key not in self.syms:
            self.syms[key] = sp.Symbol(f"{arr}_{k}", real=True)
        return self.syms[key]


TRUNC = sp.Function("trunc")     # int(x): truncation towards zero, uninterpreted
FUNCS = {"exp": sp.exp, "arctan": sp.atan, "sin": sp.sin, "cos": sp.cos, "tanh": sp.tanh, "sqrt": sp.sqrt,
         "acos": sp.acos, "arccos": sp.acos}


class Kernel:
    """Symbolic evaluation of one float kernel: -> list of paths (conditions, {("out", k): expr})"""

    def __init__(self, qualname, source_override=None, helpers=None):
        self.qualname = qualname
        if source_override is not None:
            tree = ast.parse(source_override)
            self.node = [n for n in tree.body if isinstance(n, ast.FunctionDef)][0]
            self.consts = {}
            self.module_funcs = {}
        else:
            fs = get_function(qualname)
            self.node, self.consts, self.module_funcs = fs.node, fs.consts, fs.module_funcs
            self.sha = fs.sha256
        self.sym = Sym()
        self.helpers = helpers or {}     # name -> callable on sympy values (contracts of one-line helpers)
        self.args = [a.arg for a in self.node.args.args]
        self.paths = []
        self.plain_math = False      # sqrt/cos/... imported from math as plain names
        self.int_is_trunc = False    # int(x) of a float is a truncation (uninterpreted), not the identity

    def run(self, scalars=()):
        env = {}
        for a in self.args:
            if a in scalars:
                env[a] = sp.Symbol(a, real=True)
                continue
            env[a] = ("array", a) if a not in ("_", "time", "t") else sp.Symbol("t", real=True)
        self._block(strip_doc(self.node.body), env, [], {})
        return self.paths

    def _block(self, stmts, env, conds, outs):
        env, outs = dict(env), dict(outs)
        for i, s in enumerate(stmts):
            if isinstance(s, ast.Expr) and isinstance(s.value, ast.Constant):
                continue
            if isinstance(s, ast.Pass):
                continue
            if isinstance(s, (ast.Assign, ast.AnnAssign, ast.AugAssign)):
                if isinstance(s, ast.AnnAssign) and s.value is None:
                    continue
                tgt = s.targets[0] if isinstance(s, ast.Assign) else s.target
                if isinstance(s, ast.Assign) and len(s.targets) != 1:
                    raise FloatOutOfSubset("chained assignment")
                val = self._ev(s.value, env, outs)
                if isinstance(s, ast.AugAssign):
                    cur = self._ev(ast.Name(id=tgt.id, ctx=ast.Load()) if isinstance(tgt, ast.Name) else
                                   ast.Subscript(value=tgt.value, slice=tgt.slice, ctx=ast.Load()), env, outs)
                    op = type(s.op)
                    val = {ast.Add: cur + val, ast.Sub: cur - val, ast.Mult: cur * val, ast.Div: cur / val}[op]
                if isinstance(tgt, ast.Name):
                    env[tgt.id] = val
                elif isinstance(tgt, ast.Subscript) and isinstance(tgt.value, ast.Name):
                    arr = env.get(tgt.value.id)
                    if not (isinstance(arr, tuple) and arr[0] == "array"):
                        raise FloatOutOfSubset("store into non-parameter")
                    k = self._const_index(tgt.slice, env, outs)
                    self.sym.writes.setdefault(arr[1], set()).add(k)
                    outs[(arr[1], k)] = val
                else:
                    raise FloatOutOfSubset(f"target {ast.unparse(tgt)}")
                continue
            if isinstance(s, ast.If):
                c = self._ev(s.test, env, outs)
                rest = stmts[i + 1:]
                self._block(list(s.body) + rest, env, conds + [c], outs)
                self._block(list(s.orelse) + rest, env, conds + [sp.Not(c)], outs)
                return
            if isinstance(s, ast.Return):
                if s.value is not None:
                    outs[("return", 0)] = self._ev(s.value, env, outs)
                self.paths.append((conds, outs))
                return
            raise FloatOutOfSubset(f"statement {type(s).__name__}")
        self.paths.append((conds, outs))

    def _const_index(self, sl, env, outs):
        v = self._ev(sl, env, outs)
        if isinstance(v, (int, sp.Integer)):
            return int(v)
        raise FloatOutOfSubset("non-constant index")

    def _ev(self, e, env, outs):
        if isinstance(e, ast.Constant):
            if isinstance(e.value, bool):
                return sp.true if e.value else sp.false
            if isinstance(e.value, int):
                return sp.Integer(e.value)
            if isinstance(e.value, float):
                return _exact(e.value)
            raise FloatOutOfSubset("constant")
        if isinstance(e, ast.Name):
            if e.id in env:
                return env[e.id]
            if e.id in self.consts and isinstance(self.consts[e.id], (int, float)):
                return _exact(self.consts[e.id])
            if e.id == "pi":
                return _exact(math.pi)
            raise FloatOutOfSubset(f"name {e.id}")
        if isinstance(e, ast.UnaryOp):
            v = self._ev(e.operand, env, outs)
            if isinstance(e.op, ast.USub):
                return -v
            if isinstance(e.op, ast.Not):
                return sp.Not(v)
            return v
        if isinstance(e, ast.BinOp):
            a, b = self._ev(e.left, env, outs), self._ev(e.right, env, outs)
            op = type(e.op)
            if op is ast.Add:
                return a + b
            if op is ast.Sub:
                return a - b
            if op is ast.Mult:
                return a * b
            if op is ast.Div:
                return a / b
            if op is ast.Pow:
                if b == 2 or b == sp.Integer(2):
                    return a * a
                if isinstance(b, (sp.Integer, sp.Rational)) and b == int(b) and 0 <= int(b) <= 6:
                    return a ** int(b)
                raise FloatOutOfSubset("power")
            raise FloatOutOfSubset("operator")
        if isinstance(e, ast.Compare) and len(e.ops) == 1:
            a, b = self._ev(e.left, env, outs), self._ev(e.comparators[0], env, outs)
            return {ast.Lt: sp.Lt, ast.LtE: sp.Le, ast.Gt: sp.Gt, ast.GtE: sp.Ge, ast.Eq: sp.Eq,
                    ast.NotEq: sp.Ne}[type(e.ops[0])](a, b)
        if isinstance(e, ast.IfExp):
            return sp.Piecewise((self._ev(e.body, env, outs), self._ev(e.test, env, outs)),
                                (self._ev(e.orelse, env, outs), True))
        if isinstance(e, ast.Subscript) and isinstance(e.value, ast.Name):
            arr = env.get(e.value.id)
            if isinstance(arr, tuple) and arr[0] == "array":
                k = self._const_index(e.slice, env, outs)
                if (arr[1], k) in outs:          # reads back what this call has written
                    return outs[(arr[1], k)]
                self.sym.reads.setdefault(arr[1], set()).add(k)
                return self.sym.elem(arr[1], k)
            raise FloatOutOfSubset("subscript")
        if isinstance(e, ast.Call):
            f = e.func
            args = [self._ev(a, env, outs) for a in e.args]
            if isinstance(f, ast.Attribute) and isinstance(f.value, ast.Name) and f.value.id in ("np", "math", "numpy") \
                    and f.attr in FUNCS:
                return FUNCS[f.attr](*args)
            if isinstance(f, ast.Name) and f.id in self.helpers:
                return self.helpers[f.id](*args)
            if isinstance(f, ast.Name) and f.id in FUNCS and self.plain_math:
                return FUNCS[f.id](*args)
            if isinstance(f, ast.Name) and f.id == "int" and len(args) == 1 and self.int_is_trunc:
                return TRUNC(args[0])
            if isinstance(f, ast.Name) and f.id in ("float", "int") and len(args) == 1:
                return args[0]
            raise FloatOutOfSubset(f"call {ast.unparse(f)}")
        raise FloatOutOfSubset(f"expression {ast.unparse(e)}")


def _exact(v):
    """a float literal as the exact rational it denotes (so identities are decided exactly)"""
    if isinstance(v, int):
        return sp.Integer(v)
    return sp.Rational(*float(v).as_integer_ratio())


def factory_dims(module, factory):
    """Controller(name, state_dims, control_dims, param_dims, fn) calls in a factory function: fn name -> dims"""
    fs = get_function(f"{module}:{factory}")
    out = {}
    for n in ast.walk(fs.node):
        if isinstance(n, ast.Call) and isinstance(n.func, ast.Name) and n.func.id == "Controller" and len(n.args) >= 5:
            try:
                sd, cd, pd = (int(ast.literal_eval(a)) for a in n.args[1:4])
            except Exception:
                continue
            if isinstance(n.args[4], ast.Name):
                out[n.args[4].id] = (sd, cd, pd)
    return out


def zero(expr):
    """exact decision of expr == 0 for the terms built by the evaluator: structural after expansion (proof);
    a numerically non-zero value at a rational point is a sound refutation; only if neither decides, simplify."""
    d = sp.expand(expr)
    if d == 0:
        return True
    syms = sorted(d.free_symbols, key=str)
    import random
    rng = random.Random(12345)
    for _ in range(6):
        vals = {s_: sp.Rational(rng.randint(-9, 9), rng.choice([1, 2, 3])) for s_ in syms}
        try:
            v = complex(sp.N(d.subs(vals), 40))
        except Exception:
            continue
        if abs(v) > 1e-25:
            return False
    return sp.simplify(d) == 0


def numeric_witness(expr_a, expr_b, symbols, seed=0):
    import random
    rng = random.Random(seed)
    for _ in range(200):
        vals = {s: sp.Rational(rng.randint(-8, 8), rng.choice([1, 2, 4])) for s in symbols}
        try:
            da = complex(sp.N(expr_a.subs(vals), 30))
            db = complex(sp.N(expr_b.subs(vals), 30))
        except Exception:
            continue
        if abs(da - db) > 1e-9 * (1 + abs(da)):
            return {str(k): float(v) for k, v in vals.items()}
    return None


def to_z3(expr, cache):
    """sympy polynomial / relational term -> z3 Real term"""
    import z3
    if isinstance(expr, sp.Symbol):
        if expr not in cache:
            cache[expr] = z3.Real(str(expr))
        return cache[expr]
    if isinstance(expr, sp.Integer):
        return z3.RealVal(int(expr))
    if isinstance(expr, sp.Rational):
        return z3.RealVal(f"{expr.p}/{expr.q}")
    if isinstance(expr, sp.Add):
        r = to_z3(expr.args[0], cache)
        for a in expr.args[1:]:
            r = r + to_z3(a, cache)
        return r
    if isinstance(expr, sp.Mul):
        r = to_z3(expr.args[0], cache)
        for a in expr.args[1:]:
            r = r * to_z3(a, cache)
        return r
    if isinstance(expr, sp.Pow) and isinstance(expr.exp, sp.Integer) and int(expr.exp) >= 0:
        b = to_z3(expr.base, cache)
        r = z3.RealVal(1)
        for _ in range(int(expr.exp)):
            r = r * b
        return r
    if isinstance(expr, sp.Not):
        return z3.Not(to_z3(expr.args[0], cache))
    if isinstance(expr, (sp.StrictLessThan, sp.LessThan, sp.StrictGreaterThan, sp.GreaterThan)):
        a, b = to_z3(expr.args[0], cache), to_z3(expr.args[1], cache)
        return {sp.StrictLessThan: a < b, sp.LessThan: a <= b, sp.StrictGreaterThan: a > b, sp.GreaterThan: a >= b}[type(expr)]
    if expr is sp.true:
        return z3.BoolVal(True)
    if expr is sp.false:
        return z3.BoolVal(False)
    raise FloatOutOfSubset(f"to_z3: {expr!r}")
