"""Discharge obligations: z3 (Python API, in a process pool) first, cvc5 binary for z3's unknowns."""
from __future__ import annotations

import multiprocessing as mp
import os
import subprocess
import tempfile
import time

import z3

CVC5 = "/usr/bin/cvc5"


def to_smt2(facts, goal, expect):
    s = z3.Solver()
    for f in facts:
        s.add(f)
    if expect == "sat":
        s.add(goal)
    else:
        s.add(z3.Not(goal))
    return s.to_smt2()


def _run_z3(args):
    text, timeout_ms, seed = args
    t0 = time.time()
    try:
        s = z3.Solver()
        s.set("timeout", timeout_ms)
        if seed:
            s.set("random_seed", seed)
        s.from_string(text)
        r = s.check()
        res = str(r)
        model = ""
        reason = ""
        if r == z3.sat:
            try:
                model = s.model().sexpr()[:4000]
            except Exception:
                model = ""
        elif r == z3.unknown:
            reason = s.reason_unknown()
        return res, time.time() - t0, model, reason
    except Exception as ex:   # parse errors etc. are checker faults, never verdicts
        return "error", time.time() - t0, "", repr(ex)


def run_cvc5(text, timeout_s):
    t0 = time.time()
    with tempfile.NamedTemporaryFile("w", suffix=".smt2", delete=False) as f:
        f.write(text.replace("(check-sat)", "(check-sat)\n"))
        path = f.name
    try:
        p = subprocess.run([CVC5, "--lang=smt2", f"--tlimit={int(timeout_s * 1000)}", path],
                           capture_output=True, text=True, timeout=timeout_s + 5)
        out = p.stdout.strip().splitlines()
        res = out[0] if out else "unknown"
        if res not in ("sat", "unsat", "unknown"):
            res = "unknown"
        return res, time.time() - t0
    except subprocess.TimeoutExpired:
        return "unknown", time.time() - t0
    finally:
        os.unlink(path)


def _run_cvc5(args):
    return run_cvc5(*args)


def discharge(obls, facts_of, timeout_s=10, procs=None, use_cvc5=True, seed=0):
    """obls: list of Obl; facts_of(obl) -> list of z3 facts.  Sets obl.result in
    {'proved','refuted','undecided','error'} (+ 'covered' etc. for expect != 'unsat')."""
    procs = procs or min(16, os.cpu_count() or 4)
    jobs = []
    for o in obls:
        goal = o.goal
        if o.expect == "unsat" and z3.is_true(z3.simplify(goal)):
            o.result, o.backend, o.time, o.model, o.reason = "proved", "simplify", 0.0, "", ""
            continue
        o.smt2 = to_smt2(list(facts_of(o)) + list(o.extra), goal, o.expect)
        jobs.append(o)
    if jobs:
        ctx = mp.get_context("fork")
        with ctx.Pool(min(procs, len(jobs))) as pool:
            # vacuity probes (cover / must_fail) get a short budget: only a definite `unsat` matters for them
            res = pool.map(_run_z3, [(o.smt2, int((timeout_s if o.expect == "unsat" else min(timeout_s, 3)) * 1000), seed)
                                     for o in jobs], chunksize=1)
        for o, (r, t, model, reason) in zip(jobs, res):
            o.raw, o.time, o.model, o.reason, o.backend = r, t, model, reason, "z3"
        unk = [o for o in jobs if o.raw == "unknown" and o.expect == "unsat"]
        if unk and use_cvc5 and os.path.exists(CVC5):
            with ctx.Pool(min(procs, len(unk))) as pool:
                res = pool.map(_run_cvc5, [(o.smt2, timeout_s) for o in unk], chunksize=1)
            for o, (r, t) in zip(unk, res):
                o.time += t
                if r != "unknown":
                    o.raw, o.backend = r, "cvc5"
        # quantifier instantiation is sensitive to the solver's random choices (and to machine load): an `unknown` is
        # re-posed under two other seeds before the obligation is called undecided
        for rs in (7, 13):
            unk = [o for o in jobs if o.raw == "unknown" and o.expect == "unsat"]
            if not unk:
                break
            with ctx.Pool(min(procs, len(unk))) as pool:
                res = pool.map(_run_z3, [(o.smt2, int(timeout_s * 1000), rs) for o in unk], chunksize=1)
            for o, (r, t, model, reason) in zip(unk, res):
                o.time += t
                if r in ("sat", "unsat"):
                    o.raw, o.model, o.reason, o.backend = r, model, reason, f"z3(seed {rs})"
        for o in jobs:
            if o.raw == "error":
                o.result = "error"
            elif o.expect == "unsat":
                o.result = {"unsat": "proved", "sat": "refuted", "unknown": "undecided"}[o.raw]
            elif o.expect == "sat":     # cover: hypotheses must be satisfiable; unsat = vacuous
                o.result = {"unsat": "vacuous", "sat": "covered", "unknown": "cover-unknown"}[o.raw]
            else:                       # must_fail probe: a deliberately false assertion must not be provable
                o.result = {"unsat": "probe-proved", "sat": "probe-ok", "unknown": "probe-ok"}[o.raw]
    return obls
