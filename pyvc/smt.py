"""Discharge obligations: a quick z3 attempt in a process pool, then a portfolio (z3 under three seeds, cvc5) for the rest."""
from __future__ import annotations

import multiprocessing as mp
import os
import subprocess
import tempfile
import time

import z3

CVC5 = "/usr/bin/cvc5"


def to_smt2(facts, goal, expect):
    s = z3.Solver()
    for f in facts:
        s.add(f)
    if expect == "sat":
        s.add(goal)
    else:
        s.add(z3.Not(goal))
    return s.to_smt2()


def _run_z3(args):
    text, timeout_ms, seed = args
    t0 = time.time()
    try:
        s = z3.Solver()
        s.set("timeout", timeout_ms)
        if seed:
            s.set("random_seed", seed)
        s.from_string(text)
        r = s.check()
        res = str(r)
        model = ""
        reason = ""
        if r == z3.sat:
            try:
                model = s.model().sexpr()[:4000]
            except Exception:
                model = ""
        elif r == z3.unknown:
            reason = s.reason_unknown()
        return res, time.time() - t0, model, reason
    except Exception as ex:   # parse errors etc. are checker faults, never verdicts
        return "error", time.time() - t0, "", repr(ex)


def run_cvc5(text, timeout_s):
    t0 = time.time()
    with tempfile.NamedTemporaryFile("w", suffix=".smt2", delete=False) as f:
        f.write(text.replace("(check-sat)", "(check-sat)\n"))
        path = f.name
    try:
        p = subprocess.run([CVC5, "--lang=smt2", f"--tlimit={int(timeout_s * 1000)}", path],
                           capture_output=True, text=True, timeout=timeout_s + 5)
        out = p.stdout.strip().splitlines()
        res = out[0] if out else "unknown"
        if res not in ("sat", "unsat", "unknown"):
            res = "unknown"
        return res, time.time() - t0
    except subprocess.TimeoutExpired:
        return "unknown", time.time() - t0
    finally:
        os.unlink(path)


def _run_cvc5(args):
    return run_cvc5(*args)


def _run_cfg_tagged(args):
    k, c = args[0], args[1]
    return k, c, _run_cfg(args[2:])


def _run_cfg(args):
    text, solver, seed, timeout_s = args
    if solver == "cvc5":
        r, t = run_cvc5(text, timeout_s)
        return r, t, "", ""
    return _run_z3((text, int(timeout_s * 1000), seed))


def discharge(obls, facts_of, timeout_s=10, procs=None, use_cvc5=True, seed=0):
    """obls: list of Obl; facts_of(obl) -> list of z3 facts.  Sets obl.result in
    {'proved','refuted','undecided','error'} (+ 'covered' etc. for expect != 'unsat')."""
    # one solver process per core this process may actually run on (a 20 s budget is wall-clock time: more processes than
    # cores would turn machine load into time-outs)
    try:
        avail = len(os.sched_getaffinity(0))
    except (AttributeError, OSError):
        avail = os.cpu_count() or 4
    procs = procs or max(1, min(16, avail))
    jobs = []
    for o in obls:
        goal = o.goal
        if o.expect == "unsat" and z3.is_true(z3.simplify(goal)):
            o.result, o.backend, o.time, o.model, o.reason = "proved", "simplify", 0.0, "", ""
            continue
        o.smt2 = to_smt2(list(facts_of(o)) + list(o.extra), goal, o.expect)
        jobs.append(o)
    if jobs:
        ctx = mp.get_context("fork")
        # stage 1: one quick z3 attempt per obligation (most are decided in milliseconds); vacuity probes (cover /
        # must_fail) get a short budget of their own: only a definite `unsat` matters for them
        quick_s = min(timeout_s, 5)
        with ctx.Pool(min(procs, len(jobs))) as pool:
            res = pool.map(_run_z3, [(o.smt2, int((quick_s if o.expect == "unsat" else min(timeout_s, 3)) * 1000), seed)
                                     for o in jobs], chunksize=1)
        for o, (r, t, model, reason) in zip(jobs, res):
            o.raw, o.time, o.model, o.reason, o.backend = r, t, model, reason, "z3"
        # stage 2: portfolio for what is still open - z3 under three seeds and cvc5 run side by side with the full
        # budget; quantifier instantiation is sensitive to the solver's random choices and to the order of the facts, so
        # one configuration being slow says little about the others.  Any definite answer decides (a `sat` and an
        # `unsat` for the same query would be a solver bug and is reported as an error, never as a verdict)
        unk = [o for o in jobs if o.raw == "unknown" and o.expect == "unsat"]
        if unk:
            # cvc5 first (it decides most of what z3 leaves open within seconds), the second look by z3's first seed last
            cfgs = ([("cvc5", 0)] if use_cvc5 and os.path.exists(CVC5) else []) + [("z3", 7), ("z3", 13), ("z3", seed)]
            # configurations of one obligation are spread out (all first configurations first), results are taken as they
            # arrive, and the pool is shut down as soon as every open obligation has a definite answer: the losers of a
            # race do not hold the run up until their time-out
            tasks = [(k, c) for c in cfgs for k in range(len(unk))]
            outs = []
            pool = ctx.Pool(min(procs, len(tasks)))
            try:
                decided = set()
                for k, c, out in pool.imap_unordered(_run_cfg_tagged, [(k, c, unk[k].smt2, c[0], c[1], timeout_s)
                                                                       for k, c in tasks], chunksize=1):
                    outs.append(((k, c), out))
                    if out[0] in ("sat", "unsat"):
                        decided.add(k)
                        if len(decided) == len(unk):
                            break
            finally:
                pool.terminate()
                pool.join()
            for (k, c), (r, t, model, reason) in outs:
                o = unk[k]
                if r in ("sat", "unsat"):
                    if o.raw in ("sat", "unsat") and o.raw != r:
                        o.raw, o.reason = "error", f"solvers disagree: {o.backend} says {o.raw}, {c[0]} says {r}"
                    elif o.raw == "unknown":
                        o.raw, o.model, o.reason, o.time = r, model, reason, t      # time of the deciding configuration
                        o.backend = c[0] if c[0] == "cvc5" or c[1] == seed else f"z3(seed {c[1]})"
        for o in jobs:
            if o.raw == "error":
                o.result = "error"
            elif o.expect == "unsat":
                o.result = {"unsat": "proved", "sat": "refuted", "unknown": "undecided"}[o.raw]
            elif o.expect == "sat":     # cover: hypotheses must be satisfiable; unsat = vacuous
                o.result = {"unsat": "vacuous", "sat": "covered", "unknown": "cover-unknown"}[o.raw]
            else:                       # must_fail probe: a deliberately false assertion must not be provable
                o.result = {"unsat": "probe-proved", "sat": "probe-ok", "unknown": "probe-ok"}[o.raw]
    return obls
