"""Per-property driver: generate VCs from /repo's current source, discharge, search/replay
counterexamples, run bounded stand-ins, write evidence.  Exit codes: 0 held / 1 violation /
2 undecided / 3 checker fault (DESIGN.md 2.8)."""
from __future__ import annotations

import argparse
import fnmatch
import hashlib
import json
import os
import random
import sys
import time
import traceback

import numpy as np

ROOT = os.path.dirname(os.path.dirname(os.path.abspath(__file__)))
sys.path.insert(0, ROOT)
OUT = os.environ.get("VERIF_OUT", ROOT)     # where evidence/ and replays/ go (self-tests redirect it)
if os.environ.get("VERIF_REPO"):            # self-tests: check a scratch copy of the repository instead of /repo
    sys.path.insert(0, os.environ["VERIF_REPO"])

from pyvc import conc, smt, spec as S, symexec  # noqa: E402


class Plan:
    def __init__(self, pid, level, functions=(), lemmas=(), bounded=(), explanation="", trusted=(), assumptions=(),
                 extra=(), consts=None, alternatives=()):
        self.pid, self.level = pid, level
        # pairs (group A, group B) of contract names: two independent arguments for the same clause.  The clause holds if
        # every obligation of ONE group is discharged; the failures of the other group are then "not needed" (a redundant
        # safeguard was removed, the property still holds).  If both groups have failures, all of them are reported.
        self.alternatives = [(list(a), list(b)) for a, b in alternatives]
        self.consts = consts
        self.functions = list(functions)
        self.lemmas = list(lemmas)
        self.bounded = list(bounded)       # callables (tier, seed) -> dict
        self.extra = list(extra)           # callables (tier, seed) -> list of Obl-like results (custom provers)
        self.explanation = explanation
        self.trusted = list(trusted)
        self.assumptions = list(assumptions)


def jsonable(v):
    if isinstance(v, np.ndarray):
        return {"__ndarray__": v.tolist(), "dtype": str(v.dtype)}
    if isinstance(v, (np.integer,)):
        return int(v)
    if isinstance(v, (np.floating,)):
        return float(v)
    if isinstance(v, (np.bool_,)):
        return bool(v)
    if isinstance(v, dict):
        return {k: jsonable(x) for k, x in v.items()}
    if isinstance(v, (list, tuple)):
        return [jsonable(x) for x in v]
    return v


def unjson(v):
    if isinstance(v, dict) and "__ndarray__" in v:
        return np.array(v["__ndarray__"], dtype=np.dtype(v["dtype"]))
    if isinstance(v, dict):
        return {k: unjson(x) for k, x in v.items()}
    return v


def load_known():
    p = os.path.join(ROOT, "known_findings.json")
    if not os.path.exists(p):
        return {"findings": [], "fixed": []}
    with open(p) as f:
        return json.load(f)


def match_known(pid, name, known):
    for k in known.get("findings", []):
        if k["property"] == pid and fnmatch.fnmatch(name, k["obligation"]):
            return k
    return None


def copy_inputs(inp):
    return {k: (v.copy() if isinstance(v, np.ndarray) else v) for k, v in inp.items()}


def concrete_search(qn, c: S.Contract, pid, rng, budget, want=None, collect_paths=None):
    """Run the real function's AST under its contract on generated inputs.
    -> (n_runs, first violation or None, inputs of it)."""
    if c.gen is None:
        return 0, None, None, 0
    n = 0
    mism = 0
    t_end = time.time() + budget["seconds"]
    while n < budget["runs"] and time.time() < t_end:
        try:
            inp = c.gen(rng)
        except Exception as ex:
            # several generators drive the *real* code (e.g. decode a prefix) to build states: if that code raises
            # (NUMBA_BOUNDSCHECK=1 turns an out-of-range access into IndexError) this is a finding, not a checker fault
            v = conc.Violation("real-raises", "while-generating-inputs", repr(ex) + " | " + traceback.format_exc(limit=2)[-300:])
            v.fn, v.props = qn, None
            return n, v, {}, mism
        if inp is None:
            continue
        n += 1
        saved = copy_inputs(inp)
        it = conc.Interp(collect=False, check_inv=False)
        it._view_wr = {}
        try:
            res = it.run(qn, inp, c)
        except conc.Violation as v:
            if v.kind == "pre":
                continue
            props = getattr(v, "props", None)
            return n, v, saved, mism
        except conc.Unsupported as u:
            return n, None, None, mism
        except Exception as ex:     # noqa: BLE001
            # the interpreter met something in the (changed) function it was not built for: no verdict from concrete runs
            print(f"note: concrete interpretation of {qn} gave up: {type(ex).__name__}: {ex}")
            return n, None, None, mism
        # cross-check against the real (compiled) function: same result, same arrays
        if c.call is not None:
            real_in = copy_inputs(saved)
            try:
                rres = c.call(real_in)
            except Exception as ex:
                v = conc.Violation("real-raises", "call", repr(ex))
                v.fn, v.props = qn, None
                return n, v, saved, mism
            same = (rres == res) or (rres is None)
            for k, a in inp.items():
                if isinstance(a, np.ndarray) and k in c.modifies and k in c.params and not np.array_equal(a, real_in[k]):
                    same = False
            if not same:
                mism += 1
                v = conc.Violation("engine-mismatch", "interp-vs-real", f"interp {res} real {rres}")
                v.fn, v.props = qn, None
                return n, v, saved, mism
    # witness coverage: a few more executions with every assumed loop invariant evaluated concretely at every loop head
    # (an invariant that fails on a real execution would make the proofs that assume it worthless)
    for _ in range(12):
        if time.time() > t_end + 10:
            break
        try:
            inp = c.gen(rng)
        except Exception:
            break
        if inp is None:
            continue
        saved = copy_inputs(inp)
        it = conc.Interp(collect=False, check_inv=True)
        it._view_wr = {}
        try:
            it.run(qn, inp, c)
            n += 1
        except conc.Violation as v:
            if v.kind == "pre":
                continue
            return n, v, saved, mism
        except conc.Unsupported:
            break
    return n, None, None, mism


def _child(h, tier, seed, conn):
    try:
        conn.send(("ok", h(tier, seed)))
    except BaseException as ex:
        # an exception that escaped from the repository's code (the harness calls it with inputs the unchanged tree
        # handles; every harness passes on the unchanged tree) is the real code refusing or failing on a valid input:
        # reported as a violation of the clause "... returns ...", with the traceback.  An exception raised by harness
        # code itself stays a checker fault.
        repo_root = os.path.realpath(os.environ.get("VERIF_REPO", "/repo")) + os.sep
        frames = traceback.extract_tb(ex.__traceback__)
        files = [os.path.realpath(f.filename) for f in frames]
        through_repo = any(f.startswith(repo_root) for f in files)
        last_own = max((i for i, f in enumerate(files) if f.startswith(ROOT + os.sep)), default=-1)
        last_repo = max((i for i, f in enumerate(files) if f.startswith(repo_root)), default=-1)
        if through_repo and last_repo > last_own and not isinstance(ex, (KeyboardInterrupt, SystemExit, MemoryError)):
            where = frames[last_repo]
            name = getattr(h, "__module__", "").rpartition(".")[2]
            conn.send(("ok", {"name": name, "evaluations": 0, "distinct_nontrivial": 0, "samples": [],
                              "rule": "the harness did not finish: the real code raised", "exhaustive": False,
                              "violations": [("real-code-raises", {"where": f"{where.filename}:{where.lineno} in {where.name}"},
                                              traceback.format_exc(limit=12))]}))
        else:
            conn.send(("err", traceback.format_exc(limit=8)))
    conn.close()


def run_isolated(harnesses, tier, seed, faults, timeout=3000):
    """Every bounded harness runs the *real* (compiled) code; it gets its own process so that a crash of
    that code (memory corruption after an out-of-range access) is reported instead of killing the checker."""
    import multiprocessing as mp
    ctx = mp.get_context("fork")
    procs = []
    for h in harnesses:
        a, b = ctx.Pipe(duplex=False)
        p = ctx.Process(target=_child, args=(h, tier, seed, b))
        p.start()
        b.close()
        procs.append((h, p, a))
    out = []
    for h, p, a in procs:
        name = getattr(h, "__module__", "") + "." + getattr(h, "__name__", str(h))
        msg = None
        try:
            if a.poll(timeout):
                msg = a.recv()
        except (EOFError, OSError):
            msg = None
        p.join(5)
        if p.is_alive():
            p.kill()
        if msg is None:
            rc = p.exitcode
            if rc is not None and rc < 0:
                out.append({"name": name, "evaluations": 0, "distinct_nontrivial": 0, "rule": "", "samples": [],
                            "violations": [("crash", None, f"the real code crashed the harness process with signal {-rc} "
                                            "(memory corruption by an unchecked array access?)")]})
            else:
                faults.append(f"bounded harness {name}: no result (exit {rc})")
        elif msg[0] == "err":
            faults.append(f"bounded harness {name}: {msg[1]}")
        else:
            out.append(msg[1])
    return out


def sha(s):
    return hashlib.sha256(s.encode()).hexdigest()[:16]


def run_property(plan: Plan, tier: str, seed: int, contracts_mod_names, replay=None):
    t0 = time.time()
    pid = plan.pid
    known = load_known()
    rng = random.Random(seed)
    timeout = 20 if tier == "quick" else 60     # per solver call; an unknown is retried by cvc5 and under two more seeds
    out_lines = []
    engines = {}
    all_obls = []
    undecided_fns = []
    faults = []
    fn_info = []
    for qn in plan.functions:
        c = S.CONTRACTS.get(qn)
        if c is None:
            faults.append(f"no contract for {qn}")
            continue
        try:
            eng = symexec.Engine(qn, c)
            obls = eng.run()
        except (symexec.OutOfSubset, symexec.ContractError, KeyError) as ex:
            undecided_fns.append((qn, f"{type(ex).__name__}: {ex}"))
            continue
        except Exception:
            faults.append(f"{qn}: {traceback.format_exc(limit=3)}")
            continue
        engines[qn] = eng
        for o in obls:
            o.eng = eng
        all_obls.extend(obls)
        kinds = {}
        for o in obls:
            kinds[o.kind] = kinds.get(o.kind, 0) + 1
        fi = {"function": qn, "sha256": eng.fs.sha256, "obligations": len(obls), "by_kind": kinds}
        if getattr(eng.fs, "renamed_locals", None):
            # same AST up to the names of locals as the recorded one: the names were mapped back (contracts/_shapes.json)
            fi["renamed_locals_mapped_back"] = [f"{a} -> {b}" for a, b in eng.fs.renamed_locals]
            print(f"note: {qn}: locals renamed in the source ({', '.join(fi['renamed_locals_mapped_back'])}); "
                  f"the function is otherwise identical to the recorded one, names mapped back")
        if getattr(eng.fs, "restructured", False):
            fi["statement_structure_changed"] = True
        fn_info.append(fi)
    if plan.lemmas:
        try:
            leng, lobls = symexec.prove_lemmas(plan.lemmas, pid, plan.consts)
            all_obls.extend(lobls)
            fn_info.append({"function": "lemmas: " + ", ".join(plan.lemmas), "obligations": len(lobls)})
        except Exception:
            faults.append(f"lemmas: {traceback.format_exc(limit=4)}")
    # custom provers (lemmas, polynomial normal forms, ...) return Obl-like objects already decided
    extra_results = []
    for ex in plan.extra:
        try:
            extra_results.extend(ex(tier, seed))
        except Exception:
            faults.append(f"extra prover {getattr(ex, '__name__', ex)}: {traceback.format_exc(limit=4)}")
    by_fn = {}
    for r in extra_results:
        if pid in r.props:
            by_fn.setdefault(r.fn, {}).setdefault(r.kind, 0)
            by_fn[r.fn][r.kind] += 1
    for f_, kinds_ in sorted(by_fn.items()):
        fn_info.append({"function": f_, "obligations": sum(kinds_.values()), "by_kind": kinds_, "prover": "floatsym"})
    t_s = time.time()
    # only the obligations that carry this property (plus vacuity probes) are posed; the others belong to the checks of
    # the properties they are tagged with
    todo = [o for o in all_obls if pid in o.props or o.kind in ("cover", "must_fail")]
    skipped = [o for o in all_obls if o not in todo]
    for o in skipped:
        o.result, o.backend, o.time, o.model, o.reason = "not-posed", "-", 0.0, "", ""
    smt.discharge(todo, lambda o: o.eng.facts[:o.nfacts], timeout_s=timeout, seed=seed if tier == "thorough" else 0)
    solver_wall = time.time() - t_s
    for grp_a, grp_b in plan.alternatives:
        def _bad(grp):
            return [o for o in todo if o.fn in grp and o.kind not in ("cover", "must_fail") and o.result in ("refuted", "undecided")]
        def _all_there(grp):
            return all(q in engines for q in grp)
        for good, other in ((grp_a, grp_b), (grp_b, grp_a)):
            if _all_there(good) and not _bad(good) and _bad(other):
                for o in _bad(other):
                    print(f"note: {o.name} does not hold, but is not needed: the clause is carried by {', '.join(good)} alone")
                    o.result, o.reason = "not-needed", f"alternative argument {good} discharged"
                break
    everything = all_obls + extra_results
    mine = [o for o in everything if pid in o.props or o.kind in ("cover", "must_fail")]
    proved = [o for o in mine if o.result == "proved"]
    # Contracts attach to statements by position (if#k, loop ordinals, "after <statement> #k").  If the statement skeleton
    # of a function differs from the recorded one (contracts/_shapes.json), those positions cannot be trusted: a solver
    # refutation without a replayed input is then "undecided" (exit 2), never a violation - whether the change is a
    # harmless restructuring or a defect is left to the bounded stand-ins and to the clauses evaluated on real runs.
    restructured = {qn for qn, eng in engines.items() if getattr(eng.fs, "restructured", False)}
    for qn, _why in undecided_fns:
        try:
            from pyvc import extract as _ex
            if _ex.get_function(qn.partition("#")[0]).restructured:
                restructured.add(qn)
        except Exception:       # noqa: BLE001
            pass
    for o in mine:
        if o.result == "refuted" and o.fn in restructured and not getattr(o, "witness", None):
            o.result = "undecided"
            o.reason = ("statement structure of the function changed; the contract attaches by position - not trusted. "
                        + (o.reason or ""))
    for qn in sorted(restructured):
        print(f"note: {qn}: the statement structure differs from the one the contract was written against; solver "
              f"refutations for it are reported as undecided")
    refuted = [o for o in mine if o.result == "refuted"]
    undec = [o for o in mine if o.result == "undecided"]
    errors = [o for o in everything if o.result == "error"]
    vacuous = [o for o in everything if o.result == "vacuous"]
    for o in list(vacuous):
        if o.fn in restructured:
            # an unreachable return path / probe in a restructured function (e.g. an added guard that the pre-condition
            # excludes): nothing is proved from it, but it is no fault of the checker either
            vacuous.remove(o)
            o.result, o.reason = "undecided", "unreachable under the contract's pre-condition after the function was restructured"
            print(f"note: {o.name}: unreachable under the pre-condition (the function was restructured)")
    # must_fail probes: per function and clause, at least one return path must leave it unproved
    probes = {}
    for o in everything:
        if o.kind == "must_fail":
            key = (o.fn, o.label.split(":", 1)[1])
            probes[key] = probes.get(key, False) or (o.result == "probe-ok")
    shaky = {o.fn for o in everything if o.result in ("refuted", "undecided")}
    dead_probes = [k for k, ok in probes.items() if not ok and k[0] not in shaky]
    if dead_probes:
        # a probe that is proved means the facts of that function are inconsistent.  Facts include the obligations
        # tagged with *other* properties (assumed here, checked by their own property's command): pose them now; if
        # one of them fails, the inconsistency is explained by it (that other check reports it) and is no checker fault
        again = [o for o in skipped if o.fn in {k[0] for k in dead_probes}]
        smt.discharge(again, lambda o: o.eng.facts[:o.nfacts], timeout_s=timeout, seed=0)
        shaky |= {o.fn for o in again if o.result in ("refuted", "undecided")}
        for o in again:
            if o.result in ("refuted", "undecided"):
                print(f"note: {o.name} (tagged {','.join(sorted(o.props))}) does not hold; what this run derives from it "
                      f"in {o.fn} is void - the check of that property reports it")
        dead_probes = [k for k in dead_probes if k[0] not in shaky]
    others_bad = [o for o in everything if o not in mine and o.result in ("refuted", "undecided")]

    violations = []     # (obligation name, replay path or None, detail)
    known_hits = []
    replay_dir = os.path.join(OUT, "replays", pid)
    # --- counterexample search for every refuted/undecided obligation, and a sample cross-check for every function
    bad_by_fn = {}
    for o in refuted + undec:
        bad_by_fn.setdefault(o.fn, []).append(o)
    conc_runs = 0
    conc_samples = []
    for qn in plan.functions:
        c = S.CONTRACTS.get(qn)
        if c is None or c.gen is None:
            continue
        has_bad = qn in bad_by_fn
        budget = {"runs": (4000 if has_bad else 60) * (5 if tier == "thorough" else 1),
                  "seconds": (60 if has_bad else 8) * (4 if tier == "thorough" else 1)}
        n, v, inp, mism = concrete_search(qn, c, pid, random.Random(rng.random()), budget)
        conc_runs += n
        if v is not None and qn in restructured and v.kind in ("assert", "branch-iff", "inv-init", "inv-pres", "iter", "exit",
                                                               "variant", "init", "frame"):
            out_lines.append(f"note: {v.fn}/{v.kind}/{v.label} fails on a concrete run, but the function was restructured "
                             f"and this clause attaches by position: not reported")
            v = None
        if v is not None:
            name = f"{v.fn}/{v.kind}/{v.label}"
            vprops = getattr(v, "props", None)
            # attribute to this property only if the failing clause is tagged with it (or untagged = structural)
            attributed = vprops is None or pid in vprops or v.kind in ("engine-mismatch",)
            if v.kind == "engine-mismatch":
                faults.append(f"{name}: {v.detail} on {jsonable(inp)}")
                continue
            if v.kind in ("bounds",):
                attributed = pid in set(c.bounds_props.split())
            elif vprops is None:
                # structural kinds (range/i64/init/nowrap/div0/...) -> arith/props tags of the contract
                tags = set((c.arith_props if v.kind in ("range", "i64", "div0") else c.props).split())
                attributed = pid in tags
            if attributed:
                violations.append((name, inp, v.detail, None))
            else:
                out_lines.append(f"note: {name} fails concretely but is not tagged {pid}")
    # --- obligations refuted by the solver with no concrete input found
    conc_names = {x[0] for x in violations}
    # A refuted obligation (the solver returned a counter-model) that passed on the unchanged tree is reported even if no
    # failing input was found; for loop invariants the report says so: the counter-model is a loop-head state that need not be
    # reachable, i.e. the change made the invariant non-inductive.  (Timeouts / unknowns stay undecided, exit 2.)
    soft = ("inv-init", "inv-pres", "variant")
    for o in refuted:
        if getattr(o, "witness", None):
            # the prover produced a concrete input and evaluated the real function on it
            violations.append((o.name, o.witness, (o.reason or "") + " | witness replayed on the real function: "
                               + json.dumps(jsonable(o.witness))[:600], None))
        elif not any(o.fn == n.split("/")[0] for n in conc_names):
            note = "solver: sat (counter-model of the verification condition)\n"
            if o.kind in soft:
                note = ("solver: sat - the loop invariant / variant is no longer established or preserved by the changed code "
                        "(the counter-model is a loop-head state, not necessarily reachable)\n")
            violations.append((o.name, None, note + (o.model or "") + (o.reason or ""), "no-failing-input-found"))
    # --- bounded stand-ins
    bounded_reports = []
    # a harness that does not answer within the allowance (the real code hangs) yields "no result": a checker fault for
    # that harness, never a verdict about the property
    for rep in run_isolated(plan.bounded, tier, seed, faults, timeout=1200 if tier == "quick" else 6 * 3600):
        bounded_reports.append(rep)
        for (label, inp, detail) in rep.get("violations", []):
            violations.append((f"bounded:{rep['name']}/{label}", inp, detail, None))
    # --- known findings
    final_viol = []
    for (name, inp, detail, suffix) in violations:
        k = match_known(pid, name, known)
        if k is not None:
            known_hits.append((k, name))
        else:
            final_viol.append((name, inp, detail, suffix))
    printed = set()
    for k, name in known_hits:
        key = k["obligation"]
        if key not in printed:
            printed.add(key)
            print(f"KNOWN-FINDING: property={pid} {k['what']} [{name}]")
    os.makedirs(os.path.join(OUT, "evidence"), exist_ok=True)
    for (name, inp, detail, suffix) in final_viol:
        os.makedirs(replay_dir, exist_ok=True)
        path = os.path.join(replay_dir, sha(name) + ".json")
        with open(path, "w") as f:
            json.dump({"property": pid, "obligation": name, "function": name.split("/")[0],
                       "inputs": jsonable(inp) if inp is not None else None, "detail": detail,
                       "note": suffix or "input replays on the real function source under the run-time contract"},
                      f, indent=1)
        print(f"VIOLATION property={pid} replay={path}" + (f" {suffix}" if suffix else ""))
        print(f"  obligation: {name}\n  detail: {detail[:300]}")
    for (qn, why) in undecided_fns:
        print(f"UNDECIDED function {qn}: {why}")
    for o in undec:
        k = match_known(pid, o.name, known)
        if k is None and not any(o.fn == n.split('/')[0] for n, *_ in final_viol):
            print(f"UNDECIDED obligation {o.name} ({o.backend}: {o.reason})")
    for f_ in faults:
        print(f"CHECKER-FAULT {f_}")
    for o in errors:
        print(f"CHECKER-FAULT solver error on {o.name}: {o.reason}")
    for o in vacuous:
        print(f"CHECKER-FAULT vacuous hypotheses at {o.name}")
    for k in dead_probes:
        print(f"CHECKER-FAULT must_fail probe proved on every path: {k}")
    for ln in out_lines:
        print(ln)
    # --- evidence
    n_obl = len([o for o in mine if o.expect == "unsat" and o.result != "not-needed"])
    n_dis = len([o for o in mine if o.expect == "unsat" and o.result == "proved"])
    backends = {}
    for o in mine:
        backends[o.backend] = backends.get(o.backend, 0) + 1
    samples = [{"obligation": o.name, "result": o.result, "backend": o.backend, "time_s": round(o.time, 3)}
               for o in (mine[:3] + mine[-3:])]
    for o in mine:
        if o.kind in ("post", "inv-pres") and getattr(o, "smt2", ""):
            samples.append({"obligation": o.name, "smt2_head": o.smt2[:600]})
            break
    assumptions = list(plan.assumptions)
    for qn in plan.functions:
        c = S.CONTRACTS.get(qn)
        if c is not None:
            short = qn.split(":", 1)[1]
            assumptions.extend(f"{qn}: {a}" for a in c.assumptions)
            # every summary (assumed effect of a statement that is not executed symbolically) and every assumed contract of
            # an external callable is an unchecked assumption of this proof
            for key, sm in c.summaries.items():
                eff = "; ".join(sm.assume) if sm.assume else "no effect on the modelled state"
                assumptions.append(f"summary in {short}, statement `{key}`: {sm.note or 'unmodelled statement'} [assumed: {eff}]")
            for name, oc in c.opaque.items():
                post = "; ".join(cl.expr for cl in oc.ensures) or "no post-condition"
                for a in (oc.assumptions or ["assumed contract of an external callable"]):
                    assumptions.append(f"external `{name}` as used by {short}: {a} [assumed: {post}]")
            if not c.i64 and c.block is None and not c.fields and not c.attrs:
                pass
    for ln in plan.lemmas:
        lm = S.LEMMAS.get(ln)
        if lm is not None and lm.assumed:
            assumptions.append(f"axiom {ln}: {lm.concl} [{lm.note}]")
    seen_a = set()
    assumptions = [a for a in assumptions if not (a in seen_a or seen_a.add(a))]
    coverage = {
        "obligations": n_obl, "discharged": n_dis,
        "checker_cmd": f"./check {pid} --tier {tier}  (pyvc: AST of /repo functions -> VCs -> z3 {smt.z3.get_version_string()}"
                       f" / cvc5 for z3-unknowns; timeout {timeout}s per obligation)",
        "trusted_base": ["pyvc VC generator (cross-checked against CPython/numba on every run, see cross_check_runs)",
                         "z3 / cvc5"] + plan.trusted,
        "functions": fn_info,
        "backends": backends,
        "solver_time_s": round(sum(o.time for o in everything), 2),
        "solver_wall_s": round(solver_wall, 2),
        "slowest_obligations": [{"obligation": o.name, "seconds": round(o.time, 2), "backend": o.backend}
                                for o in sorted([x for x in mine if getattr(x, "time", 0)], key=lambda x: -x.time)[:3]],
        "refuted": [o.name for o in refuted], "undecided": [o.name for o in undec],
        "not_needed": [f"{o.name}: {o.reason}" for o in everything if o.result == "not-needed"],
        "other_property_obligations_failing": [o.name for o in others_bad],
        "cover_checks": {o.name: o.result for o in everything if o.kind == "cover"},
        "must_fail_probes": {f"{k[0]}:{k[1]}": ("ok" if ok else "DEAD") for k, ok in probes.items()},
        "cross_check_runs": conc_runs,
        "bounded": [{k: v for k, v in r.items() if k != "violations"} for r in bounded_reports],
        "known_findings_hit": [k["obligation"] for k, _ in known_hits],
        "samples": samples,
        "explanation": plan.explanation,
    }
    ev_total = conc_runs + sum(r.get("evaluations", 0) for r in bounded_reports)
    dn_total = sum(r.get("distinct_nontrivial", 0) for r in bounded_reports)
    if plan.level != "proof" or n_obl == 0:
        coverage["evaluations"] = max(ev_total, 1)
        coverage["distinct_nontrivial"] = dn_total
        coverage["rule"] = "; ".join(r.get("rule", "") for r in bounded_reports)
        coverage["exhaustive"] = all(r.get("exhaustive", False) for r in bounded_reports) if bounded_reports else False
        for r in bounded_reports:
            coverage["samples"].extend(r.get("samples", [])[:3])
    evidence = {"property_id": pid, "tier": tier, "seed": seed, "level": plan.level, "coverage": coverage,
                "assumptions": assumptions, "wall_s": round(time.time() - t0, 2), "violations": len(final_viol)}
    with open(os.path.join(OUT, "evidence", f"{pid}.json"), "w") as f:
        json.dump(evidence, f, indent=1, default=str)
    if final_viol:
        return 1
    if faults or errors or vacuous or dead_probes:
        return 3
    if undecided_fns or [o for o in undec if match_known(pid, o.name, known) is None]:
        return 2
    print(f"OK property={pid} tier={tier}: {n_dis}/{n_obl} obligations discharged over {len(fn_info)} functions, "
          f"{conc_runs} concrete cross-check runs, {len(bounded_reports)} bounded harnesses, "
          f"{len(known_hits)} known findings, {time.time() - t0:.1f}s")
    return 0


def do_replay(path, plans_mod=None):
    """Re-run a recorded violation on the current tree: exit 1 if it still occurs, 0 if not."""
    with open(path) as f:
        rep = json.load(f)
    name = rep["obligation"]
    pid = rep.get("property")
    qn = rep["function"]
    c = S.CONTRACTS.get(qn)
    plan = plans_mod.PLANS.get(pid) if plans_mod is not None else None
    if name.startswith("bounded:") and plan is not None:
        # violation found by a bounded stand-in: run that harness again and look for the same label
        hname, _, label = name[len("bounded:"):].partition("/")
        seed = int(os.environ.get("VERIF_SEED", "0") or 0)
        for rep2 in run_isolated(plan.bounded, "quick", seed, []):
            if rep2.get("name") == hname:
                for (lab, inp, detail) in rep2.get("violations", []):
                    if lab == label:
                        print(f"REPLAYED violation {name}: {detail[:300]}")
                        print(json.dumps(jsonable(inp))[:1500])
                        return 1
        print(f"replay: {name} does not occur on the current tree")
        return 0
    if rep.get("inputs") is not None and c is not None and c.gen is not None:
        inp = unjson(rep["inputs"])
        it = conc.Interp(check_inv=False)
        it._view_wr = {}
        try:
            res = it.run(qn, inp, c)
        except conc.Violation as v:
            print(f"REPLAYED violation {v.fn}/{v.kind}/{v.label}: {v.detail}")
            return 1
        print(f"replay: no violation on the current tree (result {res})")
        return 0
    if plan is not None:
        # solver / symbolic-prover finding: decide the obligation again on the current tree
        for ex in plan.extra:
            for r in ex("quick", 0):
                if r.name == name:
                    print(f"obligation {name}: {r.result} {('| ' + json.dumps(jsonable(r.witness))[:800]) if r.witness else ''}")
                    return 1 if r.result == "refuted" else 0
        if c is not None:
            eng = symexec.Engine(qn, c)
            obls = [o for o in eng.run() if o.name == name]
            smt.discharge(obls, lambda o: eng.facts[:o.nfacts], timeout_s=30)
            for o in obls:
                print(f"obligation {name}: {o.result} ({o.backend})")
                return 1 if o.result == "refuted" else 0
    print(f"replay file names obligation {name}; no concrete input is recorded ({rep.get('note')})")
    print(rep.get("detail", "")[:2000])
    return 1


def main(argv=None):
    ap = argparse.ArgumentParser()
    ap.add_argument("pid")
    ap.add_argument("--tier", default=os.environ.get("VERIF_TIER", "quick"))
    ap.add_argument("--replay")
    a = ap.parse_args(argv)
    seed = int(os.environ.get("VERIF_SEED", "0") or 0)
    import plans
    if a.replay:
        return do_replay(a.replay, plans)
    plan = plans.PLANS.get(a.pid)
    if plan is None:
        print(f"no check for {a.pid}")
        return 3
    try:
        return run_property(plan, a.tier, seed, None)
    except Exception:
        traceback.print_exc()
        return 3


if __name__ == "__main__":
    sys.exit(main())
