"""Symbolic executor: real function AST + sidecar contract -> proof obligations (z3 terms).

Forward symbolic execution with invariant cuts, state merging at joins,
modular calls (callee contract, never its body).  See DESIGN.md 2.2-2.6, 2.11.
"""
from __future__ import annotations

import ast
import itertools
from dataclasses import dataclass, field
from typing import Optional

import z3

from . import spec as S
from .extract import FnSource, get_function, strip_doc, unparse, stmt_pattern

I, R, B = z3.IntSort(), z3.RealSort(), z3.BoolSort()
I64_MIN, I64_MAX = -2 ** 63, 2 ** 63 - 1


class OutOfSubset(Exception):
    """The function uses something the engine does not model."""


class ContractError(Exception):
    """The contract refers to something that does not exist (proof maintenance problem)."""


def esort(elem):
    return {"int": I, "real": R, "bool": B}[elem]


def asort(ndim, elem="int"):
    s = esort(elem)
    for _ in range(ndim):
        s = z3.ArraySort(I, s)
    return s


_fresh = itertools.count()


def fresh(name, sort=I):
    return z3.Const(f"{name}!{next(_fresh)}", sort)


_SAME = object()
_REAL_UF = ("arctan", "tanh", "sin", "cos", "exp", "log1p", "expm1", "sinh", "cosh", "arcsinh")


@dataclass
class SArr:
    term: z3.ExprRef
    shape: tuple
    dt: Optional[tuple]      # (lo, hi) z3 ints, or None
    elem: str = "int"
    wr: Optional[z3.ExprRef] = None    # ghost written-set (array of Bool, same dims) or None
    dtname: Optional[str] = None

    @property
    def ndim(self):
        return len(self.shape)

    def with_term(self, term, wr=_SAME):
        return SArr(term, self.shape, self.dt, self.elem, self.wr if wr is _SAME else wr, self.dtname)


@dataclass
class SView:
    """A row/column view of a 2-D array variable: reads go to the *current* base."""
    base: str
    axis: int           # axis that is fixed (0: row view y[r] / y[r,:]; 1: column view y[:,c])
    idx: z3.ExprRef


@dataclass
class SOpt:
    """An optional object (None or something): `x is None` <=> not present."""
    present: z3.BoolRef


@dataclass
class SVec:
    """result of element-wise arithmetic on whole arrays: contents unknown (only reductions of it are used)"""


@dataclass
class SSlice:
    """a[lo:hi] of a 1-D array variable (read-only use: .min()/.max()/.sum())."""
    base: str
    lo: z3.ExprRef
    hi: z3.ExprRef


@dataclass
class State:
    vars: dict
    guard: z3.BoolRef

    def copy(self, guard=None):
        return State(dict(self.vars), self.guard if guard is None else guard)


@dataclass
class Obl:
    fn: str
    kind: str
    label: str
    props: frozenset
    nfacts: int
    goal: z3.BoolRef
    expect: str = "unsat"      # "unsat": facts => goal must be valid; "sat": facts ∧ goal must be satisfiable (cover)
    extra: list = field(default_factory=list)  # extra hypotheses (lemma instances) private to this obligation
    smt2: str = ""

    @property
    def name(self):
        return f"{self.fn}/{self.kind}/{self.label}"


def is_bool(v):
    return isinstance(v, z3.BoolRef)


def is_num(v):
    return isinstance(v, z3.ArithRef)


def to_bool(v):
    if is_bool(v):
        return v
    if isinstance(v, bool):
        return z3.BoolVal(v)
    if is_num(v):
        return v != 0
    raise OutOfSubset(f"truth value of {v!r}")


def to_num(v):
    if is_bool(v):
        return z3.If(v, z3.IntVal(1), z3.IntVal(0))
    return v


def zand(*xs):
    xs = [x for x in xs if not z3.is_true(x)]
    if not xs:
        return z3.BoolVal(True)
    return xs[0] if len(xs) == 1 else z3.And(*xs)


def zite(c, a, b):
    if a is b or (isinstance(a, z3.ExprRef) and isinstance(b, z3.ExprRef) and a.eq(b)):
        return a
    if is_bool(a) != is_bool(b):
        a, b = to_num(a), to_num(b)
    if is_num(a) and is_num(b) and a.sort() != b.sort():
        a = z3.ToReal(a) if a.sort() == I else a
        b = z3.ToReal(b) if b.sort() == I else b
    return z3.If(c, a, b)


class Engine:
    """Generates the obligations of one function."""

    def __init__(self, qualname: str, contract: S.Contract, contracts: dict = None, fs: FnSource = None):
        self.field_alias = {}
        self.fs: FnSource = fs if fs is not None else get_function(qualname)
        self.c = contract
        self.contracts = contracts if contracts is not None else S.CONTRACTS
        self.module = qualname.partition("#")[0].partition(":")[0]
        self.facts: list = []
        self.obls: list = []
        self.rec_funcs: dict = {}
        self.bound_depth = 0
        self.unfold_depth = 0
        self.max_unfold = 2
        self.dts: dict = {}
        self.loop_ord: list = []       # stack for loop ordinals
        self.loop_counter = [0]
        self.entry: Optional[dict] = None
        self.loop_entries: list = []
        self.iter_entries: list = []
        self.stmt_counts: dict = {}
        self.if_count = 0
        self.ghost_names: set = set()
        self.used_loops: set = set()
        self.cur_stmt = None
        self.notes: list = []
        self.used_summaries: list = []

    # ------------------------------------------------------------------ utilities
    def fact(self, f, guard=None):
        if guard is not None and not z3.is_true(guard):
            f = z3.Implies(guard, f)
        self.facts.append(f)

    def emit(self, kind, label, goal, guard, props=None, expect="unsat", extra=None):
        if guard is not None and not z3.is_true(guard) and expect == "unsat":
            goal = z3.Implies(guard, goal)
        elif expect == "sat" and guard is not None:
            goal = z3.And(guard, goal)
        if props is None:
            props = frozenset(self.c.props.split())
        elif isinstance(props, str):
            props = frozenset(props.split())
        if expect == "unsat" and z3.is_true(z3.simplify(goal)):
            # trivially valid; still counted (keeps obligation counts stable), no solver call needed
            pass
        self.obls.append(Obl(self.fs.qualname, kind, label, props, len(self.facts), goal, expect, list(extra or [])))

    def stmt_label(self, s=None):
        s = s if s is not None else self.cur_stmt
        return f"s{self.fs.stmt_ord.get(id(s), '?')}"

    def dtype(self, name):
        if name not in self.dts:
            lo, hi = z3.Int(f"{name}_lo"), z3.Int(f"{name}_hi")
            self.dts[name] = (lo, hi)
            fixed = self.c.dtypes.get(name)
            if fixed:
                self.fact(z3.And(lo == fixed[0], hi == fixed[1]))
            else:
                # any of the numpy integer types
                self.fact(z3.And(lo <= 0, hi >= 127, lo >= I64_MIN, hi <= 2 ** 64 - 1,
                                 z3.Or(lo == 0, lo == -hi - 1)))
        return self.dts[name]

    def mk_param(self, name, t: S.T, prefix=""):
        if t.kind in ("int", "pyint"):
            v = z3.Int(prefix + name)
            if t.kind == "int":
                self.fact(z3.And(v >= I64_MIN, v <= I64_MAX))
            return v
        if t.kind == "bool":
            return z3.Bool(prefix + name)
        if t.kind == "real":
            return z3.Real(prefix + name)
        if t.kind == "obj":
            return None
        if t.kind == "const":
            return t.shape[0]
        if t.kind == "dtype":
            lo, hi = z3.Int(prefix + name + "_dlo"), z3.Int(prefix + name + "_dhi")
            self.fact(z3.And(lo <= 0, hi >= 127, lo >= I64_MIN, hi <= 2 ** 64 - 1, z3.Or(lo == 0, lo == -hi - 1)))
            return (lo, hi)
        if t.kind == "arr":
            term = z3.Const(prefix + name, asort(t.ndim, t.elem))
            shape = []
            for d in range(t.ndim):
                if d == 1 and t.cols is not None:
                    shape.append(z3.IntVal(t.cols))
                else:
                    sv = z3.Int(f"{prefix}{name}_n{d}")
                    self.fact(sv >= 0)
                    shape.append(sv)
            dt = self.dtype(t.dtype) if t.dtype else None
            wr = None
            if t.uninit:    # unknown written-set: a cell may be read only if it is provably written
                wr = z3.Const(prefix + name + "_wr", asort(t.ndim, "bool"))
            return SArr(term, tuple(shape), dt, t.elem, wr, t.dtype)
        raise OutOfSubset(t.kind)

    # ------------------------------------------------------------------ array access
    def sel(self, arr: SArr, idx: list):
        t = arr.term
        for k in idx:
            t = z3.Select(t, k)
        return t

    def store(self, arr: SArr, idx: list, val):
        if len(idx) == 1:
            t = z3.Store(arr.term, idx[0], val)
            wr = z3.Store(arr.wr, idx[0], z3.BoolVal(True)) if arr.wr is not None else None
        else:
            t = z3.Store(arr.term, idx[0], z3.Store(z3.Select(arr.term, idx[0]), idx[1], val))
            wr = z3.Store(arr.wr, idx[0], z3.Store(z3.Select(arr.wr, idx[0]), idx[1], z3.BoolVal(True))) \
                if arr.wr is not None else None
        return arr.with_term(t, wr)

    def elem_fact(self, arr: SArr, v):
        """Every element of a typed integer array lies in the dtype range."""
        if arr.dt is not None and self.bound_depth == 0:
            self.fact(z3.And(arr.dt[0] <= v, v <= arr.dt[1]))

    # ------------------------------------------------------------------ expression evaluation
    def ev(self, e: ast.AST, st: State, spec: bool = False, ctx: dict = None):
        """Evaluate expression `e`.  In code mode (`spec=False`) obligations are
        emitted and `st` may be updated (calls with effects).  `ctx` carries
        spec-mode extras: old env, result, bound variables."""
        m = getattr(self, "ev_" + type(e).__name__, None)
        if m is None:
            raise OutOfSubset(f"expression {type(e).__name__}: {ast.unparse(e)}")
        return m(e, st, spec, ctx or {})

    def ev_Constant(self, e, st, spec, ctx):
        v = e.value
        if isinstance(v, bool):
            return z3.BoolVal(v)
        if isinstance(v, int):
            return z3.IntVal(v)
        if isinstance(v, float):
            return z3.RealVal(repr(v))
        if v is None or isinstance(v, str):
            return v
        raise OutOfSubset(f"constant {v!r}")

    def ev_Name(self, e, st, spec, ctx):
        n = e.id
        bv = ctx.get("bound")
        if bv and n in bv:
            return bv[n]
        if spec and n == "return_value" and "result" in ctx:     # the returned value, for functions with a local called `result`
            return ctx["result"]
        if n in st.vars:
            return st.vars[n]
        if not spec and n in self.c.attrs:      # a name the contract defines by a spec expression (block contracts)
            return self.ev(ast.parse(self.c.attrs[n], mode="eval").body, st, True, ctx)
        if spec and n == "result":
            if "result" not in ctx:
                raise ContractError("result used outside ensures")
            return ctx["result"]
        if spec and n.endswith(("_lo", "_hi")) and n[:-3] in self.dts:
            return self.dts[n[:-3]][0 if n.endswith("_lo") else 1]
        if n in self.fs.consts:
            v = self.fs.consts[n]
            if isinstance(v, bool):
                return z3.BoolVal(v)
            if isinstance(v, int):
                return z3.IntVal(v)
            if isinstance(v, float):
                return z3.RealVal(repr(v))
            return v
        if spec and n in SPEC_CONSTS:
            return z3.IntVal(SPEC_CONSTS[n])
        if spec:
            raise ContractError(f"contract names unknown variable {n!r} in {self.fs.qualname}")
        raise OutOfSubset(f"unknown name {n!r}")

    def ev_UnaryOp(self, e, st, spec, ctx):
        v = self.ev(e.operand, st, spec, ctx)
        if isinstance(e.op, ast.USub):
            if z3.is_int_value(v):
                return z3.IntVal(-v.as_long())
            r = -to_num(v)
            self.i64(r, st, spec)
            return r
        if isinstance(e.op, ast.Not):
            return z3.Not(to_bool(v))
        if isinstance(e.op, ast.UAdd):
            return v
        raise OutOfSubset(ast.unparse(e))

    def i64(self, r, st, spec):
        if spec or not self.c.i64 or not is_num(r) or r.sort() != I:
            return
        c = z3.And(r >= I64_MIN, r <= I64_MAX)
        self._pending_i64.append(c if z3.is_true(st.guard) else z3.Implies(st.guard, c))

    def divmod(self, a, b, st, spec):
        """Python floor division/modulo of integers: returns (q, r)."""
        if not spec:
            self.emit("div0", f"{self.stmt_label()}", b != 0, st.guard, self.c.arith_props)
        if z3.is_int_value(b) and b.as_long() > 0:
            return a / b, a % b          # SMT-LIB div/mod coincide with Python's for positive divisors
        # floor division is a function of its operands: the same pair of terms gets the same quotient and remainder
        memo = self.__dict__.setdefault("_divmemo", {})
        key = (a.sexpr(), b.sexpr())
        if key in memo and self.bound_depth == 0:
            q, r = memo[key]
        else:
            q, r = fresh("q"), fresh("r")
            if self.bound_depth == 0:
                memo[key] = (q, r)
        f = z3.And(a == q * b + r, z3.If(b > 0, z3.And(0 <= r, r < b), z3.And(b < r, r <= 0)))
        if self.bound_depth == 0:
            self.fact(z3.Implies(b != 0, f), st.guard)
            # sound helper instances for the non-linear case
            self.fact(z3.Implies(z3.And(0 <= a, a < b), z3.And(q == 0, r == a)), st.guard)
            self.fact(z3.Implies(z3.And(b > 0, a >= 0), z3.And(q >= 0, q <= a)), st.guard)
            self.fact(z3.Implies(z3.And(b > 0, a >= b, a < 2 * b), z3.And(q == 1, r == a - b)), st.guard)
        else:
            raise OutOfSubset("symbolic divisor under a quantifier")
        return q, r

    def np_dtype_of(self, e, st):
        """interpreted code only: the integer dtype an expression carries as a numpy scalar (None: a Python number)"""
        if isinstance(e, ast.Subscript):
            try:
                base = self.ev(e.value, st, True, {})
            except (OutOfSubset, ContractError):
                return None
            if isinstance(base, SArr) and base.dt is not None:
                return base.dt
            if isinstance(base, SView) and isinstance(st.vars.get(base.base), SArr):
                return st.vars[base.base].dt
            return None
        if isinstance(e, ast.Name):
            return self.__dict__.get("_np_vars", {}).get(e.id)
        if isinstance(e, ast.UnaryOp):
            return self.np_dtype_of(e.operand, st)
        if isinstance(e, ast.BinOp) and isinstance(e.op, (ast.Add, ast.Sub, ast.Mult, ast.FloorDiv, ast.Mod)):
            l, r = self.np_dtype_of(e.left, st), self.np_dtype_of(e.right, st)
            small = lambda x: isinstance(x, ast.Constant) and isinstance(x.value, int) and abs(x.value) <= 127   # noqa: E731
            if l is not None and (r is not None or small(e.right)):
                return l
            if r is not None and small(e.left):
                return r
        return None

    def ev_BinOp(self, e, st, spec, ctx):
        a0 = self.ev(e.left, st, spec, ctx)
        b0 = self.ev(e.right, st, spec, ctx)
        if not spec and self.c.npscalars and isinstance(e.op, (ast.Add, ast.Sub, ast.Mult)):
            dt = self.np_dtype_of(e, st)
            if dt is not None and is_num(a0) and is_num(b0):
                r_ = {ast.Add: lambda: a0 + b0, ast.Sub: lambda: a0 - b0, ast.Mult: lambda: a0 * b0}[type(e.op)]()
                # numpy scalar arithmetic keeps the (narrow) dtype of the array and wraps silently
                self.emit("range", f"numpy-scalar:{unparse(e)}@{self.stmt_label()}", z3.And(dt[0] <= r_, r_ <= dt[1]),
                          st.guard, self.c.arith_props)
        if isinstance(a0, (SArr, SSlice, SView, SVec)) or isinstance(b0, (SArr, SSlice, SView, SVec)):
            # element-wise arithmetic on whole arrays / slices (numba checks the shapes): an unknown vector
            return SVec()
        a = to_num(a0)
        b = to_num(b0)
        op = type(e.op)
        isint = a.sort() == I and b.sort() == I
        if op is ast.Add:
            r = a + b
        elif op is ast.Sub:
            r = a - b
        elif op is ast.Mult:
            r = a * b
        elif op is ast.FloorDiv:
            if not isint:
                raise OutOfSubset("float floor division")
            r = self.divmod(a, b, st, spec)[0]
        elif op is ast.Mod:
            if not isint:
                raise OutOfSubset("float modulo")
            r = self.divmod(a, b, st, spec)[1]
        elif op is ast.Div:
            ra = z3.ToReal(a) if a.sort() == I else a
            rb = z3.ToReal(b) if b.sort() == I else b
            if not spec:
                self.emit("div0", f"{self.stmt_label()}", rb != 0, st.guard, self.c.arith_props)
            r = ra / rb
        elif op is ast.Pow:
            if z3.is_int_value(a) and z3.is_int_value(b) and b.as_long() >= 0:
                return z3.IntVal(a.as_long() ** b.as_long())
            if z3.is_int_value(b) and 0 <= b.as_long() <= 4:
                r = z3.IntVal(1) if a.sort() == I else z3.RealVal(1)
                for _ in range(b.as_long()):
                    r = r * a
            elif z3.is_rational_value(b) and b.denominator_as_long() == 1 and 0 <= b.numerator_as_long() <= 4:
                r = z3.RealVal(1)
                for _ in range(b.numerator_as_long()):
                    r = r * (z3.ToReal(a) if a.sort() == I else a)
            else:
                raise OutOfSubset("general power")
        else:
            raise OutOfSubset(ast.unparse(e))
        self.i64(r, st, spec)
        return r

    def ev_Compare(self, e, st, spec, ctx):
        l = self.ev(e.left, st, spec, ctx)
        out = []
        for op, c in zip(e.ops, e.comparators):
            r = self.ev(c, st, spec, ctx)
            if isinstance(l, str) and isinstance(r, str) and isinstance(op, (ast.Eq, ast.NotEq)):
                res = z3.BoolVal((l == r) == isinstance(op, ast.Eq))
            elif isinstance(l, tuple) and isinstance(r, tuple) and isinstance(op, (ast.Eq, ast.NotEq)) \
                    and all(is_num(v) for v in l + r):
                # tuples of numbers (shapes): equal iff same length and equal component-wise
                eq = z3.And(*[a_ == b_ for a_, b_ in zip(l, r)]) if len(l) == len(r) else z3.BoolVal(False)
                res = eq if isinstance(op, ast.Eq) else z3.Not(eq)
            elif isinstance(op, (ast.Is, ast.IsNot)) and (isinstance(l, SOpt) or isinstance(r, SOpt)) and (l is None or r is None):
                o_ = l if isinstance(l, SOpt) else r
                res = z3.Not(o_.present) if isinstance(op, ast.Is) else o_.present
            elif isinstance(op, (ast.Is, ast.IsNot)):
                if r is None or l is None:
                    res = z3.BoolVal((l is None and r is None) == isinstance(op, ast.Is))
                else:
                    raise OutOfSubset("is")
            elif isinstance(op, (ast.In, ast.NotIn)):
                if isinstance(r, tuple) and is_num(l) and all(is_num(v) for v in r):
                    mem = z3.Or(*[to_num(l) == v for v in r]) if r else z3.BoolVal(False)   # membership in a tuple of numbers
                    res = mem if isinstance(op, ast.In) else z3.Not(mem)
                else:
                    raise OutOfSubset("membership test on this value")
            else:
                if is_bool(l) and is_bool(r) and isinstance(op, (ast.Eq, ast.NotEq)):
                    res = (l == r) if isinstance(op, ast.Eq) else (l != r)
                else:
                    a, b = to_num(l), to_num(r)
                    res = {ast.Lt: lambda: a < b, ast.LtE: lambda: a <= b, ast.Gt: lambda: a > b,
                           ast.GtE: lambda: a >= b, ast.Eq: lambda: a == b, ast.NotEq: lambda: a != b}[type(op)]()
            out.append(res)
            l = r
        return zand(*out) if len(out) > 1 else out[0]

    def ev_BoolOp(self, e, st, spec, ctx):
        is_and = isinstance(e.op, ast.And)
        if spec:
            vs = [to_bool(self.ev(v, st, True, ctx)) for v in e.values]
            return z3.And(*vs) if is_and else z3.Or(*vs)
        # code mode: short-circuit; later operands are evaluated under the extended guard,
        # and may have effects (calls) -> fork and merge
        g0 = st.guard
        val = to_bool(self.ev(e.values[0], st, False, ctx))
        for nxt in e.values[1:]:
            cont = val if is_and else z3.Not(val)
            sb = st.copy(zand(g0, cont) if not z3.is_true(g0) else cont)
            # guard for the evaluation of the next operand
            sb.guard = zand(st.guard, cont)
            v2 = to_bool(self.ev(nxt, sb, False, ctx))
            # merge: if `cont` then state sb else state st
            for k in set(sb.vars) | set(st.vars):
                a, b_ = sb.vars.get(k), st.vars.get(k)
                if a is b_:
                    continue
                if a is None or b_ is None:
                    st.vars.pop(k, None)
                    continue
                st.vars[k] = self.merge_val(cont, a, b_)
            val = z3.And(val, v2) if is_and else z3.Or(val, v2)
        return val

    def merge_val(self, c, a, b):
        if isinstance(a, SArr) and isinstance(b, SArr):
            if a.term.eq(b.term) and (a.wr is b.wr or (a.wr is not None and b.wr is not None and a.wr.eq(b.wr))):
                return a
            wr = None
            if a.wr is not None and b.wr is not None:
                wr = zite(c, a.wr, b.wr)
            return SArr(zite(c, a.term, b.term), a.shape, a.dt, a.elem, wr, a.dtname)
        if isinstance(a, tuple) and isinstance(b, tuple) and len(a) == len(b):
            return tuple(self.merge_val(c, x, y) for x, y in zip(a, b))
        if isinstance(a, SView) and isinstance(b, SView) and a.base == b.base and a.axis == b.axis:
            return SView(a.base, a.axis, zite(c, a.idx, b.idx))
        if isinstance(a, (SView, SSlice)) or isinstance(b, (SView, SSlice)):
            if a == b:
                return a
            raise OutOfSubset("merging different views")
        if a is None and b is None:
            return None
        if isinstance(a, z3.ExprRef) and isinstance(b, z3.ExprRef):
            return zite(c, a, b)
        raise OutOfSubset(f"cannot merge {a!r} / {b!r}")

    def ev_IfExp(self, e, st, spec, ctx):
        c = to_bool(self.ev(e.test, st, spec, ctx))
        if spec:
            return zite(c, self.ev(e.body, st, True, ctx), self.ev(e.orelse, st, True, ctx))
        s1 = st.copy(zand(st.guard, c))
        a = self.ev(e.body, s1, False, ctx)
        s2 = st.copy(zand(st.guard, z3.Not(c)))
        b = self.ev(e.orelse, s2, False, ctx)
        if (a is None) != (b is None):      # `v if c else None`: an optional that is present exactly under c
            other = b if a is None else a
            pres = other.present if isinstance(other, SOpt) else z3.BoolVal(True)
            return SOpt(z3.simplify(zand(z3.Not(c) if a is None else c, pres)))
        return zite(c, a, b)

    def ev_Tuple(self, e, st, spec, ctx):
        return tuple(self.ev(x, st, spec, ctx) for x in e.elts)

    def ev_Attribute(self, e, st, spec, ctx):
        txt = unparse(e)
        al = self.field_alias.get(txt)
        if al is not None and isinstance(st.vars.get(al), SArr):
            return st.vars[al]      # `al = self.f` (bound once): al and the field are the same array object
        if txt in st.vars:
            return st.vars[txt]
        if txt in self.c.attrs:
            return self.ev(ast.parse(self.c.attrs[txt], mode="eval").body, st, True, ctx)
        v = self.ev(e.value, st, spec, ctx)
        if isinstance(v, SArr):
            if e.attr == "shape":
                return v.shape
            if e.attr == "size":
                r = v.shape[0]
                for d in v.shape[1:]:
                    r = r * d
                return r
        raise OutOfSubset(f"attribute {ast.unparse(e)}")

    # ---- subscripts
    def index_list(self, sl, st, spec, ctx):
        if isinstance(sl, ast.Tuple):
            return list(sl.elts)
        return [sl]

    def resolve_arr(self, node, st, spec, ctx):
        """-> (SArr, prefix indices fixed by a view, axis info)"""
        v = self.ev(node, st, spec, ctx)
        return v

    def ev_Subscript(self, e, st, spec, ctx):
        base = self.ev(e.value, st, spec, ctx)
        if isinstance(base, tuple):
            i = self.ev(e.slice, st, spec, ctx)
            if z3.is_int_value(i):
                return base[i.as_long()]
            raise OutOfSubset("symbolic tuple index")
        elts = self.index_list(e.slice, st, spec, ctx)
        txt = unparse(e)
        if isinstance(base, SView):
            arr = st.vars[base.base]
            if len(elts) != 1:
                raise OutOfSubset("view index")
            k = self.ev(elts[0], st, spec, ctx)
            k = self.check_index(txt, arr, 1 - base.axis, k, st, spec)
            idx = [base.idx, k] if base.axis == 0 else [k, base.idx]
            return self.read(arr, idx, txt, st, spec)
        if not isinstance(base, SArr):
            raise OutOfSubset(f"subscript of {base!r}")
        arr = base
        # slices -> views
        if any(isinstance(x, ast.Slice) for x in elts):
            return self.mk_view(e, arr, elts, st, spec, ctx)
        if len(elts) < arr.ndim:
            if arr.ndim == 2 and len(elts) == 1 and isinstance(e.value, ast.Name):
                k = self.ev(elts[0], st, spec, ctx)
                k = self.check_index(txt, arr, 0, k, st, spec)
                return SView(e.value.id, 0, k)
            raise OutOfSubset("partial index")
        idx = []
        for d, x in enumerate(elts):
            k = to_num(self.ev(x, st, spec, ctx))
            idx.append(self.check_index(txt, arr, d, k, st, spec))
        return self.read(arr, idx, txt, st, spec)

    def mk_view(self, e, arr, elts, st, spec, ctx):
        if not isinstance(e.value, ast.Name):
            raise OutOfSubset("slice of expression")
        name = e.value.id
        def full(s):
            return isinstance(s, ast.Slice) and s.lower is None and s.upper is None and s.step is None
        if arr.ndim == 2 and len(elts) == 2:
            if full(elts[0]) and not isinstance(elts[1], ast.Slice):
                k = to_num(self.ev(elts[1], st, spec, ctx))
                k = self.check_index(unparse(e), arr, 1, k, st, spec)
                return SView(name, 1, k)
            if full(elts[1]) and not isinstance(elts[0], ast.Slice):
                k = to_num(self.ev(elts[0], st, spec, ctx))
                k = self.check_index(unparse(e), arr, 0, k, st, spec)
                return SView(name, 0, k)
        if arr.ndim == 1 and len(elts) == 1 and elts[0].step is None:
            s = elts[0]
            lo = to_num(self.ev(s.lower, st, spec, ctx)) if s.lower is not None else z3.IntVal(0)
            hi = to_num(self.ev(s.upper, st, spec, ctx)) if s.upper is not None else arr.shape[0]
            if not spec:
                # numpy clips slices; we demand a plain in-range slice so that the model is exact
                self.emit("slice", f"{unparse(e)}@{self.stmt_label()}",
                          z3.And(0 <= lo, lo <= hi, hi <= arr.shape[0]), st.guard, self.c.props)
            return SSlice(name, lo, hi)
        raise OutOfSubset(f"slice {ast.unparse(e)}")

    def check_index(self, txt, arr, d, k, st, spec):
        """Emit the bounds obligation (memory safety: -len <= k < len) and model wrap-around."""
        if spec:
            return k
        n = arr.shape[d]
        lab = f"{txt}#{d}@{self.stmt_label()}"
        if z3.is_int_value(k) and k.as_long() < 0:
            self.emit("bounds", lab, -n <= k, st.guard, self.c.bounds_props)
            return n + k
        self.emit("bounds", lab, z3.And(-n <= k, k < n), st.guard, self.c.bounds_props)
        if txt in self.c.wraps:
            return z3.If(k < 0, k + n, k)
        self.emit("nowrap", lab, k >= 0, st.guard, self.c.props)
        return k

    def read(self, arr, idx, txt, st, spec):
        v = self.sel(arr, idx)
        if not spec:
            if arr.wr is not None:
                self.emit("init", f"{txt}@{self.stmt_label()}", self.sel(SArr(arr.wr, arr.shape, None), idx),
                          st.guard, self.c.props)
            self.elem_fact(arr, v)
        return v

    # ---- calls
    def ev_Call(self, e, st, spec, ctx):
        f = e.func
        if isinstance(f, ast.Name):
            name = f.id
            if spec:
                r = self.spec_call(name, e, st, ctx)
                if r is not NotImplemented:
                    return r
            if name in ("int", "float", "bool") and len(e.args) == 1:
                v = self.ev(e.args[0], st, spec, ctx)
                if name == "bool":
                    return to_bool(v)
                v = to_num(v)
                if name == "int":
                    if v.sort() == R:
                        return z3.If(v >= 0, z3.ToInt(v), -z3.ToInt(-v))
                    return v
                return z3.ToReal(v) if v.sort() == I else v
            if name in ("min", "max") and len(e.args) == 1:
                v = self.ev(e.args[0], st, spec, ctx)
                if isinstance(v, (SView, SSlice, SArr)):
                    return self.reduce_minmax(v, name, st, spec, unparse(e))
                raise OutOfSubset("min/max of one argument")
            if name in ("min", "max") and len(e.args) >= 2:
                vs = [to_num(self.ev(a, st, spec, ctx)) for a in e.args]
                r = vs[0]
                for v in vs[1:]:
                    r = z3.If(r <= v, r, v) if name == "min" else z3.If(r >= v, r, v)
                return r
            if name == "abs" and len(e.args) == 1:
                v = to_num(self.ev(e.args[0], st, spec, ctx))
                r = z3.If(v >= 0, v, -v)
                self.i64(r, st, spec)
                return r
            if name == "isinstance" and len(e.args) == 2 and not spec:
                v = self.ev(e.args[0], st, spec, ctx)
                tn = unparse(e.args[1])
                if isinstance(v, str):
                    return z3.BoolVal(tn == "str")
                if v is None:
                    return z3.BoolVal(False)
                if is_num(v) and v.sort() == I and tn == "int":
                    return z3.BoolVal(True)
                raise OutOfSubset(f"isinstance({ast.unparse(e.args[0])}, {tn})")
            if name == "len" and len(e.args) == 1:
                v = self.ev(e.args[0], st, spec, ctx)
                if isinstance(v, SArr):
                    return v.shape[0]
                if isinstance(v, SView):
                    return st.vars[v.base].shape[1 - v.axis]
                raise OutOfSubset("len")
            if not spec and name in self.c.opaque:
                return self.call_contract(name, e, st, ctx, self.c.opaque[name])
            if not spec and name in self.fs.module_funcs:
                return self.call_contract(name, e, st, ctx)
            raise OutOfSubset(f"call to {name}")
        if isinstance(f, ast.Attribute):
            recv = f.value
            if isinstance(recv, ast.Name) and recv.id == "self" and not spec and "." in self.fs.qualname.partition(":")[2]:
                cls = self.fs.qualname.partition("#")[0].partition(":")[2].rpartition(".")[0]
                mname = f.attr if not f.attr.startswith("__") or f.attr.endswith("__") else f.attr
                cc = self.contracts.get(f"{self.module}:{cls}.{mname}")
                if cc is not None:
                    return self.call_method_contract(f"{cls}.{mname}", e, st, ctx, cc)
            if not spec and unparse(f) in self.c.opaque:      # an assumed contract keyed by the dotted callee text
                return self.call_contract(unparse(f), e, st, ctx, self.c.opaque[unparse(f)])
            if f.attr == "__new__" and isinstance(recv, ast.Call) and getattr(recv.func, "id", "") == "super" \
                    and len(e.args) == 3 and not spec:
                # ndarray subclass construction: super().__new__(cls, shape, dtype) allocates an uninitialised array
                fake = ast.Call(func=f, args=[e.args[1], e.args[2]], keywords=[])
                ast.copy_location(fake, e)
                return self.np_alloc("empty", fake, st, ctx)
            if isinstance(recv, ast.Name) and recv.id in ("np", "numpy") and f.attr in ("empty", "zeros", "ones") \
                    and not spec and e.args:
                return self.np_alloc(f.attr, e, st, ctx)
            if isinstance(recv, ast.Name) and recv.id in ("np", "numpy", "math") and f.attr in _REAL_UF \
                    and len(e.args) == 1 and not e.keywords:
                v = self.ev(e.args[0], st, spec, ctx)
                if is_num(v):       # a total real function of one real argument: uninterpreted (only "some finite value")
                    v = z3.ToReal(v) if v.sort() == I else v
                    return z3.Function("uf_" + f.attr, R, R)(v)
            if isinstance(recv, ast.Name) and recv.id in ("np", "numpy", "math") and f.attr == "nextafter" \
                    and len(e.args) == 2 and not spec:
                x = to_num(self.ev(e.args[0], st, spec, ctx))
                x = z3.ToReal(x) if x.sort() == I else x
                d = e.args[1]
                up = isinstance(d, ast.Name) and d.id == "inf"
                down = isinstance(d, ast.UnaryOp) and isinstance(d.op, ast.USub) and isinstance(d.operand, ast.Name) \
                    and d.operand.id == "inf"
                if up or down:      # the neighbouring float in that direction: never on the other side of x
                    r = fresh("nextafter", R)
                    self.fact(r >= x if up else r <= x, st.guard)
                    return r
                raise OutOfSubset("nextafter towards a finite value")
            if isinstance(recv, ast.Name) and recv.id in ("np", "numpy", "math"):
                raise OutOfSubset(f"call {ast.unparse(f)}")
            obj = self.ev(recv, st, spec, ctx)
            if isinstance(obj, SVec) and f.attr == "sum" and not e.args:
                return fresh("vecsum", R)
            if isinstance(obj, SArr) and f.attr == "copy" and not e.args and not e.keywords:
                return obj          # arrays are values here: a copy is the same value (and a distinct object)
            if isinstance(obj, SArr) and f.attr == "fill" and not spec and isinstance(recv, ast.Name):
                v = to_num(self.ev(e.args[0], st, spec, ctx))
                if obj.dt is not None:
                    self.emit("range", f"{unparse(e)}@{self.stmt_label()}",
                              z3.And(obj.dt[0] <= v, v <= obj.dt[1]), st.guard, self.c.arith_props)
                term = z3.K(I, v) if obj.ndim == 1 else z3.K(I, z3.K(I, v))
                wr = None
                if obj.wr is not None:
                    wr = z3.K(I, z3.BoolVal(True)) if obj.ndim == 1 else z3.K(I, z3.K(I, z3.BoolVal(True)))
                st.vars[recv.id] = obj.with_term(term, wr)
                return None
            if isinstance(obj, SArr) and f.attr == "add" and not spec and isinstance(recv, ast.Name) and obj.ndim == 1:
                # a set of small integers modelled as characteristic array
                k = to_num(self.ev(e.args[0], st, spec, ctx))
                st.vars[recv.id] = obj.with_term(z3.Store(obj.term, k, z3.IntVal(1)))
                return None
            if isinstance(obj, (SSlice, SView, SArr)) and f.attr in ("min", "max") and not e.args:
                return self.reduce_minmax(obj, f.attr, st, spec, unparse(e))
            raise OutOfSubset(f"method {ast.unparse(f)}")
        raise OutOfSubset(f"call {ast.unparse(e)}")

    def np_alloc(self, kind, e, st, ctx):
        """np.empty / np.zeros / np.ones(shape[, dtype]): a fresh array; empty => nothing written yet."""
        shp = self.ev(e.args[0], st, False, ctx)
        dims = tuple(to_num(d) for d in shp) if isinstance(shp, tuple) else (to_num(shp),)
        if len(dims) not in (1, 2):
            raise OutOfSubset("array rank")
        for d in dims:
            self.emit("alloc", f"{unparse(e)}@{self.stmt_label()}", d >= 0, st.guard, self.c.props)
        dtxt = unparse(e.args[1]) if len(e.args) > 1 else (unparse(e.keywords[0].value) if e.keywords else "")
        elem, dt = "real", None
        if "BOOL" in dtxt.upper():
            elem = "bool"
        elif dtxt and "float" not in dtxt.lower():
            elem = "int"
            if "DEFAULT_INT" in dtxt or dtxt in ("int", "np.int64"):
                dt = (z3.IntVal(I64_MIN), z3.IntVal(I64_MAX))
            else:
                try:
                    v = self.ev(e.args[1] if len(e.args) > 1 else e.keywords[0].value, st, False, ctx)
                except (OutOfSubset, ContractError):
                    v = None
                dt = v if isinstance(v, tuple) and len(v) == 2 else None
        sort = asort(len(dims), elem)
        if kind == "empty":
            term = fresh("alloc", sort)
            wr = z3.K(I, z3.BoolVal(False)) if len(dims) == 1 else z3.K(I, z3.K(I, z3.BoolVal(False)))
        else:
            fill = {"int": z3.IntVal(0 if kind == "zeros" else 1), "real": z3.RealVal(0 if kind == "zeros" else 1),
                    "bool": z3.BoolVal(kind == "ones")}[elem]
            term = z3.K(I, fill) if len(dims) == 1 else z3.K(I, z3.K(I, fill))
            wr = z3.K(I, z3.BoolVal(True)) if len(dims) == 1 else z3.K(I, z3.K(I, z3.BoolVal(True)))
        return SArr(term, dims, dt, elem, wr)

    def reduce_minmax(self, obj, which, st, spec, txt):
        """a[lo:hi].min() etc. as a fresh value with its defining axioms (attained bound)."""
        if isinstance(obj, SSlice):
            arr = st.vars[obj.base]
            lo, hi = obj.lo, obj.hi
            get = lambda k: self.sel(arr, [k])
        elif isinstance(obj, SView):
            arr = st.vars[obj.base]
            lo, hi = z3.IntVal(0), arr.shape[1 - obj.axis]
            get = (lambda k: self.sel(arr, [obj.idx, k])) if obj.axis == 0 else (lambda k: self.sel(arr, [k, obj.idx]))
        elif isinstance(obj, SArr) and obj.ndim == 1:
            arr = obj
            lo, hi = z3.IntVal(0), arr.shape[0]
            get = lambda k: self.sel(arr, [k])
        elif isinstance(obj, SArr) and obj.ndim == 2:
            # whole-matrix reduction: attained bound over both indices
            arr = obj
            n0, n1 = arr.shape
            if not spec:
                self.emit("nonempty", f"{txt}@{self.stmt_label()}", z3.And(n0 > 0, n1 > 0), st.guard, self.c.props)
            m, w0, w1, k0, k1 = fresh("m"), fresh("w"), fresh("w"), fresh("k"), fresh("k")
            cmp2 = (m <= self.sel(arr, [k0, k1])) if which == "min" else (m >= self.sel(arr, [k0, k1]))
            self.fact(z3.Implies(z3.And(n0 > 0, n1 > 0), z3.And(
                0 <= w0, w0 < n0, 0 <= w1, w1 < n1, m == self.sel(arr, [w0, w1]),
                z3.ForAll([k0, k1], z3.Implies(z3.And(0 <= k0, k0 < n0, 0 <= k1, k1 < n1), cmp2)))), st.guard)
            return m
        else:
            raise OutOfSubset("min/max of this value")
        if not spec:
            self.emit("nonempty", f"{txt}@{self.stmt_label()}", lo < hi, st.guard, self.c.props)
            if arr.wr is not None:
                k = fresh("k")
                wget = self.sel(SArr(arr.wr, arr.shape, None), [k]) if isinstance(obj, (SSlice, SArr)) else \
                    (self.sel(SArr(arr.wr, arr.shape, None), [obj.idx, k]) if obj.axis == 0
                     else self.sel(SArr(arr.wr, arr.shape, None), [k, obj.idx]))
                self.emit("init", f"{txt}@{self.stmt_label()}",
                          z3.ForAll([k], z3.Implies(z3.And(lo <= k, k < hi), wget)), st.guard, self.c.props)
        m, w, k = fresh("m"), fresh("w"), fresh("k")
        cmp = (m <= get(k)) if which == "min" else (m >= get(k))
        self.fact(z3.Implies(lo < hi, z3.And(lo <= w, w < hi, m == get(w),
                                             z3.ForAll([k], z3.Implies(z3.And(lo <= k, k < hi), cmp)))), st.guard)
        return m

    # ---- spec-only vocabulary
    def spec_call(self, name, e, st, ctx):
        if name in ("forall", "exists"):
            var = e.args[0].id
            lo = to_num(self.ev(e.args[1], st, True, ctx))
            hi = to_num(self.ev(e.args[2], st, True, ctx))
            k = z3.Int(f"{var}!b{next(_fresh)}")
            c2 = dict(ctx)
            c2["bound"] = dict(ctx.get("bound") or {})
            c2["bound"][var] = k
            self.bound_depth += 1
            try:
                body = to_bool(self.ev(e.args[3], st, True, c2))
            finally:
                self.bound_depth -= 1
            rng = z3.And(lo <= k, k < hi)
            if name == "forall":
                return z3.ForAll([k], z3.Implies(rng, body))
            return z3.Exists([k], z3.And(rng, body))
        if name == "implies":
            a = to_bool(self.ev(e.args[0], st, True, ctx))
            b = to_bool(self.ev(e.args[1], st, True, ctx))
            return z3.Implies(a, b)
        if name == "iff":
            a = to_bool(self.ev(e.args[0], st, True, ctx))
            b = to_bool(self.ev(e.args[1], st, True, ctx))
            return a == b
        if name == "ite":
            c = to_bool(self.ev(e.args[0], st, True, ctx))
            return zite(c, self.ev(e.args[1], st, True, ctx), self.ev(e.args[2], st, True, ctx))
        if name == "old":
            if "old" not in ctx:
                raise ContractError("old() outside a two-state clause")
            return self.ev(e.args[0], State(ctx["old"], st.guard), True, ctx)
        if name == "prev":      # prev(e): value before a summarised statement
            if "prev" not in ctx:
                raise ContractError("prev() outside a summary")
            return self.ev(e.args[0], State(ctx["prev"], st.guard), True, ctx)
        if name == "at_loop":
            if "at_loop" not in ctx:
                raise ContractError("at_loop() outside a loop invariant")
            return self.ev(e.args[0], State(ctx["at_loop"], st.guard), True, ctx)
        if name == "at_iter":
            if "at_iter" not in ctx:
                raise ContractError("at_iter() outside an iteration contract")
            return self.ev(e.args[0], State(ctx["at_iter"], st.guard), True, ctx)
        if name == "rev_seg":     # rev_seg(x, i, j): x with the segment [i..j] reversed (a ghost array value)
            arr = self.ev(e.args[0], st, True, ctx)
            i_ = to_num(self.ev(e.args[1], st, True, ctx))
            j_ = to_num(self.ev(e.args[2], st, True, ctx))
            if self.bound_depth:
                raise ContractError("rev_seg under a quantifier")
            new = fresh("revseg", arr.term.sort())
            k = fresh("k")
            self.fact(z3.ForAll([k], z3.Select(new, k) == z3.If(z3.And(i_ <= k, k <= j_),
                                                                 z3.Select(arr.term, i_ + j_ - k),
                                                                 z3.Select(arr.term, k))))
            return SArr(new, arr.shape, arr.dt, arr.elem, None, arr.dtname)
        if name == "opt":          # opt(b): an optional object that is present iff b
            return SOpt(to_bool(self.ev(e.args[0], st, True, ctx)))
        if name == "view_index":   # view_index(v): the fixed row/column index of a row/column view
            v = self.ev(e.args[0], st, True, ctx)
            if not isinstance(v, SView):
                raise ContractError("view_index of a non-view")
            return v.idx
        if name in ("dtype_lo", "dtype_hi"):
            arr = self.ev(e.args[0], st, True, ctx)
            if isinstance(arr, tuple):
                return arr[0 if name == "dtype_lo" else 1]
            if not isinstance(arr, SArr) or arr.dt is None:
                raise ContractError(f"{name}: no integer dtype")
            return arr.dt[0 if name == "dtype_lo" else 1]
        if name == "shape":
            arr = self.ev(e.args[0], st, True, ctx)
            return arr.shape[e.args[1].value]
        if name == "written":     # written(a, i[, j]): ghost written-set of an uninit array
            arr = self.ev(e.args[0], st, True, ctx)
            idx = [to_num(self.ev(a, st, True, ctx)) for a in e.args[1:]]
            if arr.wr is None:
                return z3.BoolVal(True)
            return self.sel(SArr(arr.wr, arr.shape, None), idx)
        if name == "same_array":  # same_array(a, b): extensional equality of the whole arrays
            a = self.ev(e.args[0], st, True, ctx)
            b = self.ev(e.args[1], st, True, ctx)
            return a.term == b.term
        if name in S.SPECS:
            sf = S.SPECS[name]
            args = [self.ev(a, st, True, ctx) for a in e.args]
            if len(args) != len(sf.params):
                raise ContractError(f"spec {name}: arity")
            if not sf.recursive:
                env = dict(zip(sf.params, args))
                c2 = {k: v for k, v in ctx.items() if k != "bound"}
                # bound variables stay visible through the argument terms only
                return self.ev(sf.ast, State(env, st.guard), True, c2)
            return self.rec_app(sf, args, st)
        return NotImplemented

    def rec_fn(self, sf: S.SpecFn):
        if sf.name not in self.rec_funcs:
            sorts = []
            for pt in sf.ptypes:
                sorts.append({"int": I, "bool": B, "real": R, "arr1": asort(1), "arr2": asort(2),
                              "arr1r": asort(1, "real"), "arr2r": asort(2, "real")}[pt])
            sorts.append(esort(sf.ret))
            self.rec_funcs[sf.name] = z3.Function("spec_" + sf.name, *sorts)
        return self.rec_funcs[sf.name]

    def rec_app(self, sf, args, st):
        fn = self.rec_fn(sf)
        zargs = [a.term if isinstance(a, SArr) else to_num(a) if sf.ptypes[i] != "bool" else a
                 for i, a in enumerate(args)]
        app = fn(*zargs)
        if sf.ast is None:
            return app
        if sf.qdef and sf.name not in self._qdefs and not getattr(self, "_suppress_qdef", False):
            # quantified definitional axiom (pattern: the application itself), needed when the function is
            # applied to bound variables
            self._qdefs.add(sf.name)
            bvs, env = [], {}
            for pn, pt in zip(sf.params, sf.ptypes):
                if pt in ("int", "bool", "real"):
                    v = z3.Const(f"q_{sf.name}_{pn}", {"int": I, "bool": B, "real": R}[pt])
                    env[pn] = v
                else:
                    nd = 1 if pt.startswith("arr1") else 2
                    v = z3.Const(f"q_{sf.name}_{pn}", asort(nd, "real" if pt.endswith("r") else "int"))
                    env[pn] = SArr(v, tuple(z3.Int(f"q_{sf.name}_{pn}_n{d}") for d in range(nd)), None)
                bvs.append(v)
            saved = (self.bound_depth, self.unfold_depth)
            self.bound_depth, self.unfold_depth = 1, self.max_unfold   # no ground unfolding inside
            try:
                body = self.ev(sf.ast, State(env, z3.BoolVal(True)), True, {})
            finally:
                self.bound_depth, self.unfold_depth = saved
            body = to_num(body) if sf.ret != "bool" else to_bool(body)
            qapp = fn(*bvs)
            self.facts.insert(0, z3.ForAll(bvs, qapp == body, patterns=[qapp]))
            for o in self.obls:      # keep earlier obligations' fact prefixes aligned
                o.nfacts += 1
        if self.bound_depth == 0 and self.unfold_depth < self.max_unfold:
            key = app.sexpr()
            if key not in self._unfolded:
                self._unfolded.add(key)
                self.unfold_depth += 1
                try:
                    env = dict(zip(sf.params, args))
                    body = self.ev(sf.ast, State(env, z3.BoolVal(True)), True, {})
                finally:
                    self.unfold_depth -= 1
                body = to_num(body) if sf.ret != "bool" else to_bool(body)
                self.fact(app == body)
        return app

    # ---- modular calls
    def call_contract(self, name, e, st, ctx, cc: S.Contract = None):
        if cc is None:
            qn = f"{self.module}:{name}"
            cc = self.contracts.get(qn)
            if cc is None:
                raise OutOfSubset(f"callee {qn} has no contract")
        pnames = list(cc.params)
        args_ = list(e.args)
        if e.keywords:      # keyword arguments are matched to the contract's parameter names; unknown ones are ignored
            kw = {k.arg: k.value for k in e.keywords}
            for pn_ in pnames[len(args_):]:
                if pn_ in kw:
                    args_.append(kw[pn_])
        for pn_ in pnames[len(args_):]:     # omitted trailing parameters take the default values of the real `def`
            if pn_ not in cc.defaults:
                break
            args_.append(ast.copy_location(ast.Constant(cc.defaults[pn_]), e))
        if len(args_) != len(pnames):
            raise OutOfSubset(f"arity of {name}")
        e = ast.Call(func=e.func, args=args_, keywords=[])
        actual = [self.ev(a, st, False, ctx) for a in e.args]
        env = dict(zip(pnames, actual))
        # callee ghosts are instantiated from the caller's `calls` map
        gmap = self.c.calls.get(name, {})
        for g in cc.ghosts:
            if g not in gmap:
                raise ContractError(f"{self.fs.qualname}: no instantiation for ghost {g} of {name}")
            env[g] = self.ev(ast.parse(gmap[g], mode="eval").body, st, True, ctx)
        # dtype symbols of the callee are those of the actual arrays
        saved_dts = dict(self.dts)
        for p, t in cc.params.items():
            if t.kind == "arr" and t.dtype and isinstance(env[p], SArr) and env[p].dt is not None:
                self.dts[t.dtype] = env[p].dt
        lab = f"{name}@{self.stmt_label()}"
        cenv = State(env, st.guard)
        for cl in cc.requires:
            g = to_bool(self.ev(cl.ast, cenv, True, {}))
            self.emit("pre@call", f"{lab}:{cl.label}", g, st.guard, cl.props | frozenset(self.c.props.split()))
        # havoc what the callee may modify
        post_env = dict(env)
        for p in cc.modifies:
            a = env[p]
            if not isinstance(a, SArr):
                raise OutOfSubset("modifies of non-array")
            na = a.with_term(fresh(p, a.term.sort()))   # written-set kept (it can only grow in the callee)
            post_env[p] = na
            if p in cc.ghosts:          # a ghost array of the callee, instantiated by a caller variable
                gname = gmap.get(p, "").strip()
                if gname in st.vars:
                    st.vars[gname] = na
                continue
            arg = e.args[pnames.index(p)]
            if isinstance(arg, ast.Name):
                st.vars[arg.id] = na
            elif isinstance(arg, ast.Attribute) and unparse(arg) in st.vars:
                st.vars[unparse(arg)] = na
            else:
                raise OutOfSubset("modified argument must be a variable")
        res = None
        if cc.returns is not None:
            res = self.mk_param(f"{name}_res!{next(_fresh)}", cc.returns)
        for gname, gt in cc.ghost_results.items():
            post_env[gname] = self.mk_param(f"{name}_{gname}!{next(_fresh)}", gt)
        penv = State(post_env, st.guard)
        for cl in cc.ensures:
            for _try in range(30):
                try:
                    g = to_bool(self.ev(cl.ast, penv, True, {"old": env, "result": res}))
                    break
                except ContractError as ex:
                    # a local of the callee mentioned by its post-condition: existential for the caller
                    import re as _re
                    m_ = _re.search(r"unknown variable '(\w+)'", str(ex))
                    if not m_:
                        raise
                    post_env[m_.group(1)] = fresh(f"{name}_{m_.group(1)}")
            else:
                raise ContractError(f"cannot evaluate post-condition of {name}")
            self.fact(g, st.guard)
        self.dts = saved_dts
        return res

    def call_method_contract(self, name, e, st, ctx, cc: S.Contract):
        """self.m(args) checked against the contract of m (never its body): the callee's fields are the caller's
        object state, its ghosts are the caller's ghosts of the same name (or the `calls` map), what it may assign
        is havocked (and must be inside the caller's own frame), its post-condition is assumed."""
        pnames = list(cc.params)
        if len(e.args) != len(pnames) or e.keywords:
            raise OutOfSubset(f"arity of {name}")
        env = dict(zip(pnames, [self.ev(a, st, False, ctx) for a in e.args]))
        gmap = self.c.calls.get(name, {})
        for g in cc.ghosts:
            if g in gmap:
                env[g] = self.ev(ast.parse(gmap[g], mode="eval").body, st, True, ctx)
            elif g in st.vars:
                env[g] = st.vars[g]
            else:
                raise ContractError(f"{self.fs.qualname}: no instantiation for ghost {g} of {name}")
        for fld in cc.fields:
            if fld not in st.vars:
                raise ContractError(f"{self.fs.qualname}: field {fld} of callee {name} is not part of the caller's state")
            env[fld] = st.vars[fld]
        if cc.assigns is None:
            raise OutOfSubset(f"callee {name} has no frame")
        lab = f"{name}@{self.stmt_label()}"
        saved_c = self.c
        try:
            self.c = cc                # the callee's attrs map speaks about the callee's view of the object
            cenv = State(env, st.guard)
            for cl in cc.requires:
                g = to_bool(self.ev(cl.ast, cenv, True, {}))
                self.emit("pre@call", f"{lab}:{cl.label}", g, st.guard, cl.props | frozenset(saved_c.props.split()))
            if cc.raises_iff is not None:
                g = z3.Not(to_bool(self.ev(ast.parse(cc.raises_iff, mode="eval").body, cenv, True, {})))
                self.emit("pre@call", f"{lab}:does-not-raise", g, st.guard, frozenset(saved_c.props.split()))
            post_env = dict(env)
            for fld in cc.assigns:
                if saved_c.assigns is not None and fld not in saved_c.assigns:
                    self.emit("frame", f"{fld}@{lab}", z3.BoolVal(False), st.guard, saved_c.props)
                t = cc.fields.get(fld) or saved_c.fields.get(fld)
                if t is None:
                    raise ContractError(f"{name}: assigned field {fld} has no declared type")
                nv = self.mk_param(f"{fld.replace('.', '_')}!{next(_fresh)}", t)
                post_env[fld] = nv
                st.vars[fld] = nv
            res = self.mk_param(f"{name}_res!{next(_fresh)}", cc.returns) if cc.returns is not None else None
            penv = State(post_env, st.guard)
            for cl in cc.ensures:
                self.fact(to_bool(self.ev(cl.ast, penv, True, {"old": env, "result": res})), st.guard)
        finally:
            self.c = saved_c
        return res

    # ------------------------------------------------------------------ statements
    def flush_i64(self, st, s):
        if self._pending_i64:
            self.emit("i64", self.stmt_label(s), zand(*self._pending_i64), None, self.c.arith_props)
        self._pending_i64 = []

    def ev_code(self, e, st, ctx=None):
        """Evaluate a code expression; i64 conditions are collected per statement (guarded)."""
        start = len(self._pending_i64)
        v = self.ev(e, st, False, ctx or {})
        return v

    def exec_block(self, stmts, st):
        """-> dict(normal=State|list|None, brk=[...], cont=[...], ret=[(State, value)], rse=[State]).
        `st` may be one state or a list of (unmerged) path states."""
        normals = st if isinstance(st, list) else [st]
        out = {"normal": None, "brk": [], "cont": [], "ret": [], "rse": []}
        for s in stmts:
            if not normals:
                break
            nxt = []
            for stx in normals:
                self.cur_stmt = s
                r = self.exec_stmt(s, stx)
                rn = r["normal"]
                rn = rn if isinstance(rn, list) else ([rn] if rn is not None else [])
                for k in ("brk", "cont", "ret", "rse"):
                    out[k].extend(r[k])
                for x in rn:
                    self.after_stmt(s, x)
                nxt.extend(rn)
            normals = nxt
        out["normal"] = normals[0] if len(normals) == 1 else (normals if normals else None)
        return out

    def class_state(self):
        """attribute texts that some contract of the same class reads or writes (fields, attrs, assigns)"""
        if getattr(self, "_class_state", None) is None:
            q = self.fs.qualname.partition("#")[0]
            prefix = q.rpartition(".")[0] + "." if "." in q.partition(":")[2] else q
            cs = set()
            for k, c in self.contracts.items():
                if k.startswith(prefix):
                    cs |= set(c.fields) | {a for a in c.attrs if a.startswith("self.")} | set(c.assigns or [])
            self._class_state = cs
        return self._class_state

    def assigned_once(self, name):
        n = 0
        for nd in ast.walk(self.fs.node):
            if isinstance(nd, ast.Name) and nd.id == name and isinstance(nd.ctx, (ast.Store, ast.Del)):
                n += 1
        return n == 1

    def after_stmt(self, s, st):
        """ghost code / refinement assertions / lemma instances attached 'after <pattern> #k'."""
        key = self.fs.after_key.get(id(s))
        if st is None or key is None:
            return
        for gs in self.c.ghost_code.get(key, []):
            self.exec_ghost(gs, st)
        for lm in self.lemma_instances(self.c.lemmas_at.get(key, []), st, self.spec_ctx()):
            self.fact(lm, st.guard)
        for cl in self.c.asserts.get(key, []):
            g = to_bool(self.ev(cl.ast, st, True, self.spec_ctx()))
            self.emit("assert", f"{key}:{cl.label}", g, st.guard, cl.props)
            self.fact(g, st.guard)
        self._seen_keys.add(key)

    def exec_ghost(self, text, st):
        node = ast.parse(text.strip()).body[0]
        if isinstance(node, ast.Assign):
            tgt = node.targets[0]
            val = self.ev(node.value, st, True, self.spec_ctx())
            if isinstance(tgt, ast.Name):
                st.vars[tgt.id] = val
                self.ghost_names.add(tgt.id)
            elif isinstance(tgt, ast.Subscript) and isinstance(tgt.value, ast.Name):
                arr = st.vars[tgt.value.id]
                idx = [to_num(self.ev(x, st, True, self.spec_ctx())) for x in self.index_list(tgt.slice, st, True, {})]
                st.vars[tgt.value.id] = self.store(arr, idx, to_num(val))
            else:
                raise ContractError("ghost target")
        else:
            raise ContractError("ghost statement")

    def spec_ctx(self):
        ctx = {"old": self.entry}
        if self.loop_entries:
            ctx["at_loop"] = self.loop_entries[-1]
        if self.iter_entries:
            ctx["at_iter"] = self.iter_entries[-1]
        return ctx

    def exec_stmt(self, s, st: State):
        none = {"normal": st, "brk": [], "cont": [], "ret": [], "rse": []}
        self._pending_i64 = []
        key = self.fs.after_key.get(id(s))
        gk = self.fs.generic_key.get(id(s))
        if gk is not None and gk in self.c.summaries:       # "assign a[] #k": summary of an element store, any index
            key = "after " + gk
        if key is not None and key[6:] in self.c.summaries:
            sm = self.c.summaries[key[6:]]
            self._seen_keys.add(key[6:])
            rse = []
            if sm.raises_if is not None:
                rc = to_bool(self.ev(ast.parse(sm.raises_if, mode="eval").body, st, True, self.spec_ctx()))
                rs_ = st.copy(zand(st.guard, rc))
                rs_.raise_label = key[6:]
                rse.append(rs_)
                st.guard = zand(st.guard, z3.Not(rc))
            prev = dict(st.vars)
            if sm.subscripts:
                self.cur_stmt = s
                for nd in ast.walk(s):
                    if isinstance(nd, ast.Subscript) and isinstance(nd.value, ast.Name) \
                            and isinstance(st.vars.get(nd.value.id), SArr):
                        arr = st.vars[nd.value.id]
                        elts = self.index_list(nd.slice, st, False, {})
                        if any(isinstance(x, ast.Slice) for x in elts):
                            # a[i, :] : the fixed coordinates are checked; a store through it rewrites that part
                            for d, x in enumerate(elts):
                                if not isinstance(x, ast.Slice):
                                    self.check_index(unparse(nd), arr, d, to_num(self.ev(x, st, False, {})), st, False)
                            if isinstance(nd.ctx, ast.Store):
                                st.vars[nd.value.id] = arr.with_term(fresh(nd.value.id, arr.term.sort()))
                            continue
                        if isinstance(nd.ctx, ast.Store) and len(elts) == arr.ndim:
                            elem = R if arr.term.sort().range() == R or (arr.ndim == 2 and arr.term.sort().range().range() == R) else I
                            self.store_sub(nd, fresh("abstracted", elem), st)
                        else:
                            for d, x in enumerate(elts):
                                self.check_index(unparse(nd), arr, d, to_num(self.ev(x, st, False, {})), st, False)
            if sm.capture:
                call = s.value if isinstance(s, (ast.Expr, ast.Assign, ast.AnnAssign)) else None
                if not isinstance(call, ast.Call) or len(call.args) < len(sm.capture):
                    raise ContractError(f"{self.fs.qualname}: summary {key[6:]} captures arguments of a call that is not there")
                self.cur_stmt = s
                for gname, a in zip(sm.capture, call.args):
                    st.vars[gname] = self.ev_code(a, st)
                    self.ghost_names.add(gname)
            for n, t in sm.binds.items():
                st.vars[n] = self.mk_param(f"{n}!{next(_fresh)}", t)
            for a in sm.assume:
                self.fact(to_bool(self.ev(ast.parse(a, mode="eval").body, st, True, dict(self.spec_ctx(), prev=prev))), st.guard)
            self.used_summaries.append((key[6:], sm))
            none["rse"] = rse
            return none
        m = getattr(self, "st_" + type(s).__name__, None)
        if m is None:
            raise OutOfSubset(f"statement {type(s).__name__}")
        r = m(s, st)
        return r if r is not None else none

    def out(self, normal=None, **kw):
        d = {"normal": normal, "brk": [], "cont": [], "ret": [], "rse": []}
        d.update(kw)
        return d

    def st_Pass(self, s, st):
        return None

    def st_Expr(self, s, st):
        if isinstance(s.value, ast.Constant):
            return None
        self.ev_code(s.value, st)
        self.flush_guarded(st, s)
        return None

    def flush_guarded(self, st, s):
        if self._pending_i64:
            self.emit("i64", self.stmt_label(s), zand(*self._pending_i64), None, self.c.arith_props)
        self._pending_i64 = []

    def st_AnnAssign(self, s, st):
        if s.value is None:
            return None
        return self.assign([s.target], s.value, st, s)

    def st_Assign(self, s, st):
        return self.assign(s.targets, s.value, st, s)

    def assign(self, targets, value, st, s):
        if len(targets) != 1:
            if all(isinstance(t, (ast.Name, ast.Subscript)) for t in targets):
                val = self.ev_code(value, st)
                self.flush_guarded(st, s)
                for t in targets:          # Python assigns the targets from left to right
                    self.bind(t, val, st, s)
                    self.flush_guarded(st, s)
                return None
            raise OutOfSubset("chained assignment")
        tgt = targets[0]
        # reversal slice assignment  x[a:b:1] = x[c:d:-1] / x[c::-1]
        if isinstance(tgt, ast.Subscript) and isinstance(tgt.slice, ast.Slice):
            return self.slice_assign(tgt, value, st, s)
        val = self.ev_code(value, st)
        self.flush_guarded(st, s)
        self.bind(tgt, val, st, s)
        if self.c.npscalars and isinstance(tgt, ast.Name):
            npv = self.__dict__.setdefault("_np_vars", {})
            dt_ = self.np_dtype_of(value, st)
            if dt_ is not None:
                npv[tgt.id] = dt_
            else:
                npv.pop(tgt.id, None)
        if isinstance(tgt, ast.Name) and isinstance(value, ast.Attribute) and isinstance(val, SArr) \
                and unparse(value) in self.c.fields and self.assigned_once(tgt.id):
            self.field_alias[unparse(value)] = tgt.id
        if isinstance(tgt, ast.Name) and isinstance(value, ast.Name) and isinstance(val, SArr) and tgt.id != value.id:
            # `b = a` makes b and a the same numpy array; arrays are values in this model, so a later element store
            # through either name would not be seen through the other: such stores are outside the subset
            self.__dict__.setdefault("_plain_aliases", set()).update((tgt.id, value.id))
        self.flush_guarded(st, s)
        return None

    def bind(self, tgt, val, st, s):
        if isinstance(tgt, ast.Name):
            if isinstance(val, (z3.ExprRef, SArr, SView, SSlice, SOpt, tuple, str)) or val is None:
                st.vars[tgt.id] = val
            else:
                raise OutOfSubset(f"value {val!r}")
            return
        if isinstance(tgt, ast.Tuple):
            if isinstance(val, SView) and val.axis == 0:
                arr = st.vars[val.base]       # unpacking a row view: one read per column
                ncols = arr.shape[1]
                if z3.is_int_value(ncols) and ncols.as_long() == len(tgt.elts):
                    val = tuple(self.read(arr, [val.idx, z3.IntVal(c)], f"{val.base}[row,{c}]", st, False)
                                for c in range(len(tgt.elts)))
            if not isinstance(val, tuple) or len(val) != len(tgt.elts):
                raise OutOfSubset("tuple unpack")
            for t, v in zip(tgt.elts, val):
                self.bind(t, v, st, s)
            return
        if isinstance(tgt, ast.Subscript):
            self.store_sub(tgt, to_num(val) if not is_bool(val) else val, st)
            return
        if isinstance(tgt, ast.Attribute):
            txt = unparse(tgt)
            if self.c.assigns is not None and txt not in self.c.assigns and txt in self.class_state():
                # the frame speaks about the object state some contract of this class reads; an attribute no contract
                # knows (e.g. a new cache field) cannot influence any contracted method and is not an alarm
                self.emit("frame", f"{txt}@{self.stmt_label()}", z3.BoolVal(False), st.guard, self.c.props)
            st.vars[txt] = val
            return
        raise OutOfSubset(f"assignment target {ast.unparse(tgt)}")

    def store_sub(self, tgt, val, st):
        if not isinstance(tgt.value, ast.Name):
            raise OutOfSubset("store through expression")
        name = tgt.value.id
        if name in self.__dict__.get("_plain_aliases", ()):
            raise OutOfSubset(f"element store through {name}, which is aliased by a plain assignment of an array")
        base = st.vars.get(name)
        txt = unparse(tgt)
        elts = self.index_list(tgt.slice, st, False, {})
        if isinstance(base, SView):
            arr = st.vars[base.base]
            k = to_num(self.ev(elts[0], st, False, {}))
            k = self.check_index(txt, arr, 1 - base.axis, k, st, False)
            idx = [base.idx, k] if base.axis == 0 else [k, base.idx]
            name = base.base
        elif isinstance(base, SArr):
            arr = base
            if len(elts) != arr.ndim:
                raise OutOfSubset("partial store")
            idx = []
            for d, x in enumerate(elts):
                k = to_num(self.ev(x, st, False, {}))
                idx.append(self.check_index(txt, arr, d, k, st, False))
        else:
            raise OutOfSubset(f"store into {name}")
        if arr.dt is not None:
            self.emit("range", f"{txt}@{self.stmt_label()}", z3.And(arr.dt[0] <= val, val <= arr.dt[1]),
                      st.guard, self.c.arith_props)
        st.vars[name] = self.store(arr, idx, val)
        if name not in self.c.modifies and name in self.c.params and name not in self.ghost_names:
            self.emit("frame", f"{txt}@{self.stmt_label()}", z3.BoolVal(False), st.guard, self.c.props)

    def slice_assign(self, tgt, value, st, s):
        ok = (isinstance(tgt.value, ast.Name) and isinstance(value, ast.Subscript)
              and isinstance(value.value, ast.Name) and value.value.id == tgt.value.id
              and isinstance(value.slice, ast.Slice))
        if not ok:
            raise OutOfSubset(f"slice assignment {ast.unparse(tgt)}")
        name = tgt.value.id
        arr = st.vars[name]
        if not isinstance(arr, SArr) or arr.ndim != 1:
            raise OutOfSubset("slice assignment on non 1-D array")
        n = arr.shape[0]
        ts, vs = tgt.slice, value.slice
        def cst(x, default):
            if x is None:
                return default
            return to_num(self.ev_code(x, st))
        tstep = cst(ts.step, z3.IntVal(1))
        vstep = cst(vs.step, z3.IntVal(1))
        if not (z3.is_int_value(tstep) and tstep.as_long() == 1 and z3.is_int_value(vstep)
                and vstep.as_long() == -1):
            raise OutOfSubset("slice assignment form")
        a = cst(ts.lower, z3.IntVal(0))
        b = cst(ts.upper, n)
        c = cst(vs.lower, None)
        if c is None:
            raise OutOfSubset("reversed slice without start")
        # x[c:d:-1]: elements c, c-1, ..., d+1 (d >= 0 required, otherwise numpy reads the index from the end);
        # x[c::-1]: elements c, ..., 0
        if vs.upper is None:
            cnt = c + 1
            dcond = z3.BoolVal(True)
        else:
            d = cst(vs.upper, None)
            cnt = c - d
            dcond = d >= 0
        lab = f"{unparse(tgt)}@{self.stmt_label(s)}"
        self.flush_guarded(st, s)
        self.emit("bounds", lab, z3.And(0 <= a, a <= b, b <= n, 0 <= c, c < n, dcond, cnt == b - a),
                  st.guard, self.c.bounds_props)
        new = fresh(name, arr.term.sort())
        k = fresh("k")
        self.fact(z3.ForAll([k], z3.Select(new, k) == z3.If(z3.And(a <= k, k < b),
                                                             z3.Select(arr.term, c - (k - a)),
                                                             z3.Select(arr.term, k))), st.guard)
        st.vars[name] = arr.with_term(new)
        if name not in self.c.modifies and name in self.c.params:
            self.emit("frame", lab, z3.BoolVal(False), st.guard, self.c.props)
        return None

    def st_AugAssign(self, s, st):
        node = ast.BinOp(left=s.target, op=s.op, right=s.value)
        ast.copy_location(node, s)
        # the target is evaluated once; our expressions have no effects besides calls, so re-evaluation is safe
        ld = ast.Subscript(value=s.target.value, slice=s.target.slice, ctx=ast.Load()) \
            if isinstance(s.target, ast.Subscript) else ast.Name(id=s.target.id, ctx=ast.Load())
        node.left = ld
        val = self.ev_code(node, st)
        self.flush_guarded(st, s)
        self.bind(s.target, val, st, s)
        return None

    def st_Return(self, s, st):
        v = self.ev_code(s.value, st) if s.value is not None else None
        self.flush_guarded(st, s)
        return self.out(None, ret=[(st, v)])

    def st_Break(self, s, st):
        return self.out(None, brk=[st])

    def st_Continue(self, s, st):
        return self.out(None, cont=[st])

    def st_Raise(self, s, st):
        st.raise_label = f"{self.stmt_label(s)}:{unparse(s.exc)[:40] if s.exc is not None else ''}"
        return self.out(None, rse=[st])

    def st_Assert(self, s, st):
        c = to_bool(self.ev_code(s.test, st))
        self.fact(c, st.guard)
        return None

    def st_If(self, s, st):
        k = self.fs.if_ord[id(s)]
        c = to_bool(self.ev_code(s.test, st))
        self.flush_guarded(st, s)
        key = f"if#{k}"
        if key in self.c.branch_iff:
            cl = self.c.branch_iff[key]
            g = to_bool(self.ev(cl.ast, st, True, self.spec_ctx()))
            self.emit("branch-iff", f"{key}:{cl.label}", c == g, st.guard, cl.props)
            self._seen_keys.add(key)
        s1 = st.copy(zand(st.guard, c))
        s2 = st.copy(zand(st.guard, z3.Not(c)))
        cs = z3.simplify(c)
        # a branch whose condition is syntactically false is dead code for this contract (e.g. a string constant compared
        # with a fixed parameter); it is not executed
        r1 = self.exec_block(s.body, s1) if not z3.is_false(cs) else self.out(None)
        r2 = (self.exec_block(s.orelse, s2) if s.orelse else self.out(s2)) if not z3.is_true(cs) else self.out(None)
        out = self.out(None)
        for kk in ("brk", "cont", "ret", "rse"):
            out[kk] = r1[kk] + r2[kk]
        flat = []
        for nn in (r1["normal"], r2["normal"]):
            if isinstance(nn, list):
                flat.extend(nn)
            elif nn is not None:
                flat.append(nn)
        if key in self.c.split:
            self._seen_keys.add(key)
            out["normal"] = flat if flat else None
        else:
            out["normal"] = self.merge(flat)
        return out

    @staticmethod
    def flat(n):
        if n is None:
            return []
        return list(n) if isinstance(n, list) else [n]

    def merge(self, states):
        states = [x for x in states if x is not None]
        if not states:
            return None
        if len(states) == 1:
            return states[0]
        acc = states[-1].copy()
        for stx in reversed(states[:-1]):
            newv = {}
            for k in set(acc.vars) & set(stx.vars):
                a, b = stx.vars[k], acc.vars[k]
                newv[k] = a if a is b else self.merge_val(stx.guard, a, b)
            acc = State(newv, z3.Or(stx.guard, acc.guard))
        acc.guard = z3.simplify(acc.guard)
        return acc

    # ---- loops
    def loop_spec(self, s) -> tuple:
        ordn = self.fs.loop_ord[id(s)]
        lp = self.c.loops.get(ordn)
        if lp is None:
            lp = S.Loop()
        self.used_loops.add(ordn)
        return ordn, lp

    @staticmethod
    def assigned(stmts):
        names, arrays = set(), set()
        for node in ast.walk(ast.Module(body=list(stmts), type_ignores=[])):
            tg = []
            if isinstance(node, ast.Assign):
                tg = node.targets
            elif isinstance(node, (ast.AnnAssign, ast.AugAssign)):
                tg = [node.target]
            elif isinstance(node, ast.For):
                tg = [node.target]
            for t in tg:
                for x in ast.walk(t):
                    if isinstance(x, ast.Name) and isinstance(x.ctx, ast.Store):
                        names.add(x.id)
                    if isinstance(x, ast.Subscript) and isinstance(x.value, ast.Name):
                        arrays.add(x.value.id)
            if isinstance(node, ast.Call) and isinstance(node.func, ast.Attribute) and node.func.attr in ("fill", "add") \
                    and isinstance(node.func.value, ast.Name):
                arrays.add(node.func.value.id)      # in-place modification through a method call
        return names, arrays

    def ghost_assigned(self, lp, loop_stmt):
        out = set()
        texts = list(lp.ghost_end)
        for sub in ast.walk(loop_stmt):
            key = self.fs.after_key.get(id(sub))
            if key:
                texts.extend(self.c.ghost_code.get(key, []))
        for t in texts:
            node = ast.parse(t.strip()).body[0]
            tg = node.targets[0]
            while isinstance(tg, ast.Subscript):
                tg = tg.value
            out.add(tg.id)
        return out

    def callee_mods(self, stmts):
        mods = set()
        for node in ast.walk(ast.Module(body=list(stmts), type_ignores=[])):
            if isinstance(node, ast.Call) and isinstance(node.func, ast.Name):
                cc = self.contracts.get(f"{self.module}:{node.func.id}") or self.c.opaque.get(node.func.id)
                if cc is not None and node.func.id in (set(self.fs.module_funcs) | set(self.c.opaque)):
                    pn = list(cc.params)
                    for p in cc.modifies:
                        if p not in pn:
                            continue
                        a = node.args[pn.index(p)]
                        if isinstance(a, ast.Name):
                            mods.add(a.id)
                        elif isinstance(a, ast.Attribute):
                            mods.add(unparse(a))
        return mods

    def havoc(self, st: State, names, arrays, lp: S.Loop):
        hv = st.copy()
        for n in names:
            if n in hv.vars:
                v = hv.vars[n]
                if isinstance(v, z3.ExprRef):
                    hv.vars[n] = fresh(n, v.sort())
                elif isinstance(v, tuple):
                    hv.vars[n] = tuple(fresh(n, x.sort()) for x in v)
                elif isinstance(v, SView):
                    hv.vars[n] = SView(v.base, v.axis, fresh(n + "_idx"))     # same array, unknown row/column
                elif isinstance(v, SSlice):
                    hv.vars.pop(n)
                elif isinstance(v, SArr):
                    arrays = set(arrays) | {n}
        for n in arrays:
            v = hv.vars.get(n)
            if isinstance(v, SView):
                n, v = v.base, hv.vars.get(v.base)
            if isinstance(v, SArr):
                hv.vars[n] = v.with_term(fresh(n, v.term.sort()),
                                         fresh(n + "_wr", v.wr.sort()) if v.wr is not None else None)
        return hv

    def inv_ctx(self, at_loop):
        return {"old": self.entry, "at_loop": at_loop}

    def st_For(self, s, st):
        if s.orelse:
            raise OutOfSubset("for-else")
        return self._for(s, st)

    def _for(self, s, st):
        ordn, lp = self.loop_spec(s)
        it = s.iter
        tgt = s.target
        cvar = None      # name bound to the counter
        evar = None      # name bound to the element
        seq = None       # sequence expression (array/view) or None for range
        lo, hi = z3.IntVal(0), None
        if isinstance(it, ast.Call) and isinstance(it.func, ast.Name) and it.func.id == "range":
            a = [to_num(self.ev_code(x, st)) for x in it.args]
            self.flush_guarded(st, s)
            if len(a) == 1:
                hi = a[0]
            elif len(a) == 2:
                lo, hi = a
            else:
                raise OutOfSubset("range with step")
            if not isinstance(tgt, ast.Name):
                raise OutOfSubset("for target")
            cvar = tgt.id
        else:
            if isinstance(it, ast.Call) and isinstance(it.func, ast.Name) and it.func.id == "enumerate":
                seqe = it.args[0]
                if not (isinstance(tgt, ast.Tuple) and len(tgt.elts) == 2):
                    raise OutOfSubset("enumerate target")
                cvar, evar = tgt.elts[0].id, tgt.elts[1].id
            else:
                seqe = it
                if not isinstance(tgt, ast.Name):
                    raise OutOfSubset("for target")
                evar = tgt.id
                cvar = lp.index or f"_k{ordn.replace('.', '_')}"
            seq = self.ev_code(seqe, st)
            self.flush_guarded(st, s)
            if isinstance(seq, SSlice) and isinstance(st.vars.get(seq.base), SArr) and st.vars[seq.base].ndim == 1:
                # iterating a[lo:hi]: Python clamps the (non-negative) bounds to the length of the array
                arr_ = st.vars[seq.base]
                n_ = arr_.shape[0]
                clamp = lambda v: z3.If(v < 0, z3.IntVal(0), z3.If(v > n_, n_, v))     # noqa: E731
                if z3.is_int_value(z3.simplify(seq.lo)) and z3.simplify(seq.lo).as_long() < 0:
                    raise OutOfSubset("iteration over a slice with a negative bound")
                lo = clamp(seq.lo)
                hi_raw = clamp(seq.hi)
                seq, seq_name = arr_, seq.base
                hi = z3.If(hi_raw >= lo, hi_raw, lo)
            elif isinstance(seq, SArr) and seq.ndim == 1:
                hi = seq.shape[0]
                seq_name = seqe.id if isinstance(seqe, ast.Name) else None
            elif isinstance(seq, SView):
                hi = st.vars[seq.base].shape[1 - seq.axis]
                seq_name = None
            elif isinstance(seq, SArr) and seq.ndim == 2 and (isinstance(seqe, ast.Name) or (
                    isinstance(seqe, ast.Attribute) and self.c.attrs.get(unparse(seqe), "").isidentifier()
                    and self.c.attrs[unparse(seqe)] in st.vars)):
                hi = seq.shape[0]           # iterating a matrix yields its rows (views)
                seq_name = seqe.id if isinstance(seqe, ast.Name) else self.c.attrs[unparse(seqe)]
            else:
                raise OutOfSubset("iteration over this value")
        top = z3.If(lo <= hi, hi, lo)
        if lp.range_is is not None:
            rl = to_num(self.ev(ast.parse(lp.range_is[0], mode="eval").body, st, True, self.spec_ctx()))
            rh = to_num(self.ev(ast.parse(lp.range_is[1], mode="eval").body, st, True, self.spec_ctx()))
            self.emit("assert", f"loop{ordn}:range-is", z3.And(lo == rl, hi == rh), st.guard, lp.range_props)
        for gs in lp.ghost_pre:
            self.exec_ghost(gs, st)
        at_loop = dict(st.vars)
        ictx = self.inv_ctx(at_loop)
        # --- inv-init
        s0 = st.copy()
        s0.vars[cvar] = lo
        if evar:
            s0.vars.pop(evar, None)
        for cl in lp.inv:
            g = to_bool(self.ev(cl.ast, s0, True, ictx))
            self.emit("inv-init", f"loop{ordn}:{cl.label}", g, st.guard, cl.props)
        # --- havoc
        names, arrays = self.assigned(s.body)
        arrays |= self.callee_mods(s.body)
        names |= self.ghost_assigned(lp, s)
        names.discard(cvar)
        hv = self.havoc(st, names | ({evar} if evar else set()), arrays, lp)
        k = fresh(cvar)
        hv.vars[cvar] = k
        self.fact(z3.And(lo <= k, k <= top), st.guard)
        self.loop_entries.append(at_loop)
        for cl in lp.inv:
            self.fact(to_bool(self.ev(cl.ast, hv, True, ictx)), st.guard)
        for a in lp.assume:
            self.fact(to_bool(self.ev(ast.parse(a, mode="eval").body, hv, True, ictx)), st.guard)
        # --- one iteration
        body = hv.copy(zand(st.guard, k < hi))
        if evar:
            if isinstance(seq, SArr) and seq.ndim == 2:
                v = SView(seq_name, 0, k)
            elif isinstance(seq, SArr):
                # the sequence is the array as it was when the loop started (numpy iterates over a view;
                # writes to it inside the loop would be visible) -> read the current array if it is a variable
                cur = body.vars.get(seq_name) if seq_name else seq
                cur = cur if isinstance(cur, SArr) else seq
                v = self.sel(cur, [k])
                self.elem_fact(cur, v)
                if cur.wr is not None:
                    self.emit("init", f"for-elem@{self.stmt_label(s)}", self.sel(SArr(cur.wr, cur.shape, None), [k]),
                              body.guard, self.c.props)
            else:
                arr = body.vars[seq.base]
                idx = [seq.idx, k] if seq.axis == 0 else [k, seq.idx]
                v = self.sel(arr, idx)
                self.elem_fact(arr, v)
                if arr.wr is not None:
                    self.emit("init", f"for-elem@{self.stmt_label(s)}", self.sel(SArr(arr.wr, arr.shape, None), idx),
                              body.guard, self.c.props)
            body.vars[evar] = v
        self.emit("cover", f"loop{ordn}:body", z3.BoolVal(True), body.guard, frozenset(), expect="sat")
        self.iter_entries.append(dict(body.vars))
        r = self.exec_block(s.body, body)
        it_env = self.iter_entries.pop()
        ends = [x for x in self.flat(r["normal"]) + r["cont"] if x is not None]
        end = self.merge(ends)
        if end is not None:
            for gs in lp.ghost_end:
                self.exec_ghost(gs, end)
            end.vars[cvar] = k + 1
            if evar:
                end.vars.pop(evar, None)
            extra = self.lemma_instances(lp.lemmas, end, dict(ictx, at_iter=it_env))
            for cl in lp.inv:
                g = to_bool(self.ev(cl.ast, end, True, ictx))
                self.emit("inv-pres", f"loop{ordn}:{cl.label}", g, end.guard, cl.props, extra=extra)
            for cl in lp.iter:
                g = to_bool(self.ev(cl.ast, end, True, dict(ictx, at_iter=it_env)))
                self.emit("iter", f"loop{ordn}:{cl.label}", g, end.guard, cl.props, extra=extra)
        self.loop_entries.pop()
        # --- exit
        ex = hv.copy(zand(st.guard, k >= hi))
        if evar:
            ex.vars.pop(evar, None)
        exits = [ex] + r["brk"]
        out = self.out(self.merge(exits), ret=r["ret"], rse=r["rse"])
        for text in lp.lemmas:
            if "at_iter" in text:
                continue          # two-state lemma instances are only meaningful at the end of an iteration
            for lm in self.lemma_instances([text], out["normal"], ictx):
                self.fact(lm)
        return out

    def st_While(self, s, st):
        if s.orelse:
            raise OutOfSubset("while-else")
        return self._while(s, st)

    def _while(self, s, st):
        ordn, lp = self.loop_spec(s)
        for gs in lp.ghost_pre:
            self.exec_ghost(gs, st)
        at_loop = dict(st.vars)
        ictx = self.inv_ctx(at_loop)
        for cl in lp.inv:
            g = to_bool(self.ev(cl.ast, st, True, ictx))
            self.emit("inv-init", f"loop{ordn}:{cl.label}", g, st.guard, cl.props)
        names, arrays = self.assigned(s.body)
        names |= self.ghost_assigned(lp, s)
        arrays |= self.callee_mods(s.body) | self.callee_mods([ast.Expr(value=s.test)])
        hv = self.havoc(st, names, arrays, lp)
        self.loop_entries.append(at_loop)
        for cl in lp.inv:
            self.fact(to_bool(self.ev(cl.ast, hv, True, ictx)), st.guard)
        for a in lp.assume:
            self.fact(to_bool(self.ev(ast.parse(a, mode="eval").body, hv, True, ictx)), st.guard)
        var0 = None
        if lp.variant:
            var0 = to_num(self.ev(ast.parse(lp.variant, mode="eval").body, hv, True, ictx))
        # evaluate the condition (may have effects) at the loop head
        head = hv.copy()
        self._pending_i64 = []
        it_env = dict(hv.vars)
        c = to_bool(self.ev_code(s.test, head))
        self.flush_guarded(head, s)
        body = head.copy(zand(st.guard, c))
        self.emit("cover", f"loop{ordn}:body", z3.BoolVal(True), body.guard, frozenset(), expect="sat")
        self.iter_entries.append(it_env)
        r = self.exec_block(s.body, body)
        self.iter_entries.pop()
        ends = [x for x in self.flat(r["normal"]) + r["cont"] if x is not None]
        end = self.merge(ends)
        if end is not None:
            for gs in lp.ghost_end:
                self.exec_ghost(gs, end)
            extra = self.lemma_instances(lp.lemmas, end, dict(ictx, at_iter=it_env))
            for cl in lp.inv:
                g = to_bool(self.ev(cl.ast, end, True, ictx))
                self.emit("inv-pres", f"loop{ordn}:{cl.label}", g, end.guard, cl.props, extra=extra)
            if var0 is not None:
                var1 = to_num(self.ev(ast.parse(lp.variant, mode="eval").body, end, True, ictx))
                self.emit("variant", f"loop{ordn}", z3.And(var0 >= 0, var1 < var0), end.guard, self.c.props)
            for cl in lp.iter:
                g = to_bool(self.ev(cl.ast, end, True, dict(ictx, at_iter=it_env)))
                self.emit("iter", f"loop{ordn}:{cl.label}", g, end.guard, cl.props, extra=extra)
        ex = head.copy(zand(st.guard, z3.Not(c)))
        for cl in lp.exit:
            g = to_bool(self.ev(cl.ast, ex, True, dict(ictx, at_iter=it_env)))
            self.emit("exit", f"loop{ordn}:{cl.label}", g, ex.guard, cl.props)
        self.loop_entries.pop()
        return self.out(self.merge([ex] + r["brk"]), ret=r["ret"], rse=r["rse"])

    # ---- lemmas
    def lemma_instances(self, apps, st, ctx):
        """Instantiate proved lemmas explicitly: "name(arg, ...)" -> hyps => concl."""
        out = []
        if st is None:
            return out
        for text in apps:
            call = ast.parse(text.strip(), mode="eval").body
            lm = S.LEMMAS.get(call.func.id)
            if lm is None:
                raise ContractError(f"unknown lemma {call.func.id}")
            args = [self.ev(a, st, True, ctx) for a in call.args]
            # an instance of a proved lemma is a plain fact: spec functions under its binders are matched, never unfolded,
            # so it must not pull the quantified definitional axiom of such a function into every query of this function
            saved = getattr(self, "_suppress_qdef", False)
            self._suppress_qdef = True
            try:
                out.append(self.lemma_formula(lm, args))
            finally:
                self._suppress_qdef = saved
        return out

    def lemma_formula(self, lm: S.Lemma, args):
        env = dict(zip(lm.params, args))
        stx = State(env, z3.BoolVal(True))
        hyps = [to_bool(self.ev(ast.parse(h, mode="eval").body, stx, True, {})) for h in lm.hyps]
        if lm.induct is not None:   # induction establishes the lemma only from the base value upwards
            hyps.append(to_num(env[lm.induct]) >= to_num(self.ev(ast.parse(lm.base, mode="eval").body, stx, True, {})))
        concl = to_bool(self.ev(ast.parse(lm.concl, mode="eval").body, stx, True, {}))
        return z3.Implies(zand(*hyps), concl)

    # ------------------------------------------------------------------ whole function
    def run(self):
        self._pending_i64 = []
        self._unfolded = set()
        self._seen_keys = set()
        self.field_alias = {}
        self._qdefs = set()
        fn = self.fs.node
        args = [a.arg for a in fn.args.args]
        if args and args[0] in ("self", "cls"):
            args = args[1:]
        env = {}
        body = strip_doc(fn.body)
        if self.c.block is not None:
            # Hoare triple on a contiguous block of the function's statements: inputs are the contract's params
            k0, k1 = "after " + self.c.block[0], "after " + self.c.block[1]

            def find(stmts):       # the statement list (at any nesting depth) that contains the block
                keys = [self.fs.after_key.get(id(s_)) for s_ in stmts]
                if k0 in keys and k1 in keys and keys.index(k0) <= keys.index(k1):
                    return stmts[keys.index(k0):keys.index(k1) + 1]
                for s_ in stmts:
                    for fld in ("body", "orelse", "finalbody"):
                        sub = getattr(s_, fld, None)
                        if isinstance(sub, list) and sub and isinstance(sub[0], ast.stmt):
                            got = find(sub)
                            if got is not None:
                                return got
                return None
            body = find(body)
            if body is None:
                raise ContractError(f"{self.fs.qualname}: block {self.c.block} not found as a contiguous statement sequence")
            self.block_mode = True
            for a, t in self.c.params.items():
                env[a] = self.mk_param(a.replace(".", "_"), t)
            args = list(self.c.params)
        for a in args:
            if a in env:
                continue
            if a not in self.c.params:
                raise ContractError(f"{self.fs.qualname}: parameter {a} has no type in the contract")
            env[a] = self.mk_param(a, self.c.params[a])
        for a in self.c.params:
            if a not in args:
                raise ContractError(f"{self.fs.qualname}: contract names parameter {a} that does not exist")
        for g, t in self.c.ghosts.items():
            env[g] = self.mk_param(g, t)
            self.ghost_names.add(g)
        for dn in self.c.dtypes:
            self.dtype(dn)
        for fld, t in self.c.fields.items():
            env[fld] = self.mk_param(fld.replace(".", "_"), t)
        st = State(env, z3.BoolVal(True))
        self.entry = dict(env)
        nreq = len(self.facts)
        for cl in self.c.requires:
            self.fact(to_bool(self.ev(cl.ast, st, True, {"old": self.entry})))
        # vacuity: the pre-condition must not be contradictory
        self.emit("cover", "pre", z3.BoolVal(True), None, frozenset(), expect="sat")
        for lm in self.lemma_instances(self.c.lemmas_at.get("entry", []), st, {"old": self.entry}):
            self.fact(lm)
        self._seen_keys.update(("entry", "post"))
        r = self.exec_block(body, st)
        rets = list(r["ret"])
        for nn in self.flat(r["normal"]):
            rets.append((nn, None))
        if getattr(self, "block_mode", False):
            # a block nested in a loop may also be left by `break` / `continue`: the Hoare triple covers those exits too
            for nn in list(r["brk"]) + list(r["cont"]):
                if nn is not None:
                    rets.append((nn, None))
        for n, (rs, rv) in enumerate(rets):
            # vacuity: the hypotheses collected on the way to this return must not be contradictory
            self.emit("cover", f"ret{n}", z3.BoolVal(True), rs.guard, frozenset(), expect="sat")
            ctx = {"old": self.entry, "result": rv}
            for gname, gt in self.c.ghost_results.items():
                if gname not in rs.vars:      # a local that does not exist on this return path: arbitrary
                    rs.vars[gname] = self.mk_param(f"{gname}_undef!{next(_fresh)}", gt)
            extra = self.lemma_instances(self.c.lemmas_at.get("post", []), rs, ctx)
            for cl in self.c.ensures:
                g = to_bool(self.ev(cl.ast, rs, True, ctx))
                self.emit("post", f"ret{n}:{cl.label}", g, rs.guard, cl.props, extra=extra)
            for cl in self.c.must_fail:
                g = to_bool(self.ev(cl.ast, rs, True, ctx))
                self.emit("must_fail", f"ret{n}:{cl.label}", g, rs.guard, frozenset(), expect="fail")
        self.raise_states = r["rse"]
        if self.c.no_raise:
            for n_, rs in enumerate(r["rse"]):
                self.emit("noraise", f"raise{n_}@{getattr(rs, 'raise_label', '?')}", z3.Not(rs.guard), None, self.c.props)
        if self.c.raises_iff is not None:
            cond = to_bool(self.ev(ast.parse(self.c.raises_iff, mode="eval").body, State(self.entry, None), True, {}))
            rg = z3.Or(*[x.guard for x in r["rse"]]) if r["rse"] else z3.BoolVal(False)
            self.emit("post", "raises-iff", rg == cond, None, self.c.props)
        # contract maintenance: every loop / attachment key named by the contract must exist
        for k in self.c.loops:
            if k not in self.used_loops:
                raise ContractError(f"{self.fs.qualname}: contract names loop {k} that does not exist")
        for k in list(self.c.asserts) + list(self.c.ghost_code) + list(self.c.branch_iff) + list(self.c.lemmas_at) \
                + list(self.c.summaries) + list(self.c.split):
            if k not in self._seen_keys:
                raise ContractError(f"{self.fs.qualname}: contract attaches to {k!r} which does not exist")
        return self.obls


SPEC_CONSTS: dict = {}


def _guard_is_true(self):
    return z3.is_true(self.guard)


State.guard_is_true = _guard_is_true


class LemmaEngine(Engine):
    """Proves declared lemmas (optionally by induction) from the recursive spec definitions.
    A proved lemma is only ever *applied explicitly* (Engine.lemma_instances)."""

    def __init__(self, consts=None):
        fs = FnSource("lemmas", "", None, "", "")
        fs.consts = dict(consts or {})
        super().__init__("lemmas", S.Contract("lemmas", {}), fs=fs)
        self._pending_i64 = []
        self._unfolded = set()
        self._seen_keys = set()
        self.field_alias = {}
        self._qdefs = set()
        self.assumed = []

    def mk(self, name, ty):
        if ty == "int":
            return z3.Int("L_" + name)
        if ty == "bool":
            return z3.Bool("L_" + name)
        nd = 1 if ty.startswith("arr1") else 2
        elem = "real" if ty.endswith("r") else "int"
        return SArr(z3.Const("L_" + name, asort(nd, elem)), tuple(z3.Int(f"L_{name}_n{d}") for d in range(nd)),
                    None, elem)

    def prove(self, lm: S.Lemma, props):
        """-> obligations lemma:<name>:base / :step (or :direct)."""
        env = {p: self.mk(p, t) for p, t in lm.params.items()}
        st = State(env, z3.BoolVal(True))
        P = lambda text, stx: to_bool(self.ev(ast.parse(text, mode="eval").body, stx, True, {}))
        def uses(stx):
            fs_ = []
            for u in lm.uses:
                call = ast.parse(u.strip(), mode="eval").body
                other = S.LEMMAS[call.func.id]
                args = [self.ev(a, stx, True, {}) for a in call.args]
                fs_.append(self.lemma_formula(other, args))
            return fs_
        self.fs.qualname = "lemma"
        if lm.induct is None:
            n0 = len(self.facts)
            hy = [P(h, st) for h in lm.hyps] + uses(st)
            goal = P(lm.concl, st)
            self.emit("lemma", f"{lm.name}:direct", z3.Implies(zand(*hy), goal), None, props)
            return
        v = lm.induct
        basev = to_num(self.ev(ast.parse(lm.base, mode="eval").body, st, True, {}))
        # base: v == base
        sb = State(dict(env), z3.BoolVal(True))
        sb.vars[v] = basev
        hy = [P(h, sb) for h in lm.hyps] + uses(sb)
        self.emit("lemma", f"{lm.name}:base", z3.Implies(zand(*hy), P(lm.concl, sb)), None, props)
        # step: v > base, IH at v-1
        sp = State(dict(env), z3.BoolVal(True))
        sp.vars[v] = env[v] - 1
        ih = z3.Implies(zand(*[P(h, sp) for h in lm.hyps]), P(lm.concl, sp))
        hy = [env[v] > basev, ih] + [P(h, st) for h in lm.hyps] + uses(st) + uses(sp)
        self.emit("lemma", f"{lm.name}:step", z3.Implies(zand(*hy), P(lm.concl, st)), None, props)


def prove_lemmas(names, props, consts=None):
    eng = LemmaEngine(consts)
    done = set()
    def rec(n):
        if n in done:
            return
        done.add(n)
        lm = S.LEMMAS[n]
        if lm.assumed:
            eng.assumed.append(f"axiom {lm.name}: {lm.note}")
            return
        for u in lm.uses:
            rec(ast.parse(u.strip(), mode="eval").body.func.id)
        eng.prove(lm, frozenset(props.split()) if isinstance(props, str) else props)
    for n in names:
        rec(n)
    for o in eng.obls:
        o.eng = eng
    return eng, eng.obls
