"""Re-check the Lean 4 / Mathlib lemmas that the SMT proofs use as axioms (thorough tier only: a cold `import Mathlib`
takes about 2.5 minutes)."""
import os
import subprocess
import time

from .floatsym import Res

ROOT = os.path.dirname(os.path.dirname(os.path.abspath(__file__)))


def lean_prover(files, props):
    def run(tier, seed):
        if tier != "thorough":
            return []
        out = []
        for f in files:
            t0 = time.time()
            path = os.path.join(ROOT, "lean", f)
            try:
                p = subprocess.run(["lean", path], capture_output=True, text=True, timeout=1800)
                txt = (p.stdout + p.stderr).strip()
                ok = p.returncode == 0 and "sorry" not in txt and "error" not in txt
                res = "proved" if ok else "undecided"
            except Exception as ex:       # lean missing / timeout: not a verdict about the code
                txt, res = repr(ex), "undecided"
            out.append(Res(f"lean/{f}", "lemma", "accepted-by-lean-4-without-sorry", frozenset(props.split()), res,
                           backend="lean4+mathlib", time=time.time() - t0, reason=txt[:300]))
        return out
    return run
