#!/usr/bin/env bash
# Build /verif/.venv offline: Python 3.12 + z3-solver + cvc5 + jsonschema (+ icontract, deal, sympy),
# with /venv's site-packages (numpy 1.26, numba, scipy, moptipy, moptipyapps -> /repo) visible via a .pth.
set -euo pipefail
cd "$(dirname "$0")"
V=.venv
if [ -x "$V/bin/python" ] && "$V/bin/python" -c "import z3, jsonschema, numpy, numba, moptipyapps" 2>/dev/null; then
  exit 0
fi
rm -rf "$V"
PY=/root/.pyenv/versions/3.12.1/bin/python
[ -x "$PY" ] || PY=/venv/bin/python
"$PY" -m venv "$V"
export PIP_NO_INDEX=1 PIP_DISABLE_PIP_VERSION_CHECK=1
"$V/bin/pip" install -q --no-index --no-deps --find-links /opt/veriftools/wheels \
  z3-solver cvc5 jsonschema jsonschema_specifications referencing rpds_py attrs typing_extensions \
  icontract asttokens six sympy mpmath deal
SP=$("$V/bin/python" -c "import site; print(site.getsitepackages()[0])")
echo "import site; site.addsitedir('/venv/lib/python3.12/site-packages')" > "$SP/zz_repo_venv.pth"
"$V/bin/python" -c "import z3, jsonschema, numpy, numba, moptipyapps, sympy; print('venv ok', z3.get_version_string(), numpy.__version__, moptipyapps.__file__)"
