#!/usr/bin/env bash
# before a commit: regenerate evidence on the unchanged tree, validate it, regenerate MANIFEST.json and the DESIGN tables
cd "$(dirname "$0")/.."
[ -z "$(git -C /repo status --short)" ] || { echo "/repo working tree is not clean"; exit 1; }
tools/run_all.sh "$@" | tee /tmp/run_all.last | cut -c1-160
grep -v " rc=0 " /tmp/run_all.last && { echo "NOT ALL GREEN"; exit 1; }
.venv/bin/python - <<'PY' || exit 1
import glob, json, sys
import jsonschema
sch = json.load(open('/root/.vp/EVIDENCE.schema.json'))
bad = 0
for f in sorted(glob.glob('evidence/*.json')):
    e = json.load(open(f))
    try:
        jsonschema.validate(e, sch)
    except Exception as ex:
        print(f, "INVALID", str(ex)[:200]); bad += 1
    c = e['coverage']
    if c['obligations'] != c['discharged'] or e['violations']:
        print("NOT CLEAN", f); bad += 1
sys.exit(1 if bad else 0)
PY
.venv/bin/python tools/gen_manifest.py && .venv/bin/python tools/gen_design.py
.venv/bin/python -c "import json,jsonschema;jsonschema.validate(json.load(open('MANIFEST.json')), json.load(open('/root/.vp/MANIFEST.schema.json')));print('manifest valid')"
git status --short | head -20
