import json, os, shutil, sys
ROOT="/verif"
for arg in sys.argv[1:]:
    rnd, pid = arg.split(":")
    src=f"/tmp/seeded{rnd}/{pid}"
    rep=json.load(open(src+"/verified_by_us.json"))
    ok = rep.get("demo_unchanged_exit")==0 and rep.get("demo_changed_exit") not in (0,None) and rep.get("tests_exit")==0
    if not ok:
        print("NOT OK", arg, rep); continue
    meta=json.load(open(src+"/meta.json"))
    meta["verified_by_us"]=rep
    dst=f"{ROOT}/seeded/{pid}_{rnd}"
    os.makedirs(dst,exist_ok=True)
    shutil.copy(src+"/patch.diff",dst+"/patch.diff"); shutil.copy(src+"/demo.py",dst+"/demo.py")
    json.dump(meta,open(dst+"/meta.json","w"),indent=1)
    print("kept",dst)
