#!/usr/bin/env python3
"""Regenerate the generated tables of DESIGN.md section 9 (between <!-- BEGIN:x --> / <!-- END:x --> markers) from
evidence/*.json, mutants/last_results.json + mutants/catalog.json and seeded/*/meta.json."""
import glob
import json
import os
import re
import sys

ROOT = os.path.dirname(os.path.dirname(os.path.abspath(__file__)))
sys.path.insert(0, ROOT)


def short_obl(lines):
    """first reported obligations of a check run, shortened"""
    obs = []
    for ln in lines:
        ln = ln.strip()
        if ln.startswith("obligation:"):
            o = ln.split("obligation:", 1)[1].strip()
            o = re.sub(r"^moptipyapps\.", "", o)
            if len(o) > 110:
                o = o[:107] + "..."
            if o not in obs:
                obs.append(o)
    return obs


def table_91():
    import plans
    rows = ["| id | level | functions under contract | obligations (all discharged) | by kind | bounded evaluations | solver time | known findings |",
            "|----|-------|-------------------------:|-----------------------------:|---------|--------------------:|------------:|---------------:|"]
    for f in sorted(glob.glob(os.path.join(ROOT, "evidence", "C*.json"))):
        e = json.load(open(f))
        c = e["coverage"]
        kinds = {}
        for fi in c.get("functions", []):
            for k, v in (fi.get("by_kind") or {}).items():
                if k not in ("cover", "must_fail"):
                    kinds[k] = kinds.get(k, 0) + v
        ks = ", ".join(f"{k} {v}" for k, v in sorted(kinds.items(), key=lambda kv: -kv[1])[:7])
        ev = c.get("evaluations", "")
        if not ev and c.get("bounded"):
            ev = sum(b.get("evaluations", 0) for b in c["bounded"] if isinstance(b, dict))
        kf = c.get("known_findings_hit", 0)
        kf = len(kf) if isinstance(kf, list) else kf
        rows.append(f"| {e['property_id']} | {e['level']} | {len(c.get('functions', []))} | {c['discharged']}/{c['obligations']} | "
                    f"{ks} | {ev if ev else '-'} | {c.get('solver_time_s', 0)} s | {kf} |")
    rows.append("")
    rows.append("What the obligations of each property say (the `explanation` of its plan, as written into the evidence file):")
    rows.append("")
    for pid in sorted(plans.PLANS):
        rows.append(f"* **{pid}** - {plans.PLANS[pid].explanation}")
    return "\n".join(rows)


def table_92():
    path = os.path.join(ROOT, "mutants", "last_results.json")
    if not os.path.exists(path):
        return "(no results yet)"
    cat = {m["id"]: m for m in json.load(open(os.path.join(ROOT, "mutants", "catalog.json")))}
    rows = ["| change (id: file) | edit | expected | result | first reporting obligation |",
            "|-------------------|------|----------|--------|-----------------------------|"]
    for r in json.load(open(path)):
        m = cat.get(r["id"])
        if m is None or "verdict" not in r:
            continue

        def one(t):
            t = " ".join(t.split())
            return (t[:60] + "...") if len(t) > 63 else t
        edit = f"`{one(m['old'])}` -> `{one(m['new'])}`".replace("|", "\\|")
        exp = ", ".join([f"breaks {p}" for p in m.get("breaks", [])] + [f"keeps {p}" for p in m.get("keeps", [])]
                        + [f"benign for {p}" for p in m.get("benign", [])])
        res = ", ".join(f"{p}: {v}" for p, v in r["verdict"].items())
        obs = []
        for pid in m.get("breaks", []):
            obs += short_obl(r["checks"][pid]["lines"])[:1]
        rows.append(f"| {r['id']}: {os.path.basename(m['file'])} | {edit} | {exp} | {res} | {'; '.join(obs).replace('|', chr(92) + '|') or '-'} |")
    return "\n".join(rows)


def table_95():
    rows = ["| seeded change | property | what was changed (author's summary, shortened) | our checks (exit) | reporting obligations |",
            "|---------------|----------|-----------------------------------------------|-------------------|-----------------------|"]
    for d in sorted(glob.glob(os.path.join(ROOT, "seeded", "*"))):
        mp = os.path.join(d, "meta.json")
        if not os.path.exists(mp):
            continue
        m = json.load(open(mp))
        summ = " ".join(m.get("summary", "").split())
        summ = (summ[:230] + "...") if len(summ) > 233 else summ
        oc = m.get("our_checks", {})
        ex = ", ".join(f"{k}: {v['exit']}" for k, v in oc.items())
        obs = short_obl(oc.get(m["property"], {}).get("lines", []))[:2]
        nf = any("no-failing-input-found" in ln for ln in oc.get(m["property"], {}).get("lines", []))
        rp = any(ln.startswith("VIOLATION") and "no-failing-input-found" not in ln for ln in oc.get(m["property"], {}).get("lines", []))
        how = "replayed input" if rp else ("solver refutation, no failing input found" if nf else "")
        rows.append(f"| {os.path.basename(d)} | {m['property']} | {summ.replace('|', chr(92) + '|')} | {ex} | "
                    f"{'; '.join(obs).replace('|', chr(92) + '|')}{' (' + how + ')' if how else ''} |")
    return "\n".join(rows)


def main():
    p = os.path.join(ROOT, "DESIGN.md")
    s = open(p).read()
    for key, fn in (("9.1", table_91), ("9.2", table_92), ("9.5", table_95)):
        b, e = f"<!-- BEGIN:{key} -->", f"<!-- END:{key} -->"
        if b in s and e in s:
            s = s[:s.index(b) + len(b)] + "\n" + fn() + "\n" + s[s.index(e):]
        else:
            print("marker missing:", key)
    open(p, "w").write(s)


if __name__ == "__main__":
    main()
