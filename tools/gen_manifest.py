#!/usr/bin/env python3
"""Regenerate MANIFEST.json from plans.PLANS / plans.META / plans.NOT_APPLICABLE and validate it."""
import json
import os
import sys

ROOT = os.path.dirname(os.path.dirname(os.path.abspath(__file__)))
sys.path.insert(0, ROOT)
import plans  # noqa: E402

BASE = "cd /repo && /venv/bin/python -m pytest -ra -q -p no:cacheprovider --timeout=900 --continue-on-collection-errors"
m = {
    "version": 1,
    "setup_cmd": "./setup.sh",
    "hooks": {
        "guard": "MOPTIPYAPPS_VERIF",
        "enable": "none needed: contracts are sidecar files under /verif/contracts; the real functions are extracted "
                  "from /repo's working tree by AST on every run; no instrumentation commits exist",
        "baseline_off_cmd": BASE, "source_commits": [], "add_only": True},
    "engines": [{"name": "pyvc", "path": "pyvc/", "serves_properties": sorted(plans.PLANS),
                 "kind_free_text": "VC generator (Python AST of real functions + sidecar contracts -> z3/cvc5), lemma "
                                   "prover by induction, concrete contract interpreter for replays, bounded run-time monitors"}],
    "checks": [],
    "notes": "exit codes of ./check: 0 held, 1 violation (VIOLATION line), 2 undecided, 3 checker fault; see DESIGN.md",
    "not_applicable": plans.NOT_APPLICABLE,
}
for pid in sorted(plans.PLANS):
    p = plans.PLANS[pid]
    meta = plans.META[pid]
    m["checks"].append({
        "property_id": pid,
        "quick_cmd": f"./check {pid} --tier quick",
        "thorough_cmd": f"./check {pid} --tier thorough",
        "evidence_file": f"/verif/evidence/{pid}.json",
        "replay_cmd_template": f"./check {pid} --replay {{path}}",
        "engine": "pyvc",
        "level_claimed": {"category": p.level, "text": meta["text"], "design_ref": meta.get("design_ref", f"DESIGN.md section 4 {pid}")},
        "level_note": meta["note"],
        "technique": meta["technique"],
    })
claimed = set(plans.PLANS)
na = {x["property_id"] for x in plans.NOT_APPLICABLE}
allp = {json.loads(l)["id"] for l in open(os.path.join(ROOT, "properties.jsonl"))}
assert claimed | na == allp and not (claimed & na), (sorted(allp - claimed - na), sorted(claimed & na))
import jsonschema  # noqa: E402
jsonschema.validate(m, json.load(open("/root/.vp/MANIFEST.schema.json")))
json.dump(m, open(os.path.join(ROOT, "MANIFEST.json"), "w"), indent=1)
print("MANIFEST.json written:", len(m["checks"]), "checks,", len(m["not_applicable"]), "not applicable")
