#!/usr/bin/env python3
"""Verify an independently written breaking change and run our check against it.
usage: tools/seeded.py <dir with patch.diff, demo.py, meta.json> <name under /verif/seeded> [extra property ids]
 1. scratch worktree of /repo HEAD: demo must exit 0 unchanged, non-zero with the patch; the tests of the touched
    sub-packages must pass with the patch;
 2. apply the patch to /repo, run ./check <property> (and extras), undo;
 3. copy patch/demo/meta (+ our results) to /verif/seeded/<name>/."""
import json
import os
import shutil
import subprocess
import sys
import tempfile

ROOT = os.path.dirname(os.path.dirname(os.path.abspath(__file__)))


def sh(cmd, cwd=None, env=None, timeout=3600):
    p = subprocess.run(cmd, shell=True, cwd=cwd, env=env, capture_output=True, text=True, timeout=timeout)
    return p.returncode, (p.stdout + p.stderr)


def main():
    phase = os.environ.get("SEEDED_PHASE", "both")
    src, name = sys.argv[1], sys.argv[2]
    meta = json.load(open(os.path.join(src, "meta.json")))
    pid = meta["property"]
    pids = [pid] + sys.argv[3:]
    patch = os.path.join(src, "patch.diff")
    repfile = os.path.join(src, "verified_by_us.json")
    report = {}
    if phase == "check" and os.path.exists(repfile):
        report = json.load(open(repfile))
    wt = tempfile.mkdtemp(prefix="seedwt_", dir="/tmp")
    os.rmdir(wt)
    if phase != "check" or not report:
        rc, out = sh(f"git -C /repo worktree add -q {wt} HEAD")
    env = dict(os.environ, PYTHONPATH=wt, NUMBA_CACHE_DIR=os.path.join(wt, ".nbcache"))
    try:
        if phase == "check" and report:
            raise StopIteration
        rc0, o0 = sh(f"/venv/bin/python {os.path.join(src, 'demo.py')}", cwd=wt, env=env, timeout=1800)
        rca, oa = sh(f"git -C {wt} apply {patch}")
        if rca != 0:
            print("PATCH DOES NOT APPLY", oa)
            return 2
        rc1, o1 = sh(f"/venv/bin/python {os.path.join(src, 'demo.py')}", cwd=wt, env=env, timeout=1800)
        _, files = sh(f"git -C {wt} diff --name-only")
        files = files.split()
        pkgs = sorted({f.split("/")[1] for f in files if f.startswith("moptipyapps/") and len(f.split("/")) > 2})
        tests = " ".join(f"tests/{p}" for p in pkgs if os.path.isdir(os.path.join(wt, "tests", p)))
        doct = " ".join(files)
        # tests/binpacking2d/test_make_instances.py needs the network and fails on the unchanged tree too (BASELINE always_fail)
        rct, ot = sh(f"/venv/bin/python -m pytest -q -p no:cacheprovider --timeout=1500 {tests} --doctest-modules {doct} "
                     "--deselect tests/binpacking2d/test_make_instances.py::test_make_instances",
                     cwd=wt, env=env, timeout=5400)
        report.update({"demo_unchanged_exit": rc0, "demo_changed_exit": rc1, "demo_changed_output": o1[-600:],
                       "tests_command": f"pytest {tests} --doctest-modules {doct}", "tests_exit": rct,
                       "tests_tail": ot.strip().splitlines()[-1] if ot.strip() else ""})
        print(f"demo unchanged rc={rc0}  changed rc={rc1}  tests rc={rct} ({report['tests_tail']})")
        json.dump(report, open(repfile, "w"), indent=1)
    except StopIteration:
        print(f"(verified earlier: demo {report.get('demo_unchanged_exit')}/{report.get('demo_changed_exit')} tests rc={report.get('tests_exit')})")
    finally:
        if os.path.isdir(wt):
            sh(f"git -C /repo worktree remove --force {wt}")
    if phase == "verify":
        return 0
    ok = report.get("demo_unchanged_exit") == 0 and report.get("demo_changed_exit") not in (0, None) and report.get("tests_exit") == 0
    # --- our checks against it
    bak = tempfile.mkdtemp(prefix="evid_bak_")
    shutil.copytree(os.path.join(ROOT, "evidence"), os.path.join(bak, "evidence"))
    results = {}
    try:
        rc, out = sh(f"git -C /repo apply {patch}")
        if rc != 0:
            print("cannot apply to /repo", out)
            return 2
        for p in pids:
            rc, out = sh(f"./check {p}", cwd=ROOT, timeout=3600)
            lines = [ln for ln in out.splitlines() if ln.startswith(("VIOLATION", "UNDECIDED", "CHECKER", "OK")) or "obligation:" in ln]
            results[p] = {"exit": rc, "lines": lines[:6]}
            print(f"check {p}: rc={rc}  " + " | ".join(lines[:3])[:300])
    finally:
        sh("git -C /repo checkout -- .")
        shutil.rmtree(os.path.join(ROOT, "evidence"), ignore_errors=True)
        shutil.copytree(os.path.join(bak, "evidence"), os.path.join(ROOT, "evidence"))
        shutil.rmtree(bak, ignore_errors=True)
        shutil.rmtree(os.path.join(ROOT, "replays"), ignore_errors=True)
    _, st = sh("git -C /repo status --short")
    assert not st.strip(), st
    if ok:
        dst = os.path.join(ROOT, "seeded", name)
        os.makedirs(dst, exist_ok=True)
        shutil.copy(patch, os.path.join(dst, "patch.diff"))
        shutil.copy(os.path.join(src, "demo.py"), os.path.join(dst, "demo.py"))
        meta["verified_by_us"] = report
        meta["our_checks"] = results
        json.dump(meta, open(os.path.join(dst, "meta.json"), "w"), indent=1)
        print("kept as", dst)
    else:
        print("NOT KEPT (demo/tests conditions not met):", report)
    return 0


if __name__ == "__main__":
    sys.exit(main())
