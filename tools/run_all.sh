#!/usr/bin/env bash
# run every registered quick check on the current tree (regenerates evidence/*.json); prints one line per property
cd "$(dirname "$0")/.."
ids=$(.venv/bin/python -c "import json;print(' '.join(c['property_id'] for c in json.load(open('MANIFEST.json'))['checks']))")
for p in ${@:-$ids}; do
  out=$(./check $p --tier ${TIER:-quick} 2>&1); rc=$?
  echo "$p rc=$rc $(echo "$out" | grep -E '^(OK|VIOLATION|UNDECIDED|CHECKER)' | head -2 | tr '\n' ' ' | cut -c1-220)"
done
