#!/usr/bin/env python3
"""Mutation self-test: apply each catalogued edit to /repo (working tree), run the checks of the
properties it should break, undo the edit.  Usage: tools/mutate.py [id-prefix ...] [--all-props]"""
import json
import os
import subprocess
import sys
import time

ROOT = os.path.dirname(os.path.dirname(os.path.abspath(__file__)))
REPO = "/repo"
ENV = dict(os.environ)


def run_check(pid):
    t = time.time()
    p = subprocess.run([os.path.join(ROOT, "check"), pid], capture_output=True, text=True, cwd=ROOT, env=ENV)
    first = [ln for ln in p.stdout.splitlines() if ln.startswith(("VIOLATION", "UNDECIDED", "CHECKER", "OK", "KNOWN"))]
    ob = [ln.strip() for ln in p.stdout.splitlines() if ln.strip().startswith("obligation:")]
    return p.returncode, (first[:2] + ob[:1]), time.time() - t


def main():
    import shutil
    import tempfile
    global REPO
    if "--scratch" in sys.argv:
        # work on a scratch worktree of /repo's HEAD and write evidence/replays elsewhere, so that /repo and
        # /verif/evidence stay untouched and other checks can run meanwhile
        wt = tempfile.mkdtemp(prefix="mut_wt_")
        out = tempfile.mkdtemp(prefix="mut_out_")
        subprocess.run(["git", "-C", "/repo", "worktree", "add", "--detach", "-f", wt, "HEAD"], check=True,
                       capture_output=True)
        REPO = wt
        ENV.update(VERIF_REPO=wt, VERIF_OUT=out, PYTHONPATH=wt)
        try:
            _main()
        finally:
            subprocess.run(["git", "-C", "/repo", "worktree", "remove", "--force", wt])
            subprocess.run(["git", "-C", "/repo", "worktree", "prune"])
            shutil.rmtree(out, ignore_errors=True)
        return
    # evidence files must always come from runs on the unchanged tree: save them and put them back
    bak = tempfile.mkdtemp(prefix="evid_bak_")
    shutil.copytree(os.path.join(ROOT, "evidence"), os.path.join(bak, "evidence"))
    try:
        _main()
    finally:
        shutil.rmtree(os.path.join(ROOT, "evidence"), ignore_errors=True)
        shutil.copytree(os.path.join(bak, "evidence"), os.path.join(ROOT, "evidence"))
        shutil.rmtree(bak, ignore_errors=True)
        shutil.rmtree(os.path.join(ROOT, "replays"), ignore_errors=True)


def _main():
    cat = json.load(open(os.path.join(ROOT, "mutants", "catalog.json")))
    sel = [a for a in sys.argv[1:] if not a.startswith("--")]
    res = []
    for m in cat:
        if sel and not any(m["id"].startswith(s) for s in sel):
            continue
        path = os.path.join(REPO, m["file"])
        src = open(path).read()
        if src.count(m["old"]) != 1:
            print(f"{m['id']}: pattern occurs {src.count(m['old'])} times - skipped")
            continue
        try:
            open(path, "w").write(src.replace(m["old"], m["new"]))
            for pid in m["breaks"]:
                rc, lines, dt = run_check(pid)
                verdict = "CAUGHT" if rc == 1 else ("undecided" if rc == 2 else ("FAULT" if rc == 3 else "MISSED"))
                print(f"{m['id']:28s} {pid} rc={rc} {verdict:9s} {dt:5.1f}s  {' | '.join(lines)[:200]}")
                res.append((m["id"], pid, rc))
            for pid in m.get("keeps", []):
                rc, lines, dt = run_check(pid)
                verdict = "quiet-ok" if rc == 0 else f"FALSE-ALARM rc={rc}"
                print(f"{m['id']:28s} {pid} rc={rc} {verdict:9s} {dt:5.1f}s  {' | '.join(lines)[:200]}")
        finally:
            open(path, "w").write(src)
    subprocess.run(["git", "-C", REPO, "status", "--short"])


if __name__ == "__main__":
    main()
