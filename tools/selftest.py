#!/usr/bin/env python3
"""Parallel self-test of the checks against changed copies of the repository.

Every job (a catalogue mutant or a seeded patch) gets a scratch git worktree of /repo's HEAD outside /repo and /verif;
the checks are pointed at it with VERIF_REPO / VERIF_OUT (self-test overrides of pyvc.check), so /repo, evidence/ and
replays/ stay untouched.  Results: mutants/last_results.json, seeded/<id>/meta.json["our_checks"].

usage: tools/selftest.py [--jobs N] [--mutants [id-prefix ...]] [--seeded [name ...]]
"""
import json
import os
import shutil
import subprocess
import sys
import tempfile
import time
from concurrent.futures import ThreadPoolExecutor

ROOT = os.path.dirname(os.path.dirname(os.path.abspath(__file__)))
KEEP = ("VIOLATION", "UNDECIDED", "CHECKER", "OK", "KNOWN")


def run_checks(wt, out, pids):
    env = dict(os.environ, VERIF_REPO=wt, VERIF_OUT=out, PYTHONPATH=wt)
    res = {}
    for pid in pids:
        t = time.time()
        p = subprocess.run([os.path.join(ROOT, "check"), pid], capture_output=True, text=True, cwd=ROOT, env=env)
        lines = []
        for ln in p.stdout.splitlines():
            if ln.startswith(KEEP) or ln.strip().startswith("obligation:"):
                lines.append(ln.replace(out, "<out>").replace(wt, "<repo>"))
        res[pid] = {"exit": p.returncode, "lines": lines[:8], "seconds": round(time.time() - t, 1)}
    return res


def with_worktree(fn):
    wt = tempfile.mkdtemp(prefix="selftest_wt_", dir="/tmp")
    os.rmdir(wt)
    out = tempfile.mkdtemp(prefix="selftest_out_", dir="/tmp")
    subprocess.run(["git", "-C", "/repo", "worktree", "add", "--detach", "-f", wt, "HEAD"], check=True, capture_output=True)
    try:
        return fn(wt, out)
    finally:
        subprocess.run(["git", "-C", "/repo", "worktree", "remove", "--force", wt], capture_output=True)
        shutil.rmtree(out, ignore_errors=True)


def job_mutant(m):
    def go(wt, out):
        path = os.path.join(wt, m["file"])
        src = open(path).read()
        if src.count(m["old"]) != 1:
            return {"id": m["id"], "skipped": f"pattern occurs {src.count(m['old'])} times"}
        open(path, "w").write(src.replace(m["old"], m["new"]))
        r = run_checks(wt, out, list(m.get("breaks", [])) + list(m.get("keeps", [])) + list(m.get("benign", [])))
        verdict = {}
        for pid in m.get("breaks", []):
            verdict[pid] = {1: "CAUGHT", 2: "undecided", 3: "FAULT", 0: "MISSED"}.get(r[pid]["exit"], "?")
        for pid in m.get("keeps", []):
            verdict[pid] = "quiet" if r[pid]["exit"] == 0 else f"FALSE-ALARM rc={r[pid]['exit']}"
        for pid in m.get("benign", []):
            # a behaviour-preserving refactoring: no alarm (exit 1) and no checker fault (exit 3); exit 2 = the contract
            # no longer attaches (e.g. a renamed local) and says so
            verdict[pid] = {0: "quiet", 2: "quiet(undecided)"}.get(r[pid]["exit"], f"FALSE-ALARM rc={r[pid]['exit']}")
        return {"id": m["id"], "file": m["file"], "verdict": verdict, "checks": r, "note": m.get("note", "")}
    rec = with_worktree(go)
    print(rec["id"], rec.get("verdict", rec.get("skipped")), flush=True)
    return rec


def job_seeded(name):
    d = os.path.join(ROOT, "seeded", name)
    meta = json.load(open(os.path.join(d, "meta.json")))
    pids = list(meta.get("our_checks", {meta["property"]: 0}))
    if meta["property"] not in pids:
        pids.insert(0, meta["property"])

    def go(wt, out):
        p = subprocess.run(["git", "-C", wt, "apply", os.path.join(d, "patch.diff")], capture_output=True, text=True)
        if p.returncode != 0:
            return {"error": p.stderr}
        return run_checks(wt, out, pids)
    r = with_worktree(go)
    if "error" not in r:
        meta["our_checks"] = {k: {"exit": v["exit"], "lines": v["lines"]} for k, v in r.items()}
        json.dump(meta, open(os.path.join(d, "meta.json"), "w"), indent=1)
    print(name, {k: v.get("exit") for k, v in r.items()} if "error" not in r else r, flush=True)
    return name, r


def main():
    args = sys.argv[1:]
    jobs = 4
    if "--jobs" in args:
        i = args.index("--jobs")
        jobs = int(args[i + 1])
        del args[i:i + 2]
    mode, sel = None, {"--mutants": [], "--seeded": []}
    for a in args:
        if a in sel:
            mode = a
        elif mode:
            sel[mode].append(a)
    do_m, do_s = "--mutants" in args, "--seeded" in args
    with ThreadPoolExecutor(max_workers=jobs) as ex:
        futs, futs_m = [], []
        if do_m:
            cat = json.load(open(os.path.join(ROOT, "mutants", "catalog.json")))
            todo = [m for m in cat if not sel["--mutants"] or any(m["id"].startswith(s) for s in sel["--mutants"])]
            futs_m = [ex.submit(job_mutant, m) for m in todo]
        if do_s:
            names = sorted(os.listdir(os.path.join(ROOT, "seeded")))
            names = [n for n in names if not sel["--seeded"] or n in sel["--seeded"]]
            futs = [ex.submit(job_seeded, n) for n in names]
        if do_m:
            recs = [f.result() for f in futs_m]
            path = os.path.join(ROOT, "mutants", "last_results.json")
            old = {}
            if os.path.exists(path):
                old = {r["id"]: r for r in json.load(open(path))}
            for r in recs:
                old[r["id"]] = r
            order = [m["id"] for m in json.load(open(os.path.join(ROOT, "mutants", "catalog.json")))]
            json.dump([old[i] for i in order if i in old], open(path, "w"), indent=1)
            bad = [r["id"] for r in recs if any(v not in ("CAUGHT", "quiet", "quiet(undecided)")
                                                for v in r.get("verdict", {"x": "skipped"}).values())]
            print("not as expected:", bad)
        for f in futs:
            f.result()
    subprocess.run(["git", "-C", "/repo", "worktree", "prune"])


if __name__ == "__main__":
    main()
