#!/usr/bin/env python3
"""Record, for every function under contract, the canonical shape of its AST and the order of its local names
(contracts/_shapes.json).  Run against the tree the contracts were written for (the unchanged /repo); pyvc.extract uses
the record to undo pure renamings of locals."""
import json
import os
import sys

ROOT = os.path.dirname(os.path.dirname(os.path.abspath(__file__)))
sys.path.insert(0, ROOT)
import plans  # noqa: E402,F401  (registers all contracts)
from pyvc import extract  # noqa: E402
from pyvc.spec import CONTRACTS  # noqa: E402

extract._SHAPES = {}          # do not map anything while recording
out = {}
for qn in sorted(CONTRACTS):
    if qn.startswith("<opaque>"):
        continue
    base = qn.partition("#")[0]
    if base in out:
        continue
    try:
        fs = extract.get_function(base)
    except Exception as ex:      # noqa: BLE001
        print("skip", base, repr(ex)[:80])
        continue
    out[base] = extract.shape_of(fs.node)
json.dump(out, open(os.path.join(ROOT, "contracts", "_shapes.json"), "w"), indent=0, sort_keys=True)
print(len(out), "functions recorded")
