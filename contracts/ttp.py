"""Contracts: TTP kernels (count_errors, game_plan_length, map_games)."""
import numpy as np

from pyvc.spec import A1, A2, BOOL, INT, Loop, contract, spec, tag, lemma, CONTRACTS

ER = "moptipyapps.ttp.errors"

lemma("tri_bound", {"a": "int", "b": "int", "n": "int"}, ["0 <= b", "b < a", "a < n"],
      "a * (a - 1) + 2 * b + 2 <= n * (n - 1)")

# plan cell (d, t) is "played and mutually consistent"
spec("cell_ok(y, d, t, n)", "y[d, t] != 0 and (y[y_d(d), y[d, t] - 1] == -(t + 1) if y[d, t] > 0 else y[y_d(d), -y[d, t] - 1] == t + 1)"
     .replace("y_d(d)", "d"), ret="bool")

_ce_params = {"y": A2("Y"), "home_streak_min": INT, "home_streak_max": INT, "away_streak_min": INT,
              "away_streak_max": INT, "separation_min": INT, "separation_max": INT,
              "temp_1": A1("T", uninit=True), "temp_2": A2("T", uninit=True)}

contract(
    ER + ":count_errors",
    props="C07",
    params=_ce_params,
    ghosts={"n": INT, "D": INT},
    returns=INT,
    i64=False,
    requires=[
        "n >= 2 and D >= 1 and shape(y, 0) == D and shape(y, 1) == n",
        # all that GamePlanSpace.validate establishes: entries in -n..n (self-play included!)
        "forall(d, 0, D, forall(t, 0, n, -n <= y[d, t] and y[d, t] <= n))",
        "2 * len(temp_1) == n * (n - 1) and shape(temp_2, 0) == n and shape(temp_2, 1) == n",
        # Errors.__init__: dtype = int_range_to_dtype(-1, (n - 1) * rounds) with D = (n - 1) * rounds  (E1)
        "T_lo <= -1 and T_hi >= D and T_hi <= 2**63 - 1 and Y_hi <= 2**63 - 1 and Y_lo < 0",
    ],
    modifies=["temp_1", "temp_2"],
    loops={
        "0": Loop(inv=[
            tag("C07", "nonneg", "0 <= errors"),
            tag("C07 C13", "dims", "days == D and teams == n"),
            tag("C07 C13", "scratch-written", "forall(k, 0, len(temp_1), written(temp_1, k))"
                " and forall(a, 0, n, forall(b, 0, n, written(temp_2, a, b)))"),
            tag("C07 C13", "temp1-range", "forall(k, 0, len(temp_1), -1 <= temp_1[k] and temp_1[k] < D)"),
            tag("C07 C13", "temp2-range", "forall(a, 0, n, forall(b, 0, n, 0 <= temp_2[a, b] and temp_2[a, b] <= D))"),
            tag("C07", "temp2-rows-ahead", "forall(a, team_1, n, forall(b, 0, n, temp_2[a, b] == 0))"),
            tag("C07", "zero-implies-consistent", "implies(errors == 0, forall(t, 0, team_1, forall(d, 0, D, cell_ok(y, d, t, n))))"),
        ]),
        "0.0": Loop(inv=[
            tag("C07", "nonneg", "0 <= errors and errors >= at_loop(errors)"),
            tag("C07 C13", "dims", "team_1_id == team_1 + 1 and 0 <= team_1 and team_1 < n"),
            tag("C07 C13", "scratch-written", "forall(k, 0, len(temp_1), written(temp_1, k))"
                " and forall(a, 0, n, forall(b, 0, n, written(temp_2, a, b)))"),
            tag("C07 C13", "temp1-range", "forall(k, 0, len(temp_1), -1 <= temp_1[k] and temp_1[k] < D)"),
            tag("C07 C13", "temp2-range", "forall(a, 0, n, forall(b, 0, n, 0 <= temp_2[a, b] and temp_2[a, b] <= D))"),
            tag("C07 C13", "temp2-row", "forall(b, 0, n, temp_2[team_1, b] <= day)"),
            tag("C07", "temp2-rows-ahead", "forall(a, team_1 + 1, n, forall(b, 0, n, temp_2[a, b] == 0))"),
            tag("C07", "zero-implies-consistent", "implies(errors == 0, forall(d, 0, day, cell_ok(y, d, team_1, n))"
                " and forall(t, 0, team_1, forall(d, 0, D, cell_ok(y, d, t, n))))"),
        ]),
        "1": Loop(inv=[tag("C07", "nonneg", "0 <= errors and errors >= at_loop(errors)")]),
        "1.0": Loop(inv=[tag("C07", "nonneg", "0 <= errors and errors >= at_loop(errors)")]),
    },
    lemmas_at={"after assign team_2 #0": ["tri_bound(team_1, team_2, n)", "tri_bound(team_2, team_1, n)"],
               "after assign team_2 #1": ["tri_bound(team_1, team_2, n)", "tri_bound(team_2, team_1, n)"]},
    ensures=[
        tag("C07", "nonneg", "0 <= result"),
        tag("C07", "zero-implies-played-and-consistent", "implies(result == 0, forall(t, 0, n, forall(d, 0, D, cell_ok(y, d, t, n))))"),
    ],
    must_fail=["result == 0"],
)


def _gen_count_errors(rng):
    from bounded.ttp_errors import day_patterns
    n = rng.choice([2, 4, 4, 6])
    rounds = rng.choice([1, 2, 3])
    D = (n - 1) * rounds
    y = np.zeros((D, n), np.int8)
    pats = day_patterns(n)
    mode = rng.random()
    for d in range(D):
        if mode < 0.5:
            y[d, :] = pats[rng.randrange(len(pats))]
        else:
            for t in range(n):
                y[d, t] = rng.randint(-n, n)
    if rng.random() < 0.4:
        y[rng.randrange(D), n - 1] = rng.choice([n, -n, 0])      # last team meets itself / bye
    ll = rounds * n - 1
    hmin = rng.randint(1, min(3, ll)); amin = rng.randint(1, min(3, ll)); smin = rng.randint(0, min(3, ll))
    dt = rng.choice([np.int8, np.int16, np.int64])
    return {"y": y, "home_streak_min": hmin, "home_streak_max": rng.randint(hmin, ll), "away_streak_min": amin,
            "away_streak_max": rng.randint(amin, ll), "separation_min": smin, "separation_max": rng.randint(smin, ll),
            "temp_1": np.full(n * (n - 1) // 2, 77, dt), "temp_2": np.full((n, n), 77, dt), "n": n, "D": D}


def _call_count_errors(inp):
    from moptipyapps.ttp.errors import count_errors
    return int(count_errors(*[inp[k] for k in _ce_params]))


CONTRACTS[ER + ":count_errors"].gen = _gen_count_errors
CONTRACTS[ER + ":count_errors"].call = _call_count_errors
