"""Contracts: TTP kernels (count_errors, game_plan_length, map_games)."""
import numpy as np

from pyvc.spec import A1, A2, BOOL, INT, Loop, contract, spec, tag, lemma, CONTRACTS

ER = "moptipyapps.ttp.errors"

lemma("tri_bound", {"a": "int", "b": "int", "n": "int"}, ["0 <= b", "b < a", "a < n"],
      "a * (a - 1) + 2 * b + 2 <= n * (n - 1)")

# plan cell (d, t) is "played and mutually consistent"
spec("cell_ok(y, d, t, n)", "y[d, t] != 0 and (y[y_d(d), y[d, t] - 1] == -(t + 1) if y[d, t] > 0 else y[y_d(d), -y[d, t] - 1] == t + 1)"
     .replace("y_d(d)", "d"), ret="bool")

_ce_params = {"y": A2("Y"), "home_streak_min": INT, "home_streak_max": INT, "away_streak_min": INT,
              "away_streak_max": INT, "separation_min": INT, "separation_max": INT,
              "temp_1": A1("T", uninit=True), "temp_2": A2("T", uninit=True)}

# hc(y, a, b, d): number of days before d on which team a plays at home against team b
spec("hc(y, a, b, d)", "0 if d <= 0 else hc(y, a, b, d - 1) + (1 if y[d - 1, a] == b + 1 else 0)",
     ptypes=["arr2", "int", "int", "int"], qdef=True)
spec("pair_ok(y, a, b, D, g)", "hc(y, a, b, D) + hc(y, b, a, D) == g and hc(y, a, b, D) - hc(y, b, a, D) <= 1"
     " and hc(y, b, a, D) - hc(y, a, b, D) <= 1", ret="bool")

# hs / aw: length of the home / away streak of team t that ends with day d - 1 (0 if that day is not a home / away game)
spec("hs(y, t, d)", "0 if d <= 0 else (hs(y, t, d - 1) + 1 if y[d - 1, t] > 0 else 0)", ptypes=["arr2", "int", "int"], qdef=True)
spec("aw(y, t, d)", "0 if d <= 0 else (aw(y, t, d - 1) + 1 if y[d - 1, t] < 0 else 0)", ptypes=["arr2", "int", "int"], qdef=True)
# a streak that is followed by something else on day d must have reached its minimum length
spec("end_ok(y, t, d, hmin, amin)", "(implies(hs(y, t, d) > 0 and y[d, t] <= 0, hs(y, t, d) >= hmin)) and "
     "(implies(aw(y, t, d) > 0 and y[d, t] >= 0, aw(y, t, d) >= amin))", ret="bool")
spec("last_ok(y, t, D, hmin, amin)", "(implies(hs(y, t, D) > 0, hs(y, t, D) >= hmin)) and (implies(aw(y, t, D) > 0, aw(y, t, D) >= amin))",
     ret="bool")
spec("team_streaks_ok(y, t, D, hmin, hmax, amin, amax)",
     "forall(d, 1, D + 1, hs(y, t, d) <= hmax and aw(y, t, d) <= amax) and forall(d, 1, D, end_ok(y, t, d, hmin, amin))"
     " and last_ok(y, t, D, hmin, amin)", ret="bool")

contract(
    ER + ":count_errors",
    props="C07",
    params=_ce_params,
    ghosts={"n": INT, "D": INT},
    returns=INT,
    i64=False,
    requires=[
        "n >= 2 and D >= 1 and shape(y, 0) == D and shape(y, 1) == n",
        # all that GamePlanSpace.validate establishes: entries in -n..n (self-play included!)
        "forall(d, 0, D, forall(t, 0, n, -n <= y[d, t] and y[d, t] <= n))",
        "2 * len(temp_1) == n * (n - 1) and shape(temp_2, 0) == n and shape(temp_2, 1) == n",
        # ttp.Instance.__new__: check_int_range(home_streak_min, 1, ll), (home_streak_max, home_streak_min, ll), same for away
        "1 <= home_streak_min and home_streak_min <= home_streak_max and 1 <= away_streak_min and away_streak_min <= away_streak_max",
        # Errors.__init__: dtype = int_range_to_dtype(-1, (n - 1) * rounds) with D = (n - 1) * rounds  (E1)
        "T_lo <= -1 and T_hi >= D and T_hi <= 2**63 - 1 and Y_hi <= 2**63 - 1 and Y_lo < 0",
    ],
    modifies=["temp_1", "temp_2"],
    split=["if#5", "if#7", "if#12"],     # home game / away game, streak continues / begins: kept as separate paths
    loops={
        "0": Loop(inv=[
            tag("C07", "nonneg", "0 <= errors"),
            tag("C07 C13", "dims", "days == D and teams == n"),
            tag("C07 C13", "scratch-written", "forall(k, 0, len(temp_1), written(temp_1, k))"
                " and forall(a, 0, n, forall(b, 0, n, written(temp_2, a, b)))"),
            tag("C07 C13", "temp1-range", "forall(k, 0, len(temp_1), -1 <= temp_1[k] and temp_1[k] < D)"),
            tag("C07 C13", "temp2-range", "forall(a, 0, n, forall(b, 0, n, 0 <= temp_2[a, b] and temp_2[a, b] <= D))"),
            tag("C07", "temp2-rows-ahead", "forall(a, team_1, n, forall(b, 0, n, temp_2[a, b] == 0))"),
            tag("C07", "temp2-counts-home-games", "forall(a, 0, team_1, forall(b, 0, n, temp_2[a, b] == hc(y, a, b, D)))"),
            tag("C07", "zero-implies-consistent", "implies(errors == 0, forall(t, 0, team_1, forall(d, 0, D, cell_ok(y, d, t, n))))"),
            tag("C07", "zero-implies-streaks-in-range", "implies(errors == 0, forall(t, 0, team_1, team_streaks_ok(y, t, D, "
                "home_streak_min, home_streak_max, away_streak_min, away_streak_max)))"),
        ]),
        "0.0": Loop(inv=[
            tag("C07", "nonneg", "0 <= errors and errors >= at_loop(errors)"),
            tag("C07 C13", "dims", "team_1_id == team_1 + 1 and 0 <= team_1 and team_1 < n"),
            tag("C07 C13", "scratch-written", "forall(k, 0, len(temp_1), written(temp_1, k))"
                " and forall(a, 0, n, forall(b, 0, n, written(temp_2, a, b)))"),
            tag("C07 C13", "temp1-range", "forall(k, 0, len(temp_1), -1 <= temp_1[k] and temp_1[k] < D)"),
            tag("C07 C13", "temp2-range", "forall(a, 0, n, forall(b, 0, n, 0 <= temp_2[a, b] and temp_2[a, b] <= D))"),
            tag("C07 C13", "temp2-row", "forall(b, 0, n, temp_2[team_1, b] <= day)"),
            tag("C07", "temp2-rows-ahead", "forall(a, team_1 + 1, n, forall(b, 0, n, temp_2[a, b] == 0))"),
            tag("C07", "temp2-counts-home-games", "forall(a, 0, team_1, forall(b, 0, n, temp_2[a, b] == hc(y, a, b, D)))"
                " and forall(b, 0, n, temp_2[team_1, b] == hc(y, team_1, b, day))"),
            tag("C07", "zero-implies-consistent", "implies(errors == 0, forall(d, 0, day, cell_ok(y, d, team_1, n))"
                " and forall(t, 0, team_1, forall(d, 0, D, cell_ok(y, d, t, n))))"),
            tag("C07", "streak-state", "is_in_home_streak == (hs(y, team_1, day) > 0) and is_in_away_streak == (aw(y, team_1, day) > 0)"
                " and (implies(is_in_home_streak, home_streak_len == hs(y, team_1, day)))"
                " and (implies(is_in_away_streak, away_streak_len == aw(y, team_1, day))) and 0 <= day and day <= D"
                " and hs(y, team_1, day) >= 0 and aw(y, team_1, day) >= 0"),
            tag("C07", "zero-implies-streaks-in-range", "implies(errors == 0, "
                "forall(d, 1, day + 1, hs(y, team_1, d) <= home_streak_max and aw(y, team_1, d) <= away_streak_max) and "
                "forall(d, 1, day, end_ok(y, team_1, d, home_streak_min, away_streak_min)) and "
                "forall(t, 0, team_1, team_streaks_ok(y, t, D, home_streak_min, home_streak_max, away_streak_min, away_streak_max)))"),
        ]),
        "1": Loop(inv=[tag("C07", "nonneg", "0 <= errors and errors >= at_loop(errors)"),
                       tag("C07", "zero-implies-pairings-right", "implies(errors == 0, forall(a, 0, i, forall(b, 0, a, "
                           "pair_ok(y, a, b, D, games_per_combo))))")]),
        "1.0": Loop(inv=[tag("C07", "nonneg", "0 <= errors and errors >= at_loop(errors)"),
                         tag("C07", "zero-implies-pairings-right", "implies(errors == 0, forall(a, 0, i, forall(b, 0, a, "
                             "pair_ok(y, a, b, D, games_per_combo))) and forall(b, 0, j, pair_ok(y, i, b, D, games_per_combo)))"
                             " and 0 <= i and i < n")]),
    },
    lemmas_at={"after assign team_2 #0": ["tri_bound(team_1, team_2, n)", "tri_bound(team_2, team_1, n)"],
               "after assign team_2 #1": ["tri_bound(team_1, team_2, n)", "tri_bound(team_2, team_1, n)"]},
    ensures=[
        tag("C07", "nonneg", "0 <= result"),
        tag("C07", "zero-implies-played-and-consistent", "implies(result == 0, forall(t, 0, n, forall(d, 0, D, cell_ok(y, d, t, n))))"),
        tag("C07", "zero-implies-no-streak-leaves-its-permitted-range",
            "implies(result == 0, forall(t, 0, n, team_streaks_ok(y, t, D, home_streak_min, home_streak_max, away_streak_min, "
            "away_streak_max)))"),
        # every pairing occurs days // (n - 1) times in total and its home / away roles differ by at most one
        tag("C07", "zero-implies-pairings-occur-as-prescribed-with-balanced-roles",
            "games_per_combo == D // (n - 1) and "
            "implies(result == 0, forall(a, 0, n, forall(b, 0, a, pair_ok(y, a, b, D, games_per_combo))))"),
    ],
    # neither "always zero" nor "never zero" may be provable: the clauses of the form `result == 0 implies ...` are not vacuous
    must_fail=["result == 0", "result > 0"],
)


def _gen_count_errors(rng):
    from bounded.ttp_errors import day_patterns
    n = rng.choice([2, 4, 4, 6])
    rounds = rng.choice([1, 2, 3])
    D = (n - 1) * rounds
    y = np.zeros((D, n), np.int8)
    pats = day_patterns(n)
    mode = rng.random()
    for d in range(D):
        if mode < 0.5:
            y[d, :] = pats[rng.randrange(len(pats))]
        else:
            for t in range(n):
                y[d, t] = rng.randint(-n, n)
    if rng.random() < 0.4:
        y[rng.randrange(D), n - 1] = rng.choice([n, -n, 0])      # last team meets itself / bye
    ll = rounds * n - 1
    hmin = rng.randint(1, min(3, ll)); amin = rng.randint(1, min(3, ll)); smin = rng.randint(0, min(3, ll))
    dt = rng.choice([np.int8, np.int16, np.int64])
    return {"y": y, "home_streak_min": hmin, "home_streak_max": rng.randint(hmin, ll), "away_streak_min": amin,
            "away_streak_max": rng.randint(amin, ll), "separation_min": smin, "separation_max": rng.randint(smin, ll),
            "temp_1": np.full(n * (n - 1) // 2, 77, dt), "temp_2": np.full((n, n), 77, dt), "n": n, "D": D}


def _call_count_errors(inp):
    from moptipyapps.ttp.errors import count_errors
    return int(count_errors(*[inp[k] for k in _ce_params]))


CONTRACTS[ER + ":count_errors"].gen = _gen_count_errors
CONTRACTS[ER + ":count_errors"].call = _call_count_errors


# ====================================================================== game_plan_length (C08, C13)
PL = "moptipyapps.ttp.plan_length"
# the tournament model of the statement, as recursion over the days of one team
spec("venue(y, team, d)", "(-y[d, team] - 1) if y[d, team] < 0 else team", ptypes=["arr2", "int", "int"])
spec("loc(y, team, d)", "team if d <= 0 else (loc(y, team, d - 1) if y[d - 1, team] == 0 else venue(y, team, d - 1))",
     ptypes=["arr2", "int", "int"])
spec("tlen(y, dist, bye, team, d)", "0 if d <= 0 else tlen(y, dist, bye, team, d - 1) + (bye if y[d - 1, team] == 0 else"
     " (0 if loc(y, team, d - 1) == venue(y, team, d - 1) else dist[loc(y, team, d - 1), venue(y, team, d - 1)]))",
     ptypes=["arr2", "arr2", "int", "int", "int"])
spec("home_leg(y, dist, team, D)", "0 if loc(y, team, D) == team else dist[loc(y, team, D), team]",
     ptypes=["arr2", "arr2", "int", "int"])
spec("total_len(y, dist, bye, D, t)", "0 if t <= 0 else total_len(y, dist, bye, D, t - 1) + tlen(y, dist, bye, t - 1, D)"
     " + home_leg(y, dist, t - 1, D)", ptypes=["arr2", "arr2", "int", "int", "int"])

contract(
    PL + ":game_plan_length",
    props="C08",
    params={"y": A2("Y"), "distances": A2("DM"), "bye_penalty": INT},
    ghosts={"n": INT, "D": INT},
    returns=INT,
    i64=False,
    requires=[
        "n >= 1 and D >= 0 and shape(y, 0) == D and shape(y, 1) == n and shape(distances, 0) == n and shape(distances, 1) == n",
        "forall(d, 0, D, forall(t, 0, n, -n <= y[d, t] and y[d, t] <= n))",
        "forall(a, 0, n, forall(b, 0, n, 0 <= distances[a, b]))",
        "bye_penalty >= 0 and Y_lo < 0 and Y_hi <= 2**63 - 1 and DM_hi <= 2**63 - 1",
    ],
    loops={
        "0": Loop(inv=[
            tag("C08 C13", "dims", "days == D and teams == n"),
            tag("C08", "total", "length == total_len(y, distances, bye_penalty, D, team)"),
            tag("C08", "nonneg", "0 <= length"),
        ]),
        "0.0": Loop(inv=[
            tag("C08 C13", "location", "current_location == loc(y, team, day) and 0 <= current_location and current_location < n"
                " and 0 <= team and team < n"),
            tag("C08", "partial", "length == total_len(y, distances, bye_penalty, D, team) + tlen(y, distances, bye_penalty, team, day)"),
            tag("C08", "nonneg", "0 <= length"),
        ]),
    },
    ensures=[
        tag("C08", "tournament-model", "result == total_len(y, distances, bye_penalty, D, n)"),
        tag("C08", "nonneg", "0 <= result"),
    ],
    must_fail=["result == 0"],
)


def _gen_gpl(rng):
    from bounded.ttp_errors import day_patterns
    n = rng.choice([2, 4, 6])
    D = rng.randint(0, 7)
    y = np.zeros((D, n), np.int8)
    pats = day_patterns(n)
    for d in range(D):
        if rng.random() < 0.6:
            y[d, :] = pats[rng.randrange(len(pats))]
        else:
            for t in range(n):
                y[d, t] = rng.randint(-n, n)
    mx = rng.choice([1, 7, 1000])
    dist = np.array([[0 if a == b else rng.randint(0, mx) for b in range(n)] for a in range(n)],
                    dtype=rng.choice([np.int16, np.int32, np.int64]))
    return {"y": y, "distances": dist, "bye_penalty": 2 * int(dist.max()) + 1, "n": n, "D": D}


def _call_gpl(inp):
    from moptipyapps.ttp.plan_length import game_plan_length
    return int(game_plan_length(inp["y"], inp["distances"], inp["bye_penalty"]))


CONTRACTS[PL + ":game_plan_length"].gen = _gen_gpl
CONTRACTS[PL + ":game_plan_length"].call = _call_gpl


# ====================================================================== map_games (C15, C13)
GE = "moptipyapps.ttp.game_encoding"
spec("plan_ok(y, d, t, n)", "-n <= y[d, t] and y[d, t] <= n and y[d, t] != t + 1 and y[d, t] != -(t + 1)"
     " and implies(y[d, t] > 0, y[d, y[d, t] - 1] == -(t + 1)) and implies(y[d, t] < 0, y[d, -y[d, t] - 1] == t + 1)", ret="bool")
spec("blocked(y, d, a, b)", "y[d, a] != 0 or y[d, b] != 0", ret="bool")

contract(
    GE + ":map_games",
    props="C15",
    params={"x": A1("X"), "y": A2("Y", uninit=True)},
    ghosts={"n": INT, "D": INT},
    requires=[
        "n >= 2 and D >= 0 and shape(y, 0) == D and shape(y, 1) == n",
        "forall(k, 0, len(x), 0 <= x[k])",
        "Y_lo <= -n and Y_hi >= n and Y_hi <= 2**63 - 1 and X_hi <= 2**63 - 1",
    ],
    modifies=["y"],
    loops={
        "0": Loop(index="k", inv=[
            tag("C15 C13", "dims", "days == D and div == n - 1 and shape(y, 1) == n"),
            tag("C15 C13", "written", "forall(d, 0, D, forall(t, 0, n, written(y, d, t)))"),
            tag("C15", "consistent", "forall(d, 0, D, forall(t, 0, n, plan_ok(y, d, t, n)))"),
        ]),
        "0.0": Loop(inv=[
            tag("C15 C13", "teams", "0 <= home_idx and home_idx < n and 0 <= away_idx and away_idx < n and home_idx != away_idx"),
            tag("C15", "unchanged-while-searching", "same_array(y, at_loop(y))"),
            tag("C15 C13", "written", "forall(d, 0, D, forall(t, 0, n, written(y, d, t)))"),
            tag("C15", "earlier-days-blocked", "forall(d, 0, day, blocked(y, d, home_idx, away_idx))"),
        ]),
    },
    asserts={
        "after if #0": [tag("C15", "decode-teams", "0 <= home_idx and home_idx < n and 0 <= away_idx and away_idx < n"
                            " and home_idx != away_idx")],
        "after assign y[day,away_idx] #0": [
            tag("C15", "earliest-free-day", "forall(d, 0, day, blocked(at_loop(y), d, home_idx, away_idx))"
                " and not blocked(at_loop(y), day, home_idx, away_idx)"),
            tag("C15", "game-placed", "y[day, home_idx] == away_idx + 1 and y[day, away_idx] == -(home_idx + 1)"),
            tag("C15", "only-two-cells", "forall(d, 0, D, forall(t, 0, n, implies(not (d == day and (t == home_idx or t == away_idx)),"
                " y[d, t] == at_loop(y)[d, t])))"),
        ],
    },
    ensures=[
        tag("C15", "consistent-no-self-play-in-range", "forall(d, 0, D, forall(t, 0, n, plan_ok(y, d, t, n)))"),
    ],
)


def _gen_map_games(rng):
    n = rng.choice([2, 3, 4, 5, 6])
    rounds = rng.choice([1, 2, 3])
    D = rng.choice([(n - 1) * rounds, n * rounds, max(0, (n - 1) * rounds - 1)])
    games = [g for g in range(n * (n - 1))] * rounds
    rng.shuffle(games)
    games = games[:rng.randint(0, len(games))] if rng.random() < 0.3 else games
    y = np.full((D, n), 55, np.int8)
    return {"x": np.array(games, dtype=rng.choice([np.int16, np.uint8, np.int64])), "y": y, "n": n, "D": D}


def _call_map_games(inp):
    from moptipyapps.ttp.game_encoding import map_games
    map_games(inp["x"], inp["y"])
    return None


CONTRACTS[GE + ":map_games"].gen = _gen_map_games
CONTRACTS[GE + ":map_games"].call = _call_map_games


# ====================================================================== allocation sites of the scratch arrays (C13, C07)
from pyvc.spec import DTYPE, OBJ, PYINT, Summary  # noqa: E402

lemma("even_prod", {"n": "int"}, ["n >= 0"], "(n * (n - 1)) % 2 == 0", induct="n", base="0")

_int_range_to_dtype = contract(
    "<opaque>:int_range_to_dtype", params={"lo": PYINT, "hi": PYINT}, returns=DTYPE,
    ensures=["result[0] <= lo and result[1] >= hi and result[1] <= 2**63 - 1 and result[0] < 0"],
    assumptions=["E1: moptipy int_range_to_dtype(lo, hi) with lo < 0 returns a signed dtype containing [lo, hi]"])

# class invariant of ttp.errors.Errors: what count_errors needs from the two scratch arrays
_ERR_INV = [
    "n >= 2 and rounds >= 1",
    "2 * len(self.__temp_1) == n * (n - 1)",
    "shape(self.__temp_2, 0) == n and shape(self.__temp_2, 1) == n",
    "dtype_lo(self.__temp_1) <= -1 and dtype_hi(self.__temp_1) >= (n - 1) * rounds and dtype_hi(self.__temp_1) <= 2**63 - 1",
    "dtype_lo(self.__temp_2) <= -1 and dtype_hi(self.__temp_2) >= (n - 1) * rounds and dtype_hi(self.__temp_2) <= 2**63 - 1",
]

contract(
    ER + ":Errors.__init__",
    props="C13 C07",
    params={"instance": OBJ},
    ghosts={"n": PYINT, "rounds": PYINT},
    i64=False,
    dtypes={"GP": None},
    attrs={"instance.n_cities": "n", "instance.rounds": "rounds", "instance.game_plan_dtype": "(GP_lo, GP_hi)"},
    # ttp.Instance: even number of teams >= 2, rounds in 1..100, game_plan_dtype = int_range_to_dtype(-n, n)
    requires=["n >= 2 and rounds >= 1", "GP_lo <= -n and GP_hi >= n"],
    summaries={"if #0": Summary({}, [], "isinstance check"), "call super().__init__ #0": Summary({}, [], "Objective.__init__")},
    opaque={"int_range_to_dtype": _int_range_to_dtype},
    lemmas_at={"entry": ["even_prod(n)"]},
    ensures=[tag("C13 C07", f"class-invariant-{k}", c) for k, c in enumerate(_ERR_INV)],
)

contract(
    ER + ":Errors.evaluate",
    props="C13 C07",
    params={"x": A2("Y")},
    ghosts={"n": PYINT, "rounds": PYINT, "hsmin": PYINT, "hsmax": PYINT, "asmin": PYINT, "asmax": PYINT, "smin": PYINT, "smax": PYINT},
    fields={"self.__temp_1": A1("T1", uninit=True), "self.__temp_2": A2("T2", uninit=True)},
    i64=False,
    attrs={"x.instance": "None", "inst.home_streak_min": "hsmin", "inst.home_streak_max": "hsmax", "inst.away_streak_min": "asmin",
           "inst.away_streak_max": "asmax", "inst.separation_min": "smin", "inst.separation_max": "smax"},
    # class invariant (established by __init__) + what GamePlanSpace.validate establishes about x
    requires=_ERR_INV + ["shape(x, 0) == (n - 1) * rounds and shape(x, 1) == n",
                         "forall(d, 0, (n - 1) * rounds, forall(t, 0, n, -n <= x[d, t] and x[d, t] <= n))",
                         "Y_lo < 0 and Y_hi <= 2**63 - 1", "T1_lo == T2_lo and T1_hi == T2_hi",
                         # ttp.Instance.__new__ validates the limits with check_int_range(min, 1, ll) / (max, min, ll)
                         "1 <= hsmin and hsmin <= hsmax and 1 <= asmin and asmin <= asmax"],
    calls={"count_errors": {"n": "n", "D": "(n - 1) * rounds"}},
    returns=INT,
    ensures=[tag("C07", "nonneg", "result >= 0")],
)


# ====================================================================== GamePlanLength wrapper (C08): bye penalty and bounds
contract(
    PL + ":GamePlanLength.__init__",
    props="C08",
    params={"instance": A2("DM")},
    i64=False,
    requires=["shape(instance, 0) >= 1 and shape(instance, 1) == shape(instance, 0)"],
    summaries={"if #0": Summary({}, [], "isinstance check"), "call super().__init__ #0": Summary({}, [], "Objective.__init__")},
    # one-sided: the bye clause and the upper bound need a penalty that exceeds a there-and-back trip over the longest leg
    ensures=[tag("C08", "bye-penalty-exceeds-twice-the-largest-distance",
                 "forall(a, 0, shape(instance, 0), forall(b, 0, shape(instance, 0), self.bye_penalty >= 2 * instance[a, b] + 1))")],
)


# ====================================================================== C08: the declared upper bound n * days * bye_penalty
_YD = ["n >= 1", "0 <= team", "team < n", "forall(dd, 0, D, forall(t, 0, n, -n <= y[dd, t] and y[dd, t] <= n))"]
_DB = ["forall(a, 0, n, forall(b, 0, n, 0 <= dist[a, b] and dist[a, b] <= M))", "M >= 0", "bye >= 2 * M + 1"]
lemma("loc_range", {"y": "arr2", "team": "int", "d": "int", "n": "int", "D": "int"},
      _YD + ["d <= D"], "0 <= loc(y, team, d) and loc(y, team, d) < n", induct="d", base="0",
      note="a team is always at the home of some team")
# one team: every day costs at most the bye penalty; a day with a game costs at most M, which leaves M + 1 >= M of that
# day's allowance for the final trip home - and a team that never plays never leaves home
lemma("team_bound", {"y": "arr2", "dist": "arr2", "bye": "int", "team": "int", "d": "int", "n": "int", "D": "int", "M": "int"},
      _YD + _DB + ["d <= D"],
      "0 <= tlen(y, dist, bye, team, d) and "
      "tlen(y, dist, bye, team, d) + (0 if loc(y, team, d) == team else M) <= d * bye",
      induct="d", base="0", uses=["loc_range(y, team, d - 1, n, D)"])
lemma("total_bound", {"y": "arr2", "dist": "arr2", "bye": "int", "D": "int", "t": "int", "n": "int", "M": "int"},
      ["n >= 1", "D >= 0", "t <= n", "forall(dd, 0, D, forall(tt, 0, n, -n <= y[dd, tt] and y[dd, tt] <= n))"] + _DB,
      "0 <= total_len(y, dist, bye, D, t) and total_len(y, dist, bye, D, t) <= t * D * bye",
      induct="t", base="0", uses=["team_bound(y, dist, bye, t - 1, D, n, D, M)", "loc_range(y, t - 1, D, n, D)"])

_GPL_INV = ["forall(a, 0, n, forall(b, 0, n, 0 <= dist[a, b] and bye >= 2 * dist[a, b] + 1))"]
contract(
    PL + ":GamePlanLength.evaluate",
    props="C08",
    params={"x": A2("Y")}, ghosts={"dist": A2("DM"), "bye": PYINT, "n": PYINT, "rounds": PYINT}, i64=False, returns=INT,
    attrs={"x.instance": "dist", "self.bye_penalty": "bye"},
    # class invariant (GamePlanLength.__init__, proved above) + what GamePlanSpace establishes about x
    requires=_GPL_INV + ["n >= 2 and rounds >= 1 and shape(dist, 0) == n and shape(dist, 1) == n",
                         "shape(x, 0) == (n - 1) * rounds and shape(x, 1) == n",
                         "forall(d, 0, (n - 1) * rounds, forall(t, 0, n, -n <= x[d, t] and x[d, t] <= n))",
                         "Y_lo < 0 and Y_hi <= 2**63 - 1 and DM_hi <= 2**63 - 1 and bye <= 2**62"],
    calls={"game_plan_length": {"n": "n", "D": "(n - 1) * rounds"}},
    lemmas_at={"post": ["total_bound(x, dist, bye, (n - 1) * rounds, n, n, (bye - 1) // 2)"]},
    ensures=[tag("C08", "at-least-the-lower-bound", "result >= 0"),
             tag("C08", "at-most-the-declared-upper-bound", "result <= n * ((n - 1) * rounds) * bye"),
             tag("C08", "is-the-tournament-walk", "result == total_len(x, dist, bye, (n - 1) * rounds, n)")],
)
contract(
    PL + ":GamePlanLength.upper_bound",
    props="C08",
    params={}, ghosts={"bye": PYINT, "n": PYINT, "rounds": PYINT}, i64=False, returns=PYINT,
    attrs={"self.instance.n_cities": "n", "self.instance.rounds": "rounds", "self.bye_penalty": "bye"},
    # one-sided: any declared upper bound from n * days * bye_penalty upwards is valid
    ensures=[tag("C08", "declared-upper-bound-is-valid", "result >= n * ((n - 1) * rounds) * bye")],
)
contract(
    PL + ":GamePlanLength.lower_bound",
    props="C08", params={}, i64=False, returns=PYINT,
    ensures=[tag("C08", "declared-lower-bound-is-valid", "result <= 0")],
)


# ====================================================================== C08: the bye clause, for every plan and every position
# y2 is y with the game of `team` on day `e` replaced by a day off.  Only that team's walk changes: it pays the bye
# penalty 2M+1 instead of one leg (<= M), and until its next game it may stand somewhere else, which changes one later leg
# (or the trip home) by at most M.
_Y2 = ["n >= 1", "0 <= team", "team < n", "0 <= e", "e < D", "y[e, team] != 0",
       "forall(dd, 0, D, forall(t, 0, n, -n <= y[dd, t] and y[dd, t] <= n))",
       "forall(dd, 0, D, forall(t, 0, n, y2[dd, t] == (0 if (dd == e and t == team) else y[dd, t])))"]
_P2 = {"y": "arr2", "y2": "arr2", "dist": "arr2", "bye": "int", "team": "int", "e": "int", "d": "int", "n": "int",
       "D": "int", "M": "int"}
lemma("bye_prefix", _P2, _Y2 + _DB + ["d <= e"],
      "tlen(y2, dist, bye, team, d) == tlen(y, dist, bye, team, d) and loc(y2, team, d) == loc(y, team, d)",
      induct="d", base="0", note="before the replaced day nothing changes")
lemma("bye_other_team", dict(_P2, t="int"), _Y2 + _DB + ["d <= D", "0 <= t", "t < n", "t != team"],
      "tlen(y2, dist, bye, t, d) == tlen(y, dist, bye, t, d) and loc(y2, t, d) == loc(y, t, d)",
      induct="d", base="0", note="the other teams' walks do not change")
lemma("bye_walk", _P2, _Y2 + _DB + ["d <= D"],
      "tlen(y2, dist, bye, team, d) - tlen(y, dist, bye, team, d) >= "
      "1 + (M if loc(y2, team, d) != loc(y, team, d) else 0)",
      induct="d", base="e + 1",
      uses=["bye_prefix(y, y2, dist, bye, team, e, e, n, D, M)", "loc_range(y, team, d - 1, n, D)",
            "loc_range(y2, team, d - 1, n, D)", "loc_range(y, team, e, n, D)"],
      note="after the replaced day the value is ahead by at least 1, and by at least M + 1 while the locations differ")
lemma("bye_increases", {"y": "arr2", "y2": "arr2", "dist": "arr2", "bye": "int", "team": "int", "e": "int", "t": "int",
                        "n": "int", "D": "int", "M": "int"},
      _Y2 + _DB + ["t <= n"],
      "total_len(y2, dist, bye, D, t) >= total_len(y, dist, bye, D, t) + (1 if t > team else 0)",
      induct="t", base="0",
      uses=["bye_walk(y, y2, dist, bye, team, e, D, n, D, M)", "bye_other_team(y, y2, dist, bye, team, e, D, n, D, M, t - 1)",
            "loc_range(y, team, D, n, D)", "loc_range(y2, team, D, n, D)"],
      note="C08 bye clause: total_len(y2, ..., n) > total_len(y, ..., n)")
lemma("bye_clause", {"y": "arr2", "y2": "arr2", "dist": "arr2", "bye": "int", "team": "int", "e": "int", "n": "int", "D": "int"},
      _Y2 + ["forall(a, 0, n, forall(b, 0, n, 0 <= dist[a, b] and bye >= 2 * dist[a, b] + 1))"],
      "total_len(y2, dist, bye, D, n) > total_len(y, dist, bye, D, n)",
      uses=["bye_increases(y, y2, dist, bye, team, e, n, n, D, (bye - 1) // 2)"],
      note="the statement's bye clause under the class invariant of GamePlanLength (bye_penalty >= 2 * max distance + 1)")


# ====================================================================== C15: the search-space generator and the decoder agree on the game code
# search_space_for_n_and_rounds encodes the game "m1 at home against the other city" as m1 * (n - 1) + m2 with the away
# index m2 squeezed past m1; map_games decodes home = (g // (n-1)) % n, away = g % (n-1), away += 1 if away >= home.
# The refinement assertion below states that every code appended by the real generator loop lies in [0, n*(n-1)) and
# decodes - by map_games' formulas - to exactly the pair (i, j) of the two loop variables, home side as chosen by `order`.
GEM = "moptipyapps.ttp.game_encoding"
spec("dec_home(g, n)", "(g // (n - 1)) % n")
spec("dec_away(g, n)", "(g % (n - 1)) + 1 if (g % (n - 1)) >= dec_home(g, n) else (g % (n - 1))")
_cir2 = contract("<opaque>:check_int_range", params={"v": PYINT, "name": OBJ, "lo": PYINT, "hi": PYINT}, returns=PYINT,
                 ensures=["result == v and lo <= v and v <= hi"],
                 assumptions=["pycommons.check_int_range returns its argument if it lies in [lo, hi] (raises otherwise)"])
# ghost arrays: tot[a, b] (a > b) = how often the pair {a, b} was appended so far, hm[a, b] = how often with a at home
_PAIR_DONE = ("tot[a, b] == r + 1 and (implies(normal, hm[a, b] == (r + 2) // 2)) and "
              "(implies(not normal, (r + 1) // 2 <= hm[a, b] and hm[a, b] <= (r + 1) // 2 + 1))")
_PAIR_TODO = "tot[a, b] == r and hm[a, b] == (r + 1) // 2"
_ROUND = ("0 <= r and r < rounds and normal == (r < rounds - 1 or rounds % 2 == 0) and n >= 2 and div == n - 1"
          " and shape(tot, 0) == n and shape(tot, 1) == n and shape(hm, 0) == n and shape(hm, 1) == n")
contract(
    GEM + ":search_space_for_n_and_rounds",
    props="C15",
    params={"n": PYINT, "rounds": PYINT}, ghosts={"appended": PYINT, "tot": A2(), "hm": A2()}, i64=False,
    modifies=["tot", "hm"],
    requires=["appended == 0", "rounds >= 1",      # the second range check of the function tests `n` again, not `rounds`
              "shape(tot, 0) == n and shape(tot, 1) == n and shape(hm, 0) == n and shape(hm, 1) == n",
              "forall(a, 0, n, forall(b, 0, n, tot[a, b] == 0 and hm[a, b] == 0))"],
    opaque={"check_int_range": _cir2},
    summaries={
        "assign games #0": Summary({}, [], "games = []"),
        "call games.append #0": Summary({"appended": PYINT}, ["appended == prev(appended) + 1"],
                                        "games.append(code): the list grows by the value of the argument, captured as `code`",
                                        capture=("code",)),
        "call games.sort #0": Summary({}, [], "games.sort(): the multiset of codes is unchanged"),
        "return #0": Summary({}, [], "Permutations(games): permutations with repetition of that multiset"),
    },
    ghost_code={"after call games.append #0": ["tot[i, j] = tot[i, j] + 1", "hm[i, j] = hm[i, j] + (1 if order else 0)"]},
    loops={
        "0": Loop(inv=[
            "n >= 2 and div == n - 1 and shape(tot, 0) == n and shape(tot, 1) == n and shape(hm, 0) == n and shape(hm, 1) == n",
            tag("C15", "every-pair-once-per-round", "forall(a, 0, n, forall(b, 0, a, tot[a, b] == r))"),
            tag("C15", "home-role-alternates-by-round",
                "forall(a, 0, n, forall(b, 0, a, (implies(r < rounds or rounds % 2 == 0, hm[a, b] == (r + 1) // 2)) and "
                "(implies(r == rounds and rounds % 2 == 1, r // 2 <= hm[a, b] and hm[a, b] <= r // 2 + 1))))")]),
        "0.0": Loop(inv=[
            _ROUND + " and 0 <= i and i <= n",
            tag("C15", "rows-done", f"forall(a, 0, i, forall(b, 0, a, {_PAIR_DONE}))"),
            tag("C15", "rows-to-do", f"forall(a, i, n, forall(b, 0, a, {_PAIR_TODO}))")]),
        "0.0.0": Loop(inv=[
            _ROUND + " and 0 <= j and j <= i and i < n",
            tag("C15", "rows-done", f"forall(a, 0, i, forall(b, 0, a, {_PAIR_DONE}))"),
            tag("C15", "row-prefix-done", f"forall(b, 0, j, {_PAIR_DONE.replace('a, b', 'i, b')})"),
            tag("C15", "row-suffix-to-do", f"forall(b, j, i, {_PAIR_TODO.replace('a, b', 'i, b')})"),
            tag("C15", "rows-to-do", f"forall(a, i + 1, n, forall(b, 0, a, {_PAIR_TODO}))")]),
    },
    asserts={"after call games.append #0": [
        tag("C15", "appended-code-is-home-times-(n-1)-plus-away", "code == m1 * (n - 1) + m2")],
             "after if #0": [
        tag("C15", "code-in-range", "0 <= m1 * div + m2 and m1 * div + m2 < n * (n - 1)"),
        tag("C15", "home-and-squeezed-away-index", "0 <= m1 and m1 < n and 0 <= m2 and m2 < div and m1 == (i if order else j)"
            " and m2 == ((j if order else i) - (1 if (j if order else i) > m1 else 0))"),
        tag("C15", "code-splits-back", "(m1 * div + m2) // div == m1 and (m1 * div + m2) % div == m2 and div == n - 1"),
        tag("C15", "decoder-recovers-the-home-team", "dec_home(m1 * div + m2, n) == (i if order else j)"),
        # the away index: remainder m2 is the other city squeezed past m1 (stated in code-splits-back); map_games undoes the
        # squeeze with `if away_idx >= home_idx: away_idx += 1` (its own contract, assertion decode-teams)
    ]},
    lemmas_at={"after if #0": ["divmod_unique(m1, div, m2)"]},
    ensures=[
        tag("C15", "every-pairing-exactly-rounds-times", "forall(a, 0, n, forall(b, 0, a, tot[a, b] == rounds))"),
        tag("C15", "home-and-away-roles-of-a-pairing-differ-by-at-most-one",
            "forall(a, 0, n, forall(b, 0, a, -1 <= hm[a, b] - (tot[a, b] - hm[a, b]) and hm[a, b] - (tot[a, b] - hm[a, b]) <= 1))"),
    ],
    must_fail=["forall(a, 0, n, forall(b, 0, a, tot[a, b] == rounds + 1))"],
)
lemma("divmod_unique", {"q": "int", "d": "int", "r": "int"}, ["d >= 1", "0 <= r", "r < d"],
      "(q * d + r) // d == q and (q * d + r) % d == r", note="uniqueness of Euclidean division")


# ====================================================================== C07: separation clause (result == 0 implies ...)
# trin(b) = b (b - 1) / 2 as a linear recurrence: the slot of the pair (a, b), a < b, in the triangular table is trin(b) + a
spec("trin(b)", "0 if b <= 0 else trin(b - 1) + (b - 1)", ptypes=["int"])
lemma("trin_closed", {"b": "int"}, ["b >= 0"], "2 * trin(b) == b * (b - 1)", induct="b", base="0")
lemma("trin_mono", {"b": "int", "c": "int"}, ["0 <= b", "b <= c"], "trin(b) <= trin(c) and trin(c) >= 0", induct="c", base="b",
      uses=["trin_nonneg(b)"])
lemma("trin_nonneg", {"b": "int"}, [], "trin(b) >= 0", induct="b", base="0")
# different pairs use different slots
lemma("trin_inj", {"a": "int", "b": "int", "a0": "int", "b0": "int"},
      ["0 <= a", "a < b", "0 <= a0", "a0 < b0", "not (a == a0 and b == b0)"],
      "trin(b) + a != trin(b0) + a0",
      uses=["trin_mono(b + 1, b0)", "trin_mono(b0 + 1, b)"])
# meets / prevmeet: team a plays team b (either role) on day d; the last such day before d (-1 if none)
spec("meets(y, a, b, d)", "y[d, a] == b + 1 or y[d, a] == -(b + 1)", ret="bool")
spec("prevmeet(y, a, b, d)", "-1 if d <= 0 else (d - 1 if meets(y, a, b, d - 1) else prevmeet(y, a, b, d - 1))",
     ptypes=["arr2", "int", "int", "int"], qdef=True)
lemma("pm_range", {"y": "arr2", "a": "int", "b": "int", "d": "int"}, [], "-1 <= prevmeet(y, a, b, d) and prevmeet(y, a, b, d) < max(d, 0)",
      induct="d", base="0")
lemma("pm_ge", {"y": "arr2", "a": "int", "b": "int", "d": "int", "D": "int"}, ["0 <= d", "d < D", "meets(y, a, b, d)"],
      "prevmeet(y, a, b, D) >= d", induct="D", base="d + 1")
# rows of the triangular table do not interleave: row b occupies trin(b) .. trin(b) + b - 1, and the next row starts there
lemma("trin_up", {"c": "int", "n": "int"}, ["0 <= c"], "forall(b, c + 1, n, trin(c) + c <= trin(b))", induct="n", base="c + 1",
      uses=["trin_nonneg(n - 1)", "trin_nonneg(n - 2)"])      # (ground mentions: trin(n - 1) gets unfolded)
lemma("trin_dn", {"c": "int"}, [], "forall(b, 0, c, trin(b) + b <= trin(c))", induct="c", base="0",
      uses=["trin_nonneg(c)", "trin_nonneg(c - 1)"])
lemma("trin_inj_all", {"a0": "int", "b0": "int", "n": "int"}, ["0 <= a0", "a0 < b0", "b0 < n"],
      "forall(b, 1, n, forall(a, 0, b, implies(not (a == a0 and b == b0), trin(b) + a != trin(b0) + a0)))",
      uses=["trin_up(b0, n)", "trin_dn(b0)"],
      note="the slot of a pair in the triangular table is not the slot of any other pair")

spec("sepd(y, a, b, d, smin, smax)", "implies(meets(y, a, b, d) and prevmeet(y, a, b, d) >= 0, "
     "smin <= d - prevmeet(y, a, b, d) - 1 and d - prevmeet(y, a, b, d) - 1 <= smax)", ret="bool")
_c = CONTRACTS[ER + ":count_errors"]
_c.loops["0"].inv.append(tag("C07", "zero-implies-separation-table",
    "implies(errors == 0, forall(b, 1, n, forall(a, 0, b, temp_1[trin(b) + a] == (prevmeet(y, a, b, D) if a < team_1 else -1))))"))
_c.loops["0"].inv.append(tag("C07", "zero-implies-separations-in-range",
    "implies(errors == 0, forall(a, 0, team_1, forall(b, a + 1, n, forall(d, 0, D, sepd(y, a, b, d, separation_min, separation_max)))))"))
_c.loops["0.0"].inv.append(tag("C07", "zero-implies-separation-table",
    "implies(errors == 0, forall(b, 1, n, forall(a, 0, b, temp_1[trin(b) + a] == "
    "(prevmeet(y, a, b, D) if a < team_1 else (prevmeet(y, a, b, day) if a == team_1 else -1)))))"))
_c.loops["0.0"].inv.append(tag("C07", "zero-implies-separations-in-range-this-team",
    "implies(errors == 0, forall(b, team_1 + 1, n, forall(d, 0, day, sepd(y, team_1, b, d, separation_min, separation_max))))"))
_c.loops["0.0"].inv.append(tag("C07", "zero-implies-separations-in-range-earlier-teams",
    "implies(errors == 0, forall(a, 0, team_1, forall(b, a + 1, n, forall(d, 0, D, sepd(y, a, b, d, separation_min, separation_max)))))"))
_c.lemmas_at["after if #16"] = ["trin_closed(team_1)", "trin_closed(team_2)"]
_c.asserts["after assign idx #0"] = [tag("C07", "slot-of-the-pair",
    "idx == (trin(team_1) + team_2 if team_1 > team_2 else trin(team_2) + team_1)")]
_c.lemmas_at["after assign idx #0"] = ["trin_mono((team_1 if team_1 > team_2 else team_2) + 1, n)", "trin_closed(n)",
                                       "trin_nonneg(team_1)", "trin_nonneg(team_2)"]
_c.lemmas_at["after assign last_time #0"] = [
    "trin_inj_all(team_2 if team_1 > team_2 else team_1, team_1 if team_1 > team_2 else team_2, n)",
    "pm_range(y, team_1, team_2, day)", "pm_ge(y, team_2, team_1, day, D)"]
_c.asserts["after assign last_time #0"] = [
    tag("C07", "last-time-is-previous-meeting", "implies(errors == 0 and team_1 < team_2, last_time == prevmeet(y, team_1, team_2, day))"),
    tag("C07", "second-scan-sees-the-final-day", "implies(errors == 0 and team_2 < team_1, last_time == prevmeet(y, team_2, team_1, D)"
        " and last_time >= day)"),
    tag("C07", "opponent-of-the-day", "meets(y, team_1, team_2, day) and forall(b, 0, n, implies(b != team_2, not meets(y, team_1, b, day)))"),
]
_c.ensures.append(tag("C07", "zero-implies-repeated-pairings-respect-the-separation-limits",
    "implies(result == 0, forall(a, 0, n, forall(b, a + 1, n, forall(d, 0, D, sepd(y, a, b, d, separation_min, separation_max)))))"))


# ====================================================================== C07, converse direction: a feasible schedule has value 0
# second contract on the same real function: under the hypothesis that the plan satisfies every rule of the statement
# (the four clauses that `result == 0` was shown to imply above), every statement that adds to `errors` is unreachable or
# adds 0, so the counter stays 0.  Together: count_errors(y) == 0 if and only if y is a feasible schedule.
import copy as _copy  # noqa: E402

_FEASIBLE = [
    "forall(t, 0, n, forall(d, 0, D, cell_ok(y, d, t, n)))",
    # g is written with the very terms the code divides (days = y.shape[0], teams = y.shape[1]): same operands, same quotient
    "g == shape(y, 0) // (shape(y, 1) - 1) and forall(a, 0, n, forall(b, 0, a, pair_ok(y, a, b, D, g)))",
    "forall(t, 0, n, team_streaks_ok(y, t, D, home_streak_min, home_streak_max, away_streak_min, away_streak_max))",
    "forall(a, 0, n, forall(b, a + 1, n, forall(d, 0, D, sepd(y, a, b, d, separation_min, separation_max))))",
]
_k = _copy.deepcopy(CONTRACTS[ER + ":count_errors"])
_k.fn = ER + ":count_errors#complete"
_k.ghosts = dict(_k.ghosts, g=INT)
_k.requires = _k.requires + [tag("C07", f"feasible-{i}", e) for i, e in enumerate(_FEASIBLE)]
_k.gen = None
_k.call = None
_k.must_fail = []


def _keep(cl):      # drop the `errors == 0 implies ...` clauses and the monotonicity clauses of the first contract
    return "implies(errors == 0" not in cl.expr and "implies(result == 0" not in cl.expr and cl.label != "nonneg"


for _lk, _lp in _k.loops.items():
    _lp.inv = [c for c in _lp.inv if _keep(c)] + [tag("C07", "no-error-so-far", "errors == 0")]
_k.loops["0"].inv.append(tag("C07", "separation-table",
    "forall(b, 1, n, forall(a, 0, b, temp_1[trin(b) + a] == (prevmeet(y, a, b, D) if a < team_1 else -1)))"))
_k.loops["0.0"].inv.append(tag("C07", "separation-table",
    "forall(b, 1, n, forall(a, 0, b, temp_1[trin(b) + a] == "
    "(prevmeet(y, a, b, D) if a < team_1 else (prevmeet(y, a, b, day) if a == team_1 else -1))))"))
for _lk in ("1", "1.0"):
    _k.loops[_lk].inv.append(tag("C07", "games-per-pairing", "games_per_combo == g and teams == n and days == D"
                                 + (" and 0 <= i and i < n" if _lk == "1.0" else "")))
    _k.loops[_lk].inv.append(tag("C07", "pair-table", "forall(a, 0, n, forall(b, 0, n, temp_2[a, b] == hc(y, a, b, D)))"))
_k.ensures = [tag("C07", "feasible-schedule-has-value-zero", "result == 0")]
CONTRACTS[_k.fn] = _k


def _gen_feasible(rng):
    """feasible schedules (witnesses that the hypothesis of the converse contract is satisfiable): the two 4-team double
    round robins of the docstring of count_errors, team labels permuted, under limits they satisfy"""
    base = rng.choice([[[2, -1, 4, -3], [4, 3, -2, -1], [-2, 1, -4, 3], [3, 4, -1, -2], [-4, -3, 2, 1], [-3, -4, 1, 2]],
                       [[2, -1, 4, -3], [4, 3, -2, -1], [3, 4, -1, -2], [-2, 1, -4, 3], [-4, -3, 2, 1], [-3, -4, 1, 2]]])
    perm = list(range(4))
    rng.shuffle(perm)            # relabel the teams: column perm[t] holds the games of team t under its new name
    y = np.zeros((6, 4), np.int8)
    for d in range(6):
        for t in range(4):
            v = base[d][t]
            opp = perm[abs(v) - 1] + 1
            y[d, perm[t]] = opp if v > 0 else -opp
    dt = rng.choice([np.int8, np.int16, np.int64])
    return {"y": y, "home_streak_min": 1, "home_streak_max": rng.choice([3, 4]), "away_streak_min": 1,
            "away_streak_max": rng.choice([3, 5]), "separation_min": rng.choice([0, 1]), "separation_max": rng.choice([2, 6]),
            "temp_1": np.full(6, 77, dt), "temp_2": np.full((4, 4), 77, dt), "n": 4, "D": 6, "g": 2}


CONTRACTS[ER + ":count_errors#complete"].gen = _gen_feasible
CONTRACTS[ER + ":count_errors#complete"].call = _call_count_errors


# ====================================================================== GamePlanSpace.validate (C13 / C07 / C08 / C15 pre-condition)
# the kernels' pre-condition "entries in -n..n, shape (n-1)*rounds x n" is what this method lets through
contract(
    "moptipyapps.ttp.game_plan_space:GamePlanSpace.validate",
    props="C13 C07 C08",
    block=("assign n #0", "for #0"),
    params={"x": A2("Y")}, ghosts={"N": PYINT, "R": PYINT}, i64=False,
    attrs={"inst.n_cities": "N", "inst.rounds": "R", "x.shape": "(shape(x, 0), shape(x, 1))"},
    requires=["N >= 2 and R >= 1"],
    loops={"0": Loop(inv=["0 <= i and i <= n_days and n == N and n_days == (N - 1) * R and min_id == -N"
                          " and shape(x, 0) == n_days and shape(x, 1) == n",
                          "forall(a, 0, i, forall(b, 0, n, -N <= x[a, b] and x[a, b] <= N))"]),
           "0.0": Loop(inv=["0 <= i and i < n_days and 0 <= j and j <= n and n == N and n_days == (N - 1) * R and min_id == -N"
                            " and shape(x, 0) == n_days and shape(x, 1) == n",
                            "forall(a, 0, i, forall(b, 0, n, -N <= x[a, b] and x[a, b] <= N))",
                            "forall(b, 0, j, -N <= x[i, b] and x[i, b] <= N)"])},
    ensures=[tag("C13 C07 C08", "accepted-plans-have-the-right-shape-and-entries-in-range",
                 "shape(x, 0) == (N - 1) * R and shape(x, 1) == N and "
                 "forall(a, 0, (N - 1) * R, forall(b, 0, N, -N <= x[a, b] and x[a, b] <= N))")],
)
