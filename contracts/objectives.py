"""Contracts: the bin-packing objective kernels."""
import numpy as np

from pyvc.spec import A1, A2, INT, Loop, contract, spec, tag, lemma, CONTRACTS

OB = "moptipyapps.binpacking2d.objectives."

spec("maxbin(y, k)", "0 if k <= 0 else max(maxbin(y, k - 1), y[k - 1, IDX_BIN])", ptypes=["arr2", "int"])
spec("count_in(y, b, k)", "0 if k <= 0 else count_in(y, b, k - 1) + (1 if y[k - 1, IDX_BIN] == b else 0)",
     ptypes=["arr2", "int", "int"], qdef=True)
spec("rarea(y, r)", "(y[r, IDX_RIGHT_X] - y[r, IDX_LEFT_X]) * (y[r, IDX_TOP_Y] - y[r, IDX_BOTTOM_Y])",
     ptypes=["arr2", "int"])
spec("area_in(y, b, k)", "0 if k <= 0 else area_in(y, b, k - 1) + (rarea(y, k - 1) if y[k - 1, IDX_BIN] == b else 0)",
     ptypes=["arr2", "int", "int"], qdef=True)

lemma("count_zero", {"y": "arr2", "b": "int", "k": "int"}, ["forall(r, 0, k, y[r, IDX_BIN] != b)"],
      "count_in(y, b, k) == 0", induct="k", base="0")
lemma("count_le", {"y": "arr2", "b": "int", "k": "int"}, [], "0 <= count_in(y, b, k) and count_in(y, b, k) <= k",
      induct="k", base="0")
lemma("area_zero", {"y": "arr2", "b": "int", "k": "int"}, ["forall(r, 0, k, y[r, IDX_BIN] != b)"],
      "area_in(y, b, k) == 0", induct="k", base="0")
lemma("area_le", {"y": "arr2", "b": "int", "k": "int", "A": "int"},
      ["A >= 0", "forall(r, 0, k, 0 <= rarea(y, r) and rarea(y, r) <= A)"],
      "0 <= area_in(y, b, k) and area_in(y, b, k) <= k * A", induct="k", base="0")
lemma("maxbin_ge", {"y": "arr2", "k": "int", "r": "int"}, ["0 <= r", "r < k"], "y[r, IDX_BIN] <= maxbin(y, k)",
      induct="k", base="r + 1")

lemma("mul_le", {"a": "int", "b": "int", "c": "int"}, ["0 <= a", "b <= c"], "a * b <= a * c")

# what every packing handed to an objective satisfies (PackingSpace.validate / the decoders): n rows, bins in 1..n;
# the kernels are specified for arbitrary row order and sparse bins
_pack_pre = [
    "n >= 1 and len(y) == n",
    "forall(r, 0, n, 1 <= y[r, IDX_BIN] and y[r, IDX_BIN] <= n)",
    # n * n must fit: a packing is an n x 6 array held in memory, so n < 2**31 (assumption listed in the evidence)
    "D_hi <= 2**63 - 1 and n * n <= 2**62",
]
_consts = {"IDX_BIN": 1, "IDX_LEFT_X": 2, "IDX_BOTTOM_Y": 3, "IDX_RIGHT_X": 4, "IDX_TOP_Y": 5}

contract(
    OB + "bin_count_and_last_empty:bin_count_and_last_empty",
    props="C02",
    params={"y": A2("D", cols=6)}, ghosts={"n": INT}, returns=INT,
    requires=_pack_pre,
    loops={"0": Loop(
        lemmas=["count_zero(y, y[i - 1, IDX_BIN], i - 1)"],
        inv=[
            tag("C02", "cur-bin", "current_bin == (maxbin(y, i) if i > 0 else -1)"),
            tag("C02", "cur-bin-dominates", "forall(r, 0, i, y[r, IDX_BIN] <= current_bin)"),
            tag("C02", "cur-size", "implies(i > 0, current_size == count_in(y, current_bin, i))"),
            tag("C02", "ranges", "current_bin <= n and current_size <= i and -1 <= current_size"),
        ])},
    lemmas_at={"after for #0": ["mul_le(n_items, current_bin - 1, n)", "mul_le(n_items, -2, current_bin - 1)"]},
    ensures=[tag("C02", "value", "result == n_items * (current_bin - 1) + current_size and n_items == n"
                 " and current_bin == maxbin(y, n) and current_size == count_in(y, maxbin(y, n), n)")],
    must_fail=["result == n"],
)

contract(
    OB + "bin_count_and_empty:bin_count_and_empty",
    props="C02",
    params={"y": A2("D", cols=6), "temp": A1("T", uninit=True)}, ghosts={"n": INT}, returns=INT,
    requires=_pack_pre + ["len(temp) == n and T_hi >= n and T_hi <= 2**63 - 1"],
    modifies=["temp"],
    loops={"0": Loop(
        lemmas=["count_le(y, y[i - 1, IDX_BIN], i - 1)"],
        inv=[
            tag("C02", "total-bins", "total_bins == (maxbin(y, i) - 1 if i > 0 else -1) and total_bins < n"),
            tag("C02 C13", "temp-written", "forall(b, 0, n, written(temp, b))"),
            tag("C02", "temp-counts", "forall(b, 1, n + 1, temp[b - 1] == count_in(y, b, i))"),
            tag("C02", "temp-counts-shifted", "forall(b, 0, n, temp[b] == count_in(y, b + 1, i))"),
            tag("C02", "temp-range", "forall(b, 0, n, 0 <= temp[b] and temp[b] <= i)"),
        ])},
    lemmas_at={"after for #0": ["mul_le(n_items, total_bins, n)", "mul_le(n_items, -1, total_bins)"]},
    ensures=[
        tag("C02", "bins", "n_items == n and total_bins == maxbin(y, n) - 1"),
        tag("C02", "value-attained", "exists(b, 1, maxbin(y, n) + 1, result == n_items * total_bins + count_in(y, b, n))"),
        tag("C02", "value-minimal", "forall(b, 1, maxbin(y, n) + 1, result <= n_items * total_bins + count_in(y, b, n))"),
    ],
    must_fail=["result == n"],
)

_area_pre = _pack_pre + [
    # "products within int64": the declared upper bound n_items * bin_area of these objectives must itself be an int64
    "bin_area >= 1 and A >= 0 and n * A <= 2**61 and n * bin_area <= 2**61",
    "forall(r, 0, n, 0 <= rarea(y, r) and rarea(y, r) <= A)",
    "forall(r, 0, n, -2**62 <= y[r, IDX_RIGHT_X] - y[r, IDX_LEFT_X] and y[r, IDX_RIGHT_X] - y[r, IDX_LEFT_X] <= 2**62"
    " and -2**62 <= y[r, IDX_TOP_Y] - y[r, IDX_BOTTOM_Y] and y[r, IDX_TOP_Y] - y[r, IDX_BOTTOM_Y] <= 2**62)",
]

contract(
    OB + "bin_count_and_last_small:bin_count_and_last_small",
    props="C02",
    params={"y": A2("D", cols=6), "bin_area": INT}, ghosts={"n": INT, "A": INT}, returns=INT,
    requires=_area_pre,
    loops={"0": Loop(
        lemmas=["area_zero(y, y[i - 1, IDX_BIN], i - 1)", "area_le(y, current_bin, i, A)"],
        inv=[
            tag("C02", "cur-bin", "current_bin == (maxbin(y, i) if i > 0 else -1) and current_bin <= n"),
            tag("C02", "cur-bin-dominates", "forall(r, 0, i, y[r, IDX_BIN] <= current_bin)"),
            tag("C02", "cur-area", "current_area == (area_in(y, current_bin, i) if i > 0 else 0)"),
            tag("C02", "area-range", "0 <= current_area and current_area <= i * A"),
        ])},
    lemmas_at={"after for #0": ["mul_le(bin_area, current_bin - 1, n)", "mul_le(bin_area, -2, current_bin - 1)"],
               "after assign area #0": ["mul_le(A, i, n)"]},
    asserts={"after if #0": [tag("C02", "row-area-def", "rarea(y, i) == (y[i, IDX_RIGHT_X] - y[i, IDX_LEFT_X])"
                                 " * (y[i, IDX_TOP_Y] - y[i, IDX_BOTTOM_Y])")],
             "after assign area #0": [tag("C02", "row-area", "area == rarea(y, i)")]},
    ensures=[tag("C02", "value", "result == bin_area * (current_bin - 1) + current_area"
                 " and current_bin == maxbin(y, n) and current_area == area_in(y, maxbin(y, n), n)")],
    must_fail=["result == 0"],
)

contract(
    OB + "bin_count_and_small:bin_count_and_small",
    props="C02",
    params={"y": A2("D", cols=6), "bin_area": INT, "temp": A1("T", uninit=True)}, ghosts={"n": INT, "A": INT}, returns=INT,
    requires=_area_pre + ["len(temp) == n and T_lo == -2**63 and T_hi == 2**63 - 1"],
    modifies=["temp"],
    loops={"0": Loop(
        lemmas=["area_le(y, y[i - 1, IDX_BIN], i - 1, A)"],
        inv=[
            tag("C02", "total-bins", "total_bins == (maxbin(y, i) - 1 if i > 0 else 0) and total_bins < n and 0 <= total_bins"),
            tag("C02 C13", "temp-written", "forall(b, 0, n, written(temp, b))"),
            tag("C02", "temp-areas", "forall(b, 1, n + 1, temp[b - 1] == area_in(y, b, i))"),
            tag("C02", "temp-areas-shifted", "forall(b, 0, n, temp[b] == area_in(y, b + 1, i))"),
            tag("C02", "temp-range", "forall(b, 0, n, 0 <= temp[b] and temp[b] <= i * A)"),
        ])},
    lemmas_at={"after for #0": ["mul_le(bin_area, total_bins, n)", "mul_le(bin_area, -1, total_bins)"],
               "after assign bin_idx #0": ["mul_le(A, i, n)"]},
    asserts={"after assign bin_idx #0": [tag("C02", "row-area", "rarea(y, i) == (y[i, IDX_RIGHT_X] - y[i, IDX_LEFT_X])"
                                             " * (y[i, IDX_TOP_Y] - y[i, IDX_BOTTOM_Y])")]},
    ensures=[
        tag("C02", "bins", "total_bins == maxbin(y, n) - 1"),
        tag("C02", "value-attained", "exists(b, 1, maxbin(y, n) + 1, result == bin_area * total_bins + area_in(y, b, n))"),
        tag("C02", "value-minimal", "forall(b, 1, maxbin(y, n) + 1, result <= bin_area * total_bins + area_in(y, b, n))"),
    ],
    must_fail=["result == 0"],
)


# ---------------------------------------------------------------- skyline kernels: memory safety, overflow, termination
# (functional specification "area under the skyline": see bounded oracle bounded/objectives_oracle.py)
_sky_pre = [
    "n >= 1 and len(y) == n",
    "forall(r, 0, n, 1 <= y[r, IDX_BIN] and y[r, IDX_BIN] <= n)",
    "bin_width >= 1 and bin_height >= 1 and bin_width * bin_height <= 2**61 and n * (bin_width * bin_height) <= 2**61",
    "forall(r, 0, n, 0 <= y[r, IDX_LEFT_X] and y[r, IDX_LEFT_X] < y[r, IDX_RIGHT_X] and y[r, IDX_RIGHT_X] <= bin_width"
    " and 0 < y[r, IDX_TOP_Y] and y[r, IDX_TOP_Y] <= bin_height)",
    "D_hi <= 2**63 - 1",
]
_sky_scan_inv = [
    tag("C02 C13", "scan-right", "cur_left < use_right and use_right <= bin_width"),
    tag("C02 C13", "scan-next", "cur_left < next_left and next_left <= bin_width"),
    tag("C02 C13", "scan-top", "0 <= use_top and use_top <= bin_height"),
]
lemma("mul_le2", {"a": "int", "b": "int", "c": "int", "d": "int"}, ["0 <= a", "a <= c", "0 <= b", "b <= d"], "a * b <= c * d")

contract(
    OB + "bin_count_and_last_skyline:bin_count_and_last_skyline",
    props="C02",
    params={"y": A2("D", cols=6), "bin_width": INT, "bin_height": INT}, ghosts={"n": INT}, returns=INT,
    requires=_sky_pre,
    loops={
        "0": Loop(variant="bin_width - cur_left", inv=[
            tag("C02 C13", "sweep", "0 <= cur_left and cur_left <= bin_width and len_y == n and bin_size == bin_height * bin_width"
                " and 1 <= bins and bins <= n and 1 <= use_bin and use_bin <= n"),
            tag("C02", "area-bound", "0 <= area_under_skyline and area_under_skyline <= cur_left * bin_height"),
        ]),
        "0.0": Loop(inv=_sky_scan_inv),
    },
    lemmas_at={"after assign use_right #2": ["mul_le2(use_right - cur_left, use_top, use_right - cur_left, bin_height)",
                                             "mul_le(bin_height, use_right, bin_width)"],
               "after while #0": ["mul_le(bin_size, bins - 1, n)", "mul_le(bin_height, cur_left, bin_width)"]},
    ensures=[tag("C02", "range", "(bins - 1) * bin_size <= result and result <= (bins - 1) * bin_size + bin_size")],
)

contract(
    OB + "bin_count_and_lowest_skyline:bin_count_and_lowest_skyline",
    props="C02",
    params={"y": A2("D", cols=6), "bin_width": INT, "bin_height": INT}, ghosts={"n": INT}, returns=INT,
    requires=_sky_pre,
    loops={
        "0": Loop(inv=[
            tag("C02 C13", "bins", "len_y == n and bin_size == bin_height * bin_width and 1 <= bins and bins <= n"),
            tag("C02", "min-bound", "0 <= min_area_under_skyline and min_area_under_skyline <= bin_size"),
        ]),
        "0.0": Loop(variant="bin_width - cur_left", inv=[
            tag("C02 C13", "sweep", "0 <= cur_left and cur_left <= bin_width"),
            tag("C02", "area-bound", "0 <= area_under_skyline and area_under_skyline <= cur_left * bin_height"),
        ]),
        "0.0.0": Loop(inv=_sky_scan_inv),
    },
    lemmas_at={"after assign use_right #2": ["mul_le2(use_right - cur_left, use_top, use_right - cur_left, bin_height)",
                                             "mul_le(bin_height, use_right, bin_width)"],
               "after while #0": ["mul_le(bin_height, cur_left, bin_width)"],
               "after for #0": ["mul_le(bin_size, bins - 1, n)"]},
    ensures=[tag("C02", "range", "(bins - 1) * bin_size <= result and result <= (bins - 1) * bin_size + bin_size")],
)


# ---------------------------------------------------------------- generators
def _rand_packing(rng):
    from contracts.binpacking import rand_instance, rand_signed_perm
    from moptipyapps.binpacking2d.encodings.ibl_encoding_2 import ImprovedBottomLeftEncoding2
    from moptipyapps.binpacking2d.packing import Packing
    inst = rand_instance(rng)
    y = Packing(inst)
    ImprovedBottomLeftEncoding2(inst).decode(rand_signed_perm(rng, inst), y)
    arr = np.array(y)
    if rng.random() < 0.5:
        order = list(range(len(arr)))
        rng.shuffle(order)
        arr = arr[order, :]
    if rng.random() < 0.3:     # sparse: unused bin numbers in between are allowed by the kernels' contracts
        arr[rng.randrange(len(arr)), 1] = len(arr)
    return inst, arr


def _mk(name, extra):
    def gen(rng):
        inst, arr = _rand_packing(rng)
        n = len(arr)
        d = {"y": arr, "n": n}
        A = max((int(r[4]) - int(r[2])) * (int(r[5]) - int(r[3])) for r in arr)
        for e in extra:
            if e == "temp_d":
                d["temp"] = np.full(n, -3, arr.dtype)
            elif e == "temp_i":
                d["temp"] = np.full(n, -3, np.int64)
            elif e == "bin_area":
                d["bin_area"] = int(inst.bin_width * inst.bin_height)
                d["A"] = A
            elif e == "wh":
                d["bin_width"], d["bin_height"] = int(inst.bin_width), int(inst.bin_height)
        return d

    def call(inp):
        import importlib
        f = getattr(importlib.import_module(OB + name), name)
        args = [inp[a] for a in CONTRACTS[OB + name + ":" + name].params]
        return int(f(*args))
    CONTRACTS[OB + name + ":" + name].gen = gen
    CONTRACTS[OB + name + ":" + name].call = call


_mk("bin_count_and_last_empty", [])
_mk("bin_count_and_empty", ["temp_d"])
_mk("bin_count_and_last_small", ["bin_area"])
_mk("bin_count_and_small", ["bin_area", "temp_i"])
_mk("bin_count_and_last_skyline", ["wh"])
_mk("bin_count_and_lowest_skyline", ["wh"])


# ====================================================================== class wrappers: scratch allocation and call sites (C13, C02)
from pyvc.spec import OBJ, PYINT, Summary  # noqa: E402

_super = {"call super().__init__ #0": Summary({}, [], "base-class constructor (stores the instance)")}
# facts about a packing handed to evaluate (PackingSpace / decoders) phrased for the wrappers
_X = ["n >= 1 and len(x) == n", "forall(r, 0, n, 1 <= x[r, IDX_BIN] and x[r, IDX_BIN] <= n)", "D_hi <= 2**63 - 1 and n * n <= 2**62"]
_XA = _X + ["A >= 0 and n * A <= 2**61", "forall(r, 0, n, 0 <= rarea(x, r) and rarea(x, r) <= A)",
            "forall(r, 0, n, -2**62 <= x[r, IDX_RIGHT_X] - x[r, IDX_LEFT_X] and x[r, IDX_RIGHT_X] - x[r, IDX_LEFT_X] <= 2**62"
            " and -2**62 <= x[r, IDX_TOP_Y] - x[r, IDX_BOTTOM_Y] and x[r, IDX_TOP_Y] - x[r, IDX_BOTTOM_Y] <= 2**62)"]

contract(
    OB + "bin_count_and_empty:BinCountAndEmpty.__init__", props="C13 C02",
    params={"instance": A2("ID", cols=3)}, ghosts={"n": PYINT}, i64=False,
    attrs={"instance.n_items": "n", "instance.dtype": "(ID_lo, ID_hi)"},
    requires=["n >= 1 and ID_hi >= n + 1 and ID_hi <= 2**63 - 1"],       # Instance.__new__: dtype holds n_items + 1
    summaries=_super,
    ensures=[tag("C13 C02", "scratch", "len(self.__temp) == n and dtype_hi(self.__temp) >= n and dtype_hi(self.__temp) <= 2**63 - 1")],
)
contract(
    OB + "bin_count_and_empty:BinCountAndEmpty.evaluate", props="C13 C02",
    params={"x": A2("D", cols=6)}, ghosts={"n": PYINT}, fields={"self.__temp": A1("T", uninit=True)}, i64=False,
    requires=_X + ["len(self.__temp) == n and T_hi >= n and T_hi <= 2**63 - 1"],
    calls={"bin_count_and_empty": {"n": "n"}}, returns=INT,
)
contract(
    OB + "bin_count_and_small:BinCountAndSmall.__init__", props="C13 C02",
    params={"instance": A2("ID", cols=3)}, ghosts={"n": PYINT}, i64=False,
    attrs={"instance.n_items": "n"}, requires=["n >= 1"], summaries=_super,
    ensures=[tag("C13 C02", "scratch", "len(self.__temp) == n and dtype_lo(self.__temp) == -2**63 and dtype_hi(self.__temp) == 2**63 - 1")],
)
contract(
    OB + "bin_count_and_small:BinCountAndSmall.evaluate", props="C13 C02",
    params={"x": A2("D", cols=6)}, ghosts={"n": PYINT, "A": PYINT, "BA": PYINT},
    fields={"self.__temp": A1("T", uninit=True)}, i64=False,
    attrs={"self._bin_size": "BA"},
    requires=_XA + ["BA >= 1 and n * BA <= 2**61", "len(self.__temp) == n and T_lo == -2**63 and T_hi == 2**63 - 1"],
    calls={"bin_count_and_small": {"n": "n", "A": "A"}}, returns=INT,
)
contract(
    OB + "bin_count_and_last_small:BinCountAndLastSmall.evaluate", props="C13 C02",
    params={"x": A2("D", cols=6)}, ghosts={"n": PYINT, "A": PYINT, "BA": PYINT}, i64=False,
    attrs={"self._bin_size": "BA"},
    requires=_XA + ["BA >= 1 and n * BA <= 2**61"],
    calls={"bin_count_and_last_small": {"n": "n", "A": "A"}}, returns=INT,
)
contract(
    OB + "bin_count_and_last_small:BinCountAndLastSmall.__init__", props="C02",
    params={"instance": OBJ}, ghosts={"W": PYINT, "H": PYINT}, i64=False,
    attrs={"instance.bin_width": "W", "instance.bin_height": "H"}, summaries=_super,
    ensures=[tag("C02", "bin-size-is-area", "self._bin_size == W * H")],
)


# ====================================================================== to_bin_count and dominance (C02)
_ceil_div = contract("<opaque>:ceil_div", params={"a": PYINT, "b": PYINT}, returns=PYINT,
                     requires=[tag("C02", "positive-divisor", "b >= 1")],
                     ensures=["result * b >= a and (result - 1) * b < a"],
                     assumptions=["pycommons.math.int_math.ceil_div(a, b) is the exact integer ceiling of a / b for b >= 1"])

contract(
    OB + "bin_count_and_last_small:BinCountAndLastSmall.to_bin_count", props="C02",
    params={"z": PYINT}, ghosts={"A": PYINT, "k": PYINT, "tie": PYINT}, i64=False, returns=PYINT,
    attrs={"self._bin_size": "A"}, opaque={"ceil_div": _ceil_div},
    # every value of the four area-based objectives has the form A*(k-1) + tie with 1 <= tie <= A (tie = covered area or
    # area under the skyline of one bin: positive, at most the bin area)
    requires=["A >= 1 and k >= 1 and 1 <= tie and tie <= A and z == A * (k - 1) + tie"],
    ensures=[tag("C02", "converts-back-to-bin-count", "result == k")],
)
contract(
    OB + "bin_count_and_last_empty:BinCountAndLastEmpty.to_bin_count", props="C02",
    params={"z": PYINT}, ghosts={"N": PYINT, "k": PYINT, "tie": PYINT}, i64=False, returns=PYINT,
    attrs={"self._instance.n_items": "N"}, opaque={"ceil_div": _ceil_div},
    requires=["N >= 1 and k >= 1 and 1 <= tie and tie <= N and z == N * (k - 1) + tie"],
    ensures=[tag("C02", "converts-back-to-bin-count", "result == k")],
)
# strict dominance: fewer bins => strictly smaller value, for every objective of the form scale*(bins-1) + tie, 1 <= tie <= scale
lemma("dominance", {"S": "int", "k1": "int", "t1": "int", "k2": "int", "t2": "int"},
      ["S >= 1", "1 <= k1", "k1 < k2", "1 <= t1", "t1 <= S", "1 <= t2", "t2 <= S"],
      "S * (k1 - 1) + t1 < S * (k2 - 1) + t2")


# ====================================================================== declared bounds (C02)
# lower_bound() / upper_bound() of the three base classes (the other four inherit them): one-sided on purpose - the
# property needs every attainable value to lie between them, so a declared lower bound may be anything up to the smallest
# attainable value and a declared upper bound anything from the largest one (a maintainer may weaken a bound without
# breaking the property).  The lemmas "every value of the form scale*(k-1)+tie that a feasible packing can produce lies between
# them".  What the lemmas take from elsewhere: L <= k (the instance's bin lower bound is valid: C03, assumption A2) and
# k <= N (every bin of a feasible packing holds an item: C01/C04).
_IA = {"self._instance.n_items": "N", "self._instance.lower_bound_bins": "L", "self._instance.total_item_area": "TA",
       "self._instance.bin_width": "W", "self._instance.bin_height": "H"}
contract(OB + "bin_count:BinCount.lower_bound", props="C02", params={}, ghosts={"L": PYINT}, attrs=_IA, i64=False,
         returns=PYINT, ensures=[tag("C02", "declared-lower-bound-is-valid", "result <= L")])
contract(OB + "bin_count:BinCount.upper_bound", props="C02", params={}, ghosts={"N": PYINT}, attrs=_IA, i64=False,
         returns=PYINT, ensures=[tag("C02", "declared-upper-bound-is-valid", "result >= N")])
contract(OB + "bin_count:BinCount.to_bin_count", props="C02", params={"z": PYINT}, i64=False, returns=PYINT,
         ensures=[tag("C02", "converts-back-to-bin-count", "result == z")])
contract(OB + "bin_count_and_last_empty:BinCountAndLastEmpty.lower_bound", props="C02", params={},
         ghosts={"L": PYINT, "N": PYINT}, attrs=_IA, i64=False, returns=PYINT,
         ensures=[tag("C02", "declared-lower-bound-is-valid", "result <= max(N, (L - 1) * N + 1)")])
contract(OB + "bin_count_and_last_empty:BinCountAndLastEmpty.upper_bound", props="C02", params={},
         ghosts={"N": PYINT}, attrs=_IA, i64=False, returns=PYINT,
         ensures=[tag("C02", "declared-upper-bound-is-valid", "result >= N * N")])
# smallest item area of the instance matrix (rows 0..k-1)
spec("minarea(inst, k)", "inst[0, 0] * inst[0, 1] if k <= 1 else min(minarea(inst, k - 1), inst[k - 1, 0] * inst[k - 1, 1])",
     ptypes=["arr2", "int"])
contract(OB + "bin_count_and_last_small:BinCountAndLastSmall.lower_bound", props="C02", params={}, npscalars=True,
         ghosts={"L": PYINT, "TA": PYINT, "W": PYINT, "H": PYINT, "inst": A2("I", cols=3)}, i64=False, returns=PYINT,
         attrs=dict(_IA, **{"self._instance": "inst"}),
         requires=["shape(inst, 0) >= 1", "forall(r, 0, shape(inst, 0), inst[r, 0] >= 1 and inst[r, 1] >= 1)", "L >= 1"],
         loops={"0": Loop(index="r", inv=["0 <= r and r <= shape(inst, 0)",
                                          "implies(r == 0, smallest_area == -1)",
                                          "implies(r >= 1, smallest_area <= minarea(inst, r) and smallest_area >= 1)"])},
         ensures=[tag("C02", "declared-lower-bound-is-valid",
                      "result <= (TA if L == 1 else (L - 1) * H * W + minarea(inst, shape(inst, 0)))")])
contract(OB + "bin_count_and_last_small:BinCountAndLastSmall.upper_bound", props="C02", params={},
         ghosts={"N": PYINT, "W": PYINT, "H": PYINT}, attrs=_IA, i64=False, returns=PYINT,
         ensures=[tag("C02", "declared-upper-bound-is-valid", "result >= N * H * W")])

# value = N*(k-1) + cnt with cnt = number of items in the last (or in the emptiest) bin
lemma("bounds_item_count", {"N": "int", "L": "int", "k": "int", "cnt": "int", "z": "int"},
      ["N >= 1", "1 <= L", "L <= k", "k <= N", "1 <= cnt", "cnt <= N", "implies(k == 1, cnt == N)", "z == N * (k - 1) + cnt"],
      "max(N, (L - 1) * N + 1) <= z and z <= N * N",
      note="BinCountAndLastEmpty / BinCountAndEmpty: every value lies within [lower_bound(), upper_bound()]")
# value = A*(k-1) + ar with ar = area covered in the last (or in the least covered) bin; sm = smallest item area
lemma("bounds_area", {"N": "int", "L": "int", "k": "int", "A": "int", "TA": "int", "sm": "int", "ar": "int", "z": "int"},
      ["N >= 1", "A >= 1", "1 <= L", "L <= k", "k <= N", "1 <= sm", "sm <= ar", "ar <= A", "implies(k == 1, ar >= TA)",
       "implies(L == 1, TA <= A)", "z == A * (k - 1) + ar"],
      "(TA if L == 1 else (L - 1) * A + sm) <= z and z <= N * A",
      note="BinCountAndLastSmall / BinCountAndSmall (ar = covered area of the bin) and the two skyline objectives (ar = area "
           "under the skyline of the bin >= its covered area, A1' in lean/A1b.lean): every value lies within "
           "[lower_bound(), upper_bound()]; L == 1 implies TA <= A because L >= ceil(TA / A) (C03)")
lemma("bounds_bin_count", {"N": "int", "L": "int", "k": "int"}, ["1 <= L", "L <= k", "k <= N"], "L <= k and k <= N",
      note="BinCount: the value is the bin count itself")


# ====================================================================== the skyline value (C02)
# skyh(y, b, x, k): height of the skyline of bin b at column x, looking at rows 0..k-1 (0 where no item stands);
# skyarea(y, b, X, n): area under the skyline over the columns 0..X-1.
spec("covers(y, r, b, x)", "y[r, IDX_BIN] == b and y[r, IDX_LEFT_X] <= x and x < y[r, IDX_RIGHT_X]", ret="bool")
spec("skyh(y, b, x, k)", "0 if k <= 0 else (max(skyh(y, b, x, k - 1), y[k - 1, IDX_TOP_Y]) if covers(y, k - 1, b, x)"
     " else skyh(y, b, x, k - 1))", ptypes=["arr2", "int", "int", "int"], qdef=True)
spec("skyarea(y, b, X, n)", "0 if X <= 0 else skyarea(y, b, X - 1, n) + skyh(y, b, X - 1, n)",
     ptypes=["arr2", "int", "int", "int"])
_TOPS = "forall(r, 0, k, y[r, IDX_TOP_Y] >= 0)"
lemma("sky_nonneg", {"y": "arr2", "b": "int", "c": "int", "R": "int", "k": "int"}, [_TOPS],
      "forall(x, c, R, skyh(y, b, x, k) >= 0)", induct="k", base="0")
# no item of the bin starts strictly inside (c, R): whatever covers a column of [c, R) also covers c
lemma("seg_le", {"y": "arr2", "b": "int", "c": "int", "R": "int", "k": "int"},
      [_TOPS, "forall(r, 0, k, not (y[r, IDX_BIN] == b and c < y[r, IDX_LEFT_X] and y[r, IDX_LEFT_X] < R))"],
      "forall(x, c, R, skyh(y, b, x, k) <= skyh(y, b, c, k))", induct="k", base="0")
# an item of the bin that spans [c, R) lifts the skyline of every column of [c, R) to its top at least
lemma("seg_ge", {"y": "arr2", "b": "int", "c": "int", "R": "int", "k": "int", "t": "int"},
      ["0 <= t", "t < k", "y[t, IDX_BIN] == b", "y[t, IDX_LEFT_X] <= c", "y[t, IDX_RIGHT_X] >= R"],
      "forall(x, c, R, skyh(y, b, x, k) >= y[t, IDX_TOP_Y])", induct="k", base="t + 1")
lemma("seg_sum", {"y": "arr2", "b": "int", "c": "int", "R": "int", "n": "int", "T": "int"},
      ["0 <= c", "c <= R", "forall(x, c, R, skyh(y, b, x, n) == T)"],
      "skyarea(y, b, R, n) == skyarea(y, b, c, n) + (R - c) * T", induct="R", base="c")


# value clause of bin_count_and_last_skyline: the sweep adds, segment by segment, exactly the area under the skyline
_sky_value_scan = [
    tag("C02", "tallest-so-far", "use_top == skyh(y, use_bin, cur_left, i)"),
    tag("C02", "tallest-witness", "(wit == -1 and use_top == 0 and use_right == bin_width) or "
        "(0 <= wit and wit < i and y[wit, IDX_BIN] == use_bin and y[wit, IDX_LEFT_X] <= cur_left and cur_left < y[wit, IDX_RIGHT_X]"
        " and y[wit, IDX_TOP_Y] == use_top and y[wit, IDX_RIGHT_X] == use_right)"),
    tag("C02", "next-start", "forall(r, 0, i, implies(y[r, IDX_BIN] == use_bin and y[r, IDX_LEFT_X] > cur_left, y[r, IDX_LEFT_X] >= next_left))"),
]
_c = CONTRACTS[OB + "bin_count_and_last_skyline:bin_count_and_last_skyline"]
_c.ghosts["wit"] = INT
_c.loops["0"].inv.append(tag("C02", "area-so-far", "area_under_skyline == skyarea(y, use_bin, cur_left, n)"))
_c.loops["0.0"].inv.extend(_sky_value_scan)
_c.loops["0.0"].ghost_pre.append("wit = -1")
_c.ghost_code["after assign use_right #1"] = ["wit = i"]
# the quantified segment lemmas are handed to the preservation obligations of the sweep loop only (at the end of an
# iteration cur_left is the right end of the segment that was just added, at_iter(cur_left) its left end); as global
# facts they would sit in front of every later query of the function and slow the non-linear overflow obligations down
_SEG = ["seg_le(y, use_bin, at_iter(cur_left), cur_left, n)", "seg_ge(y, use_bin, at_iter(cur_left), cur_left, n, wit)",
        "sky_nonneg(y, use_bin, at_iter(cur_left), cur_left, n)", "seg_sum(y, use_bin, at_iter(cur_left), cur_left, n, use_top)"]
_c.loops["0"].lemmas.extend(_SEG)
_c.ensures.append(tag("C02", "value-is-area-under-the-skyline-of-the-last-bin",
                      "result == (bins - 1) * bin_size + skyarea(y, bins, bin_width, n) and use_bin == bins"))

# value clause of bin_count_and_lowest_skyline: the same sweep per bin, minimum over the bins 1..bins (capped by the bin area)
spec("minsky(y, b, W, n, cap)", "cap if b <= 0 else min(minsky(y, b - 1, W, n, cap), skyarea(y, b, W, n))",
     ptypes=["arr2", "int", "int", "int", "int"])
_c = CONTRACTS[OB + "bin_count_and_lowest_skyline:bin_count_and_lowest_skyline"]
_c.ghosts["wit"] = INT
_c.loops["0"].inv.append(tag("C02", "lowest-so-far", "min_area_under_skyline == minsky(y, use_bin - 1, bin_width, n, bin_size)"))
_c.loops["0.0"].inv.append(tag("C02", "area-so-far", "area_under_skyline == skyarea(y, use_bin, cur_left, n)"
                               " and min_area_under_skyline == minsky(y, use_bin - 1, bin_width, n, bin_size)"))
_c.loops["0.0.0"].inv.extend(_sky_value_scan)
_c.loops["0.0.0"].ghost_pre.append("wit = -1")
_c.ghost_code["after assign use_right #1"] = ["wit = i"]
_c.loops["0.0"].lemmas.extend(_SEG)
_c.ensures.append(tag("C02", "value-is-area-under-the-lowest-skyline",
                      "result == (bins - 1) * bin_size + minsky(y, bins, bin_width, n, bin_size)"))
