"""C16 (and the controller/system part of C13): documented formulas of controllers and system equations.

Every kernel is read from /repo and evaluated symbolically (pyvc.floatsym); the documented function is written
here from the module documentation / the cited literature.  Obligations are decided exactly over the reals."""
import itertools
import random
import time

import numpy as np
import sympy as sp

from pyvc import floatsym as F
from pyvc.extract import get_function
from pyvc.floatsym import Kernel, Res, factory_dims, zero

CT = "moptipyapps.dynamic_control.controllers."
SY = "moptipyapps.dynamic_control.systems."
P16 = frozenset(["C16"])
P13 = frozenset(["C13"])


def _real_fn(module, name):
    import importlib
    return importlib.import_module(module).__dict__[name]


def _run_real(module, name, state, params, n_out, t=0.0):
    out = np.full(n_out, np.nan)
    _real_fn(module, name)(np.array(state, float), float(t), np.array(params, float), out)
    return out.tolist()


def _syms(k, arr, n):
    return [k.sym.elem(arr, i) for i in range(n)]


def _common(res, qn, k, sd, cd, pd, second="params"):
    """index-range (C13) and frame obligations shared by all controller kernels"""
    rd, wr = k.sym.reads, k.sym.writes
    def ok(cond):
        return "proved" if cond else "refuted"
    mx = lambda s: max(s) if s else -1
    mn = lambda s: min(s) if s else 0
    res.append(Res(qn, "bounds", f"state[0..{sd - 1}]", P13, ok(mx(rd.get("state", set())) < sd and mn(rd.get("state", set())) >= 0),
                   reason=f"reads state indices {sorted(rd.get('state', set()))}, state_dims={sd}"))
    res.append(Res(qn, "bounds", f"{second}[0..{pd - 1}]", P13, ok(mx(rd.get(second, set())) < pd and mn(rd.get(second, set())) >= 0),
                   reason=f"reads {second} indices up to {mx(rd.get(second, set()))}, declared dims={pd}"))
    res.append(Res(qn, "bounds", f"out[0..{cd - 1}]", P13, ok(mx(wr.get("out", set())) < cd and mn(wr.get("out", set())) >= 0),
                   reason=f"writes out indices {sorted(wr.get('out', set()))}, declared dims={cd}"))
    res.append(Res(qn, "frame", "no-input-modified", P16, ok(set(wr) <= {"out"}), reason=f"writes to {sorted(wr)}"))
    res.append(Res(qn, "post", "all-outputs-written", P16, ok(wr.get("out", set()) == set(range(cd))),
                   reason=f"writes out indices {sorted(wr.get('out', set()))} of {cd}"))


# ------------------------------------------------------------------ polynomial controllers
def check_polynomial(module, factory, degree, res):
    dims = factory_dims(module, factory)
    if not dims:
        res.append(Res(f"{module}:{factory}", "contract", "factory", P16, "undecided", reason="no Controller(...) call found"))
    for fn, (sd, cd, pd) in sorted(dims.items()):
        qn = f"{module}:{fn}"
        t0 = time.time()
        k = Kernel(qn)
        paths = k.run()
        if len(paths) != 1:
            res.append(Res(qn, "post", "polynomial", P16, "undecided", reason="not straight-line"))
            continue
        _common(res, qn, k, sd, cd, pd)
        expr = sp.expand(paths[0][1].get(("out", 0), sp.Integer(0)))
        s = _syms(k, "state", sd)
        pall = sorted([v for (a, i), v in k.sym.syms.items() if a == "params"], key=lambda v: int(str(v).split("_")[1]))
        poly = sp.Poly(expr, *s, domain=sp.ZZ[tuple(pall)] if pall else sp.ZZ)
        want = {m for m in itertools.product(range(degree + 1), repeat=sd) if 1 <= sum(m) <= degree}
        have = dict(poly.terms())
        missing = sorted(want - set(have))
        extra = sorted(set(have) - want)
        wit = None
        if missing:
            m = missing[0]
            st = [1.0 + 0.5 * j for j in range(sd)]
            wit = {"state": st, "params": [0.25 * (j + 1) for j in range(pd)],
                   "explain": f"monomial {dict(zip(map(str, s), m))} has no parameter"}
        res.append(Res(qn, "post", f"complete-degree-{degree}-polynomial", P16, "proved" if not missing and not extra else "refuted",
                       reason=f"missing monomials {missing}, unexpected monomials (e.g. constant term) {extra}", witness=wit,
                       time=time.time() - t0))
        single = all(c in pall for c in have.values())
        res.append(Res(qn, "post", "one-parameter-per-monomial", P16, "proved" if single else "refuted",
                       reason="coefficients: " + ", ".join(f"{m}:{c}" for m, c in list(have.items())[:6])))
        used = [int(str(c).split("_")[1]) for c in have.values() if c in pall]
        bij = sorted(used) == list(range(pd))
        wit = None
        if not bij:
            unused = sorted(set(range(pd)) - set(used))
            j = unused[0] if unused else 0
            pa = [0.5] * pd
            pb = list(pa)
            pb[j] = 7.0
            st = [1.0] * sd
            try:
                oa, ob = _run_real(module, fn, st, pa, cd), _run_real(module, fn, st, pb, cd)
            except Exception as ex:
                oa = ob = repr(ex)
            wit = {"state": st, "params_a": pa, "params_b": pb, "real_out_a": oa, "real_out_b": ob,
                   "explain": f"parameter {j} of the {pd} declared parameters has no effect although every monomial of a complete "
                              f"degree-{degree} polynomial needs its own parameter"}
        res.append(Res(qn, "post", "parameters-bijective", P16, "proved" if bij else "refuted",
                       reason=f"parameters used {sorted(used)}, declared param_dims={pd}", witness=wit))


# ------------------------------------------------------------------ partially linear controllers (nearest anchor, first on ties)
def check_partially_linear(res):
    import z3
    module = CT + "partially_linear"
    dims = factory_dims(module, "partially_linear")
    for fn, (sd, cd, pd) in sorted(dims.items()):
        qn = f"{module}:{fn}"
        t0 = time.time()
        k = Kernel(qn)
        paths = k.run()
        _common(res, qn, k, sd, cd, pd)
        m = pd // (2 * sd)            # anchors; parameter block a: sd anchor coordinates, then sd coefficients
        s = _syms(k, "state", sd)
        p = _syms(k, "params", pd)
        dist = [sum((s[j] - p[a * 2 * sd + j]) ** 2 for j in range(sd)) for a in range(m)]
        lin = [sum(s[j] * p[a * 2 * sd + sd + j] for j in range(sd)) for a in range(m)]
        cache = {}
        bad = None
        verdict = "proved"
        for (conds, outs) in paths:
            o = outs.get(("out", 0))
            if o is None:
                verdict, bad = "refuted", {"explain": "a path does not write out[0]"}
                break
            for a in range(m):
                # anchor a is the closest one, the first among equally close ones
                nearest = [dist[a] <= dist[b] for b in range(m) if b != a] + [dist[a] < dist[b] for b in range(a)]
                zs = z3.Solver()
                zs.set("timeout", 20000)
                for c in list(conds) + nearest:
                    zs.add(F.to_z3(sp.expand(c.lhs - c.rhs) < 0 if isinstance(c, sp.StrictLessThan) else c, cache)
                           if not isinstance(c, (sp.StrictLessThan, sp.LessThan, sp.Not)) else F.to_z3(c, cache))
                zs.add(F.to_z3(sp.expand(o - lin[a]), cache) != 0)
                r = zs.check()
                if r == z3.sat:
                    mdl = zs.model()
                    val = lambda sym: float(mdl.eval(cache[sym], model_completion=True).as_fraction()) if sym in cache else 0.0
                    st, pr = [val(x) for x in s], [val(x) for x in p]
                    try:
                        real = _run_real(module, fn, st, pr, cd)
                    except Exception as ex:
                        real = repr(ex)
                    want = sum(st[j] * pr[a * 2 * sd + sd + j] for j in range(sd))
                    verdict = "refuted"
                    bad = {"state": st, "params": pr, "nearest_anchor": a, "expected_out": want, "real_out": real,
                           "explain": f"anchor {a} is the closest anchor but the kernel does not apply its linear law"}
                    break
                if r == z3.unknown:
                    verdict = "undecided"
            if bad:
                break
        res.append(Res(qn, "post", "law-of-nearest-anchor", P16, verdict, backend="z3-nra", witness=bad,
                       reason="" if not bad else bad["explain"], time=time.time() - t0))


# ------------------------------------------------------------------ peaks, predefined, ANNs
def _peak(a):
    return sp.exp(-(a * a))


def check_peaks(res):
    module = CT + "peaks"
    # helper __peak: contract  result == exp(-a^2); call sites then use the contract, not the body
    kp = Kernel(module + ":__peak")
    pp = kp.run(scalars=("a",))
    av = sp.Symbol("a", real=True)
    ok = len(pp) == 1 and ("return", 0) in pp[0][1] and zero(pp[0][1][("return", 0)] - sp.exp(-(av * av)))
    res.append(Res(module + ":__peak", "post", "peak(a)=exp(-a*a)", P16, "proved" if ok else "refuted"))
    dims = factory_dims(module, "peaks")
    for fn, (sd, cd, pd) in sorted(dims.items()):
        qn = f"{module}:{fn}"
        k = Kernel(qn, helpers={"__peak": _peak})
        paths = k.run()
        _common(res, qn, k, sd, cd, pd)
        npk = pd // (sd + 2)
        s, p = _syms(k, "state", sd), _syms(k, "params", pd)
        spec = sum(p[i * (sd + 2)] * _peak(p[i * (sd + 2) + 1] + sum(p[i * (sd + 2) + 2 + j] * s[j] for j in range(sd)))
                   for i in range(npk))
        got = paths[0][1].get(("out", 0), sp.Integer(0)) if len(paths) == 1 else None
        good = got is not None and zero(got - spec)
        wit = None
        if not good and got is not None:
            w = F.numeric_witness(got, spec, s + p)
            if w:
                st = [w.get(str(x), 0.0) for x in s]
                pr = [w.get(str(x), 0.0) for x in p]
                wit = {"state": st, "params": pr, "expected_out": float(spec.subs(dict(zip(s + p, st + pr)))),
                       "real_out": _run_real(module, fn, st, pr, cd)}
        res.append(Res(qn, "post", f"sum-of-{npk}-peaks", P16, "proved" if good else "refuted", witness=wit,
                       reason="out[0] == sum_i w_i * exp(-(b_i + sum_j v_ij * s_j)^2)"))


def ann_reference(sd, cd, layers, s, p):
    """the network evaluated layer by layer: hidden neuron = arctan(bias + sum w*in); output = mult * arctan(bias + sum w*in)"""
    idx = 0
    cur = list(s)
    for width in layers:
        nxt = []
        for _ in range(width):
            acc = p[idx]
            idx += 1
            for v in cur:
                acc = acc + p[idx] * v
                idx += 1
            nxt.append(sp.atan(acc))
        cur = nxt
    outs = []
    for _ in range(cd):
        mult = p[idx]
        idx += 1
        acc = p[idx]
        idx += 1
        for v in cur:
            acc = acc + p[idx] * v
            idx += 1
        outs.append(mult * sp.atan(acc))
    return outs, idx


def check_anns(res, tier, seed):
    """generated networks: capture the generated source (no repo edit), verify each architecture as a program"""
    import moptipyapps.dynamic_control.controllers.ann as ann
    import moptipyapps.dynamic_control.controllers.codegen as cg
    captured = {}
    orig = cg.CodeGenerator.build

    def build(self):
        src = self._CodeGenerator__res()
        fn = orig(self)
        captured["last"] = src
        return fn
    cg.CodeGenerator.build = build
    try:
        rng = random.Random(seed + 16)
        archs = []
        for sd in (2, 3):
            for layers in ([], [1], [2], [3], [2, 2], [3, 3], [4], [3, 2]):
                archs.append((sd, 1, layers))
        space = [(sd, cd, ls) for sd in range(2, 7) for cd in range(1, 7)
                 for depth in range(0, 4) for ls in itertools.product(range(1, 9), repeat=depth)]
        extra = 30 if tier == "quick" else 1500
        archs += [(a, b, list(c)) for (a, b, c) in rng.sample(space, extra)]
        nprog = 0
        for (sd, cd, layers) in archs:
            key = "__cache_" + "_".join(map(str, [sd, cd, *layers]))
            if hasattr(ann.make_ann, key):
                delattr(ann.make_ann, key)
            captured.pop("last", None)
            ctrl = ann.make_ann(sd, cd, list(layers))
            src = captured.get("last")
            qn = f"{CT}ann:make_ann({sd},{cd},{layers})"
            if src is None:
                res.append(Res(qn, "contract", "capture", P16, "undecided", reason="generated source not captured"))
                continue
            nprog += 1
            body = src[src.index("def ____func"):]
            k = Kernel(qn, source_override=body)
            paths = k.run()
            pd = ctrl.param_dims
            s, p = _syms(k, "state", sd), _syms(k, "params", max(pd, 1))
            want, nparams = ann_reference(sd, cd, layers, s, p + [sp.Symbol(f"params_{i}", real=True) for i in range(pd, pd + 400)])
            good = len(paths) == 1 and nparams == pd
            undecided = False
            if good:
                for o in range(cd):
                    got = paths[0][1].get(("out", o), sp.Integer(0))
                    if got == want[o] or sp.expand(got - want[o]) == 0:
                        continue
                    # structurally different: refute numerically (float64, three random points); else undecided
                    syms_ = sorted((got - want[o]).free_symbols, key=str)
                    f_ = sp.lambdify(syms_, got - want[o], "math")
                    differs = False
                    for _ in range(3):
                        try:
                            if abs(f_(*[rng.uniform(-2, 2) for _ in syms_])) > 1e-9:
                                differs = True
                        except Exception:
                            pass
                    good = False
                    undecided = not differs
                    break
            rd = k.sym.reads
            inb = (max(rd.get("params", {0})) < pd and max(rd.get("state", {0})) < sd
                   and k.sym.writes.get("out", set()) == set(range(cd)) and set(k.sym.writes) <= {"out"})
            wit = None
            if not good or not inb:
                wit = {"architecture": [sd, cd, list(layers)], "generated_source": body[:1500], "declared_param_dims": pd,
                       "parameters_of_the_network": nparams}
            res.append(Res(qn, "post", "network-layer-by-layer", P16,
                           "proved" if good else ("undecided" if undecided else "refuted"), witness=wit,
                           reason=f"param_dims={pd}, network needs {nparams}"))
            res.append(Res(qn, "bounds", "generated-indices", P13, "proved" if inb else "refuted", witness=wit))
        # ---- call history: make_ann memoises what it generates.  A sequence of requests that differ in one component
        # only (the cache is left alone here) must each get the requested network: declared dimensions, parameter count
        # and the value of every output, run with arrays sized from the *request* (NUMBA_BOUNDSCHECK=1 under ./check)
        import math as _m
        hist = [(3, 2, [2]), (3, 1, [2]), (2, 1, [2]), (2, 1, [2, 2]), (3, 1, [2]), (3, 3, [2]), (2, 2, []), (2, 1, []), (3, 1, []),
                (2, 1, [3]), (2, 1, [3, 1]), (2, 3, [3])]
        for (sd, cd, layers) in hist:
            qn = f"{CT}ann:make_ann/history({sd},{cd},{layers})"
            ssym = [sp.Symbol(f"s{i}", real=True) for i in range(sd)]
            psym = [sp.Symbol(f"p{i}", real=True) for i in range(600)]
            want, nparams = ann_reference(sd, cd, layers, ssym, psym)
            wit, verdict = None, "proved"
            try:
                ctrl = ann.make_ann(sd, cd, list(layers))
                dims = (ctrl.state_dims, ctrl.control_dims, ctrl.param_dims)
                if dims != (sd, cd, nparams):
                    verdict = "refuted"
                    wit = {"request": [sd, cd, list(layers)], "returned (state_dims, control_dims, param_dims)": list(dims),
                           "expected": [sd, cd, nparams], "requests_before": [list(map(str, h)) for h in hist[:hist.index((sd, cd, layers))]]}
                else:
                    st = [rng.uniform(-1.5, 1.5) for _ in range(sd)]
                    pr = [rng.uniform(-1.5, 1.5) for _ in range(nparams)]
                    out = np.full(cd, np.nan)
                    ctrl.controller(np.array(st), 0.0, np.array(pr), out)
                    sub = dict(zip(ssym + psym[:nparams], st + pr))
                    exp_ = [float(w.subs(sub)) for w in want]
                    if not all(_m.isfinite(o) and abs(o - e) <= 1e-9 * max(1.0, abs(e)) for o, e in zip(out.tolist(), exp_)):
                        verdict = "refuted"
                        wit = {"request": [sd, cd, list(layers)], "state": st, "params": pr, "real_out": out.tolist(), "expected_out": exp_}
            except Exception as ex:     # noqa: BLE001  (an out-of-range access raises IndexError under NUMBA_BOUNDSCHECK=1)
                verdict = "refuted"
                wit = {"request": [sd, cd, list(layers)], "raised": repr(ex)}
            res.append(Res(qn, "post", "requested-network-after-earlier-requests", P16 | P13, verdict, witness=wit,
                           reason="the controller returned for a request is the requested network, whatever was requested before",
                           backend="run"))
        return nprog
    finally:
        cg.CodeGenerator.build = orig


# ------------------------------------------------------------------ systems: the published equations
def check_systems(res):
    pi = F._exact(__import__("math").pi)
    specs = {
        "stuart_landau:__stuart_landau_equations": (2, 1, lambda s, c: [
            (sp.Rational(1, 10).__class__(1, 10) - s[0] ** 2 - s[1] ** 2) * s[0] - s[1],
            (F._exact(0.1) * 0 + (F._exact(0.1) - s[0] ** 2 - s[1] ** 2)) * s[1] + s[0] + c[0]]),
        "lorenz:__lorenz_equations": (3, 1, lambda s, c: [
            10 * (s[1] - s[0]), s[0] * (28 - s[2]) - s[1] + c[0], s[0] * s[1] - F._exact(8.0 / 3.0) * s[2]]),
        "three_coupled_oscillators:__3_coupled_oscillators": (6, 1, lambda a, c: (lambda s1, s2, s3: [
            s1 * a[0] - a[1], s1 * a[1] + a[0], s2 * a[2] - pi * a[3], s2 * a[3] + pi * a[2] + c[0],
            s3 * a[4] - F._exact(__import__("math").pi ** 2) * a[5], s3 * a[5] + F._exact(__import__("math").pi ** 2) * a[4] + c[0]])(
            -(a[0] ** 2 + a[1] ** 2) + (a[2] ** 2 + a[3] ** 2) - (a[4] ** 2 + a[5] ** 2),
            F._exact(0.1) - (a[2] ** 2 + a[3] ** 2), -F._exact(0.1))),
    }
    for key, (sd, cd, f) in specs.items():
        qn = SY + key
        k = Kernel(qn)
        paths = k.run()
        _common(res, qn, k, sd, sd, cd, second="control")
        s, c = _syms(k, "state", sd), _syms(k, "control", cd)
        want = f(s, c)
        if key.startswith("stuart"):
            sig = F._exact(0.1) - s[0] ** 2 - s[1] ** 2
            want = [sig * s[0] - s[1], sig * s[1] + s[0] + c[0]]
        good = len(paths) == 1 and all(zero(paths[0][1].get(("out", i), sp.Integer(0)) - want[i]) for i in range(sd))
        wit = None
        if not good and len(paths) == 1:
            for i in range(sd):
                got = paths[0][1].get(("out", i), sp.Integer(0))
                if not zero(got - want[i]):
                    w = F.numeric_witness(got, want[i], s + c) or {}
                    st, ct = [w.get(str(x), 0.5) for x in s], [w.get(str(x), 0.5) for x in c]
                    out = np.full(sd, np.nan)
                    import importlib
                    mod, fn = qn.split(":")
                    importlib.import_module(mod).__dict__[fn](np.array(st), 0.0, np.array(ct), out)
                    wit = {"state": st, "control": ct, "component": i, "published": float(want[i].subs(dict(zip(s + c, st + ct)))),
                           "real_out": out.tolist()}
                    break
        res.append(Res(qn, "post", "published-equations", P16, "proved" if good else "refuted", witness=wit))


def check_constant_subscripts(module, factory, res):
    """Kernels outside the straight-line subset (min_ann: bracket / golden-ratio search loops; predefined laws): memory
    safety only.  Every subscript in the real function must be a literal index or a literal slice of one of the three
    array parameters; each is compared with the dimensions the factory declares for that kernel.  Anything else
    (variable index, subscript of another object) is undecided, not a violation."""
    import ast as _ast
    dims = factory_dims(module, factory)
    if not dims:
        res.append(Res(f"{module}:{factory}", "contract", "factory", P13, "undecided", reason="no Controller(...) call found"))
    for fn, (sd, cd, pd) in sorted(dims.items()):
        qn = f"{module}:{fn}"
        fs = get_function(qn)
        anames = [a.arg for a in fs.node.args.args]
        if len(anames) != 4:
            res.append(Res(qn, "bounds", "signature", P13, "undecided", reason=f"parameters {anames}"))
            continue
        size = {anames[0]: sd, anames[2]: pd, anames[3]: cd}
        worst = {}
        bad = []
        stores = set()
        in_annotation = set()
        for n in _ast.walk(fs.node):
            ann = getattr(n, "annotation", None)
            if ann is not None:
                in_annotation |= {id(x) for x in _ast.walk(ann)}
        for n in _ast.walk(fs.node):
            if not isinstance(n, _ast.Subscript) or id(n) in in_annotation:
                continue
            base = n.value.id if isinstance(n.value, _ast.Name) else None
            if base not in size:
                bad.append(_ast.unparse(n))
                continue
            if isinstance(n.ctx, _ast.Store):
                stores.add(base)
            sl = n.slice
            try:
                if isinstance(sl, _ast.Slice):
                    if sl.step is not None:
                        raise ValueError
                    lo = 0 if sl.lower is None else int(_ast.literal_eval(sl.lower))
                    hi = size[base] if sl.upper is None else int(_ast.literal_eval(sl.upper))
                    idxs = [lo, hi - 1] if hi > lo else []
                else:
                    idxs = [int(_ast.literal_eval(sl))]
            except Exception:
                bad.append(_ast.unparse(n))
                continue
            for i in idxs:
                w = worst.setdefault(base, [0, -1])
                w[0], w[1] = min(w[0], i), max(w[1], i)
        for arr, dim in size.items():
            lo, hi = worst.get(arr, [0, -1])
            st = "proved" if (-dim <= lo and hi < dim) else "refuted"
            if bad:
                st = "undecided" if st == "proved" else st
            res.append(Res(qn, "bounds", f"{arr}[0..{dim - 1}]", P13, st, backend="syntactic",
                           reason=f"literal subscripts of {arr} span {lo}..{hi}, declared dims={dim}"
                                  + (f"; not literal: {bad[:3]}" if bad else ""),
                           witness=None if st != "refuted" else {"array": arr, "index_range": [lo, hi], "declared": dim}))
        res.append(Res(qn, "frame", "no-input-modified", P13, "proved" if stores <= {anames[3]} else "refuted",
                       backend="syntactic", reason=f"subscript stores into {sorted(stores)}"))


def check_no_element_subscripts(qn, res):
    """A kernel made of whole-array operations only (allocation, slice assignment, sort, ufuncs, reductions): numba checks
    the shapes of those at run time even with boundscheck=False; memory safety needs nothing else provided the function
    contains no element subscript.  One obligation: every subscript in the real function is a full or partial slice."""
    import ast as _ast
    fs = get_function(qn)
    in_annotation = set()
    for n in _ast.walk(fs.node):
        for ann in (getattr(n, "annotation", None), getattr(n, "returns", None)):
            if ann is not None:
                in_annotation |= {id(x) for x in _ast.walk(ann)}
    elem = [_ast.unparse(n) for n in _ast.walk(fs.node)
            if isinstance(n, _ast.Subscript) and id(n) not in in_annotation and not isinstance(n.slice, _ast.Slice)]
    res.append(Res(qn, "bounds", "whole-array-operations-only", P13, "proved" if not elem else "undecided", backend="syntactic",
                   reason="no element subscript in the function" if not elem else f"element subscripts {elem[:4]} need a contract"))


def kernel_inventory():
    """every function of the package that is compiled with numba: (qualified name, decorated with boundscheck=False)"""
    import ast as _ast
    import os
    from pyvc.extract import REPO
    out = []
    for d, _, fns in os.walk(os.path.join(REPO, "moptipyapps")):
        for f in sorted(fns):
            if not f.endswith(".py"):
                continue
            path = os.path.join(d, f)
            mod = os.path.relpath(path, REPO)[:-3].replace(os.sep, ".")
            try:
                tree = _ast.parse(open(path, encoding="utf-8").read())
            except SyntaxError:
                continue
            def visit(body, prefix):
                for n in body:
                    if isinstance(n, _ast.FunctionDef):
                        if any("jit" in _ast.unparse(x) for x in n.decorator_list):
                            out.append(f"{mod}:{prefix}{n.name}")
                        visit(n.body, prefix + n.name + ".")
                    elif isinstance(n, _ast.ClassDef):
                        visit(n.body, prefix + n.name + ".")
                    elif hasattr(n, "body") and isinstance(getattr(n, "body"), list):
                        visit(n.body, prefix)
                        visit(getattr(n, "orelse", []) or [], prefix)
            visit(tree.body, "")
    return sorted(out)


def prove_c13_other_controllers(tier, seed):
    res = []
    check_constant_subscripts(CT + "min_ann", "min_anns", res)
    check_constant_subscripts(CT + "predefined", "predefined", res)
    check_no_element_subscripts("moptipyapps.qap.instance:trivial_bounds", res)
    prove_c13_other_controllers.last = res
    return res


def prove_c16(tier, seed):
    res = []
    t0 = time.time()
    check_polynomial(CT + "linear", "linear", 1, res)
    check_polynomial(CT + "quadratic", "quadratic", 2, res)
    check_polynomial(CT + "cubic", "cubic", 3, res)
    check_partially_linear(res)
    check_peaks(res)
    n = check_anns(res, tier, seed)
    check_systems(res)
    for r in res:
        if not r.backend:
            r.backend = "sympy"
    prove_c16.programs = n
    prove_c16.last = res
    return res
