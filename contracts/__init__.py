"""Sidecar contracts for functions of /repo (keyed by qualified name)."""
