"""Contracts: dynamic_control.ode helpers (_is_ok, __j_from_ode_compute)."""
from pyvc.spec import A1, A2, BOOL, INT, REAL, Loop, contract, spec, tag, lemma

OD = "moptipyapps.dynamic_control.ode"

contract(
    OD + ":_is_ok",
    props="C10",
    params={"x": A1(elem="real")},
    returns=BOOL,
    loops={"0": Loop(index="k", inv=[tag("C10", "prefix-ok", "forall(m, 0, k, -1e10 < x[m] and x[m] < 1e10)")])},
    ensures=[tag("C10", "ok-iff-all-strictly-inside", "result == forall(m, 0, len(x), -1e10 < x[m] and x[m] < 1e10)")],
    assumptions=["floats as reals: for IEEE values a NaN fails both comparisons, so the real function returns False for it as "
                 "well (checked by the bounded harness with NaN/inf controllers)"],
)

# ---- the documented summands (value clause of C10)
# step r = 1..rows-1 contributes, for every control column c, (ode[r-1, c])^2 * gamma * (t_r - t_{r-1}) and, from the
# second step on, for every used state column q, (ode[r-1, q])^2 * (t_r - t_{r-1}); absurd values are clipped to 1e100.
# Ghost maps record where each summand is stored: gi[k], gc[k] = (step, column) held by cell k; wh[r, c] = the cell of
# (r, c).  gi/gc/wh being mutually inverse makes the correspondence cells <-> documented summands a bijection, so
# fsum(dest) is exactly the documented sum; no arithmetic on positions is needed for that.
spec("jterm(v, w)", "(v * v) * w if (-1e100 < v and v < 1e100) else 1e100", ret="real")
spec("dt(ode, r, cols)", "ode[r, cols - 1] - ode[r - 1, cols - 1]", ret="real")
spec("jsummand(ode, r, c, state_dim, cols, gamma)",
     "jterm(ode[r - 1, c], dt(ode, r, cols) * gamma) if c >= state_dim else jterm(ode[r - 1, c], dt(ode, r, cols))", ret="real")
spec("documented(r, c, rows, state_dim, usd, cols)",
     "1 <= r and r < rows and ((state_dim <= c and c < cols - 1) or (r >= 2 and 0 <= c and c < usd))", ret="bool")
# cells 0..index-1 hold documented summands of steps <= top and know their place
spec("cells_ok(dest, ode, gi, gc, wh, index, top, rows, state_dim, usd, cols, gamma)",
     "forall(k, 0, index, documented(gi[k], gc[k], rows, state_dim, usd, cols) and gi[k] <= top and wh[gi[k], gc[k]] == k"
     " and dest[k] == jsummand(ode, gi[k], gc[k], state_dim, cols, gamma))", ret="bool")
# every documented summand of the steps 1..i-1 has its cell
spec("steps_ok(gi, gc, wh, index, i, state_dim, usd, cols)",
     "forall(r, 1, i, forall(c, 0, cols - 1, implies((state_dim <= c) or (r >= 2 and c < usd),"
     " 0 <= wh[r, c] and wh[r, c] < index and gi[wh[r, c]] == r and gc[wh[r, c]] == c)))", ret="bool")
spec("row_ok(gi, gc, wh, index, i, lo, hi)",
     "forall(c, lo, hi, 0 <= wh[i, c] and wh[i, c] < index and gi[wh[i, c]] == i and gc[wh[i, c]] == c)", ret="bool")

# number of dest cells written after processing rows 1..i-1 (i = loop counter): (i-1)*cd + max(0, i-2)*usd
contract(
    OD + ":__j_from_ode_compute",
    props="C10",
    params={"ode": A2(elem="real"), "state_dim": INT, "use_state_dims": INT, "gamma": REAL, "dest": A1(elem="real", uninit=True)},
    ghosts={"rows": INT, "cols": INT, "cd": INT, "gi": A1(), "gc": A1(), "wh": A2()},
    i64=False,
    ghost_code={"after assign dest[index] #0": ["gi[index] = i", "gc[index] = inner + 1", "wh[i, inner + 1] = index"],
                "after assign dest[index] #1": ["gi[index] = i", "gc[index] = inner", "wh[i, inner] = index"]},
    requires=[
        "rows >= 2 and shape(ode, 0) == rows and shape(ode, 1) == cols",
        "len(gi) == len(dest) and len(gc) == len(dest) and shape(wh, 0) == rows and shape(wh, 1) == cols",
        "1 <= use_state_dims and use_state_dims <= state_dim and cd >= 0 and cols == state_dim + cd + 1",
        # j_from_ode: dest = np.empty((rows - 1) * (cols - 1 - state_dim + use_state_dims) - use_state_dims)
        "len(dest) == (rows - 1) * (cd + use_state_dims) - use_state_dims",
    ],
    modifies=["dest", "gi", "gc", "wh"],
    loops={
        "0": Loop(inv=[
            tag("C10", "cells-hold-documented-summands",
                "cells_ok(dest, ode, gi, gc, wh, index, i - 1, rows, state_dim, use_state_dims, cols, gamma)"),
            tag("C10", "finished-steps-complete", "steps_ok(gi, gc, wh, index, i, state_dim, use_state_dims, cols)"),
            tag("C10 C13", "rows", "view_index(last_row) == i - 1 and start == cols - 2 and add_state == (i >= 2)"),
            tag("C10 C13", "cells-written", "index == (i - 1) * cd + (i - 2 if i >= 2 else 0) * use_state_dims"),
            tag("C10", "dest-prefix-written", "forall(k, 0, index, written(dest, k))"),
        ]),
        "0.0": Loop(inv=[
            tag("C10", "weights", "weight == dt(ode, i, cols) and weight_01 == weight * gamma"),
            tag("C10", "cells-hold-documented-summands",
                "cells_ok(dest, ode, gi, gc, wh, index, i, rows, state_dim, use_state_dims, cols, gamma)"),
            tag("C10", "finished-steps-complete", "steps_ok(gi, gc, wh, index, i, state_dim, use_state_dims, cols)"),
            tag("C10", "controls-of-this-step-so-far", "row_ok(gi, gc, wh, index, i, inner + 1, cols - 1)"),
            tag("C10", "columns-of-this-step-not-yet-stored", "forall(k, 0, index, implies(gi[k] == i, gc[k] > inner))"),
            tag("C10 C13", "ctrl-cursor", "state_dim - 1 <= inner and inner <= start and view_index(last_row) == i - 1"
                " and view_index(next_row) == i and 1 <= i and i < rows"),
            tag("C10 C13", "cells-written", "index == (i - 1) * cd + (i - 2 if i >= 2 else 0) * use_state_dims + (start - inner)"),
            tag("C10", "dest-prefix-written", "forall(k, 0, index, written(dest, k))"),
        ]),
        "0.1": Loop(inv=[
            tag("C10", "weights", "weight == dt(ode, i, cols)"),
            tag("C10", "cells-hold-documented-summands",
                "cells_ok(dest, ode, gi, gc, wh, index, i, rows, state_dim, use_state_dims, cols, gamma)"),
            tag("C10", "finished-steps-complete", "steps_ok(gi, gc, wh, index, i, state_dim, use_state_dims, cols)"),
            tag("C10", "controls-of-this-step", "row_ok(gi, gc, wh, index, i, state_dim, cols - 1)"),
            tag("C10", "states-of-this-step-so-far", "row_ok(gi, gc, wh, index, i, inner, use_state_dims)"),
            tag("C10", "columns-of-this-step-not-yet-stored",
                "forall(k, 0, index, implies(gi[k] == i, gc[k] >= state_dim or gc[k] >= inner))"),
            tag("C10 C13", "state-cursor", "0 <= inner and inner <= use_state_dims and view_index(last_row) == i - 1"
                " and view_index(next_row) == i and 2 <= i and i < rows"),
            tag("C10 C13", "cells-written", "index == i * cd + (i - 2) * use_state_dims + (use_state_dims - inner)"),
            tag("C10", "dest-prefix-written", "forall(k, 0, index, written(dest, k))"),
        ]),
    },
    lemmas_at={"after assign weight_01 #0": ["mul_le(cd + use_state_dims, i, rows - 1)", "mul_le(cd, i - 1, rows - 2)",
                                             "mul_le(use_state_dims, i - 2, rows - 3)"]},
    ensures=[
        tag("C10", "dest-exactly-filled", "forall(k, 0, len(dest), written(dest, k))"),
        tag("C10", "every-cell-is-a-documented-summand",
            "cells_ok(dest, ode, gi, gc, wh, len(dest), rows - 1, rows, state_dim, use_state_dims, cols, gamma)"),
        tag("C10", "every-documented-summand-has-its-cell",
            "steps_ok(gi, gc, wh, len(dest), rows, state_dim, use_state_dims, cols)"),
    ],
)

# j_from_ode: allocates the buffer the kernel fills; its size must be exactly what the kernel writes
from pyvc.spec import OBJ  # noqa: E402

spec("fsumv(a, n)", None, ret="real", ptypes=["arr1r", "int"])      # the exactly rounded sum of a[0..n)
_fsum = contract("<opaque>:fsum", params={"a": A1(elem="real", uninit=True)}, returns=REAL,
                 requires=[tag("C10", "buffer-completely-written", "forall(k, 0, len(a), written(a, k))")],
                 ensures=["result == fsumv(a, len(a))"],
                 assumptions=["math.fsum(dest) is the exactly rounded sum of the entries (external)"])

contract(
    OD + ":j_from_ode",
    props="C10 C13",
    params={"ode": A2(elem="real"), "state_dim": INT, "use_state_dims": INT, "gamma": REAL},
    ghosts={"rows": INT, "cols": INT, "gi": A1(), "gc": A1(), "wh": A2()},
    modifies=["gi", "gc", "wh"],
    ghost_results={"dest": A1(elem="real")},
    i64=False,
    returns=REAL,
    requires=["rows >= 1 and shape(ode, 0) == rows and shape(ode, 1) == cols and state_dim >= 1 and cols >= state_dim + 1",
              "use_state_dims <= state_dim",
              "implies(rows >= 2, len(gi) == (rows - 1) * (cols - 1 - state_dim + (use_state_dims if use_state_dims > 0 else state_dim))"
              " - (use_state_dims if use_state_dims > 0 else state_dim))",
              "len(gc) == len(gi) and shape(wh, 0) == rows and shape(wh, 1) == cols",
              # what run_ode returns (monitored by the bounded harness): times strictly increasing from 0
              "implies(rows >= 2, ode[rows - 1, cols - 1] > 0)"],
    opaque={"fsum": _fsum},
    calls={"__j_from_ode_compute": {"rows": "rows", "cols": "cols", "cd": "cols - 1 - state_dim", "gi": "gi", "gc": "gc",
                                    "wh": "wh"}},
    ensures=[tag("C10", "failure-value-for-short-runs", "implies(rows <= 1, result == 1e200)"),
             # J = (exactly rounded sum of the documented summands) / simulated time
             tag("C10", "documented-figure-of-merit",
                 "implies(rows >= 2, result == fsumv(dest, len(dest)) / ode[rows - 1, cols - 1] and len(dest) == len(gi)"
                 " and cells_ok(dest, ode, gi, gc, wh, len(dest), rows - 1, rows, state_dim,"
                 " (use_state_dims if old(use_state_dims) > 0 else state_dim), cols, gamma)"
                 " and steps_ok(gi, gc, wh, len(dest), rows, state_dim,"
                 " (use_state_dims if old(use_state_dims) > 0 else state_dim), cols))")],
)


# ---- concrete generators
import numpy as np  # noqa: E402
from pyvc.spec import CONTRACTS  # noqa: E402


def _gen_is_ok(rng):
    n = rng.randint(0, 6)
    vals = [rng.choice([0.0, 1.5, -3.25, 1e10, -1e10, 9.999999e9, -9.999999e9, 1e11, -1e300]) for _ in range(n)]
    return {"x": np.array(vals, float)}


def _call_is_ok(inp):
    from moptipyapps.dynamic_control.ode import _is_ok
    return bool(_is_ok(inp["x"]))


CONTRACTS[OD + ":_is_ok"].gen = _gen_is_ok
CONTRACTS[OD + ":_is_ok"].call = _call_is_ok


def _gen_jcompute(rng):
    sd = rng.randint(1, 3)
    cd = rng.randint(0, 2)
    usd = rng.randint(1, sd)
    rows = rng.randint(2, 5)
    cols = sd + cd + 1
    ode = np.array([[rng.choice([0.0, 1.0, -2.0, 0.5, 3.0, 1e150, -1e200]) if rng.random() < 0.3 else rng.uniform(-4, 4)
                     for _ in range(cols)] for _ in range(rows)], float)
    t = 0.0
    for r in range(rows):
        ode[r, -1] = t
        t += rng.choice([0.25, 0.5, 1.0, 2.0])
    n = (rows - 1) * (cd + usd) - usd
    return {"ode": ode, "state_dim": sd, "use_state_dims": usd, "gamma": rng.choice([0.0, 0.1, 0.5, 1.0, 2.0]),
            "dest": np.full(n, np.nan), "rows": rows, "cols": cols, "cd": cd,
            "gi": np.zeros(n, np.int64), "gc": np.zeros(n, np.int64), "wh": np.zeros((rows, cols), np.int64)}


def _call_jcompute(inp):
    from moptipyapps.dynamic_control import ode as _o
    fn = getattr(_o, "__j_from_ode_compute")
    fn(inp["ode"], inp["state_dim"], inp["use_state_dims"], inp["gamma"], inp["dest"])


CONTRACTS[OD + ":__j_from_ode_compute"].gen = _gen_jcompute
CONTRACTS[OD + ":__j_from_ode_compute"].call = _call_jcompute
