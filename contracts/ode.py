"""Contracts: dynamic_control.ode helpers (_is_ok, __j_from_ode_compute)."""
from pyvc.spec import A1, A2, BOOL, INT, REAL, Loop, contract, spec, tag, lemma

OD = "moptipyapps.dynamic_control.ode"

contract(
    OD + ":_is_ok",
    props="C10",
    params={"x": A1(elem="real")},
    returns=BOOL,
    loops={"0": Loop(index="k", inv=[tag("C10", "prefix-ok", "forall(m, 0, k, -1e10 < x[m] and x[m] < 1e10)")])},
    ensures=[tag("C10", "ok-iff-all-strictly-inside", "result == forall(m, 0, len(x), -1e10 < x[m] and x[m] < 1e10)")],
    assumptions=["floats as reals: for IEEE values a NaN fails both comparisons, so the real function returns False for it as "
                 "well (checked by the bounded harness with NaN/inf controllers)"],
)

# number of dest cells written after processing rows 1..i-1 (i = loop counter): (i-1)*cd + max(0, i-2)*usd
contract(
    OD + ":__j_from_ode_compute",
    props="C10",
    params={"ode": A2(elem="real"), "state_dim": INT, "use_state_dims": INT, "gamma": REAL, "dest": A1(elem="real", uninit=True)},
    ghosts={"rows": INT, "cols": INT, "cd": INT},
    i64=False,
    requires=[
        "rows >= 2 and shape(ode, 0) == rows and shape(ode, 1) == cols",
        "1 <= use_state_dims and use_state_dims <= state_dim and cd >= 0 and cols == state_dim + cd + 1",
        # j_from_ode: dest = np.empty((rows - 1) * (cols - 1 - state_dim + use_state_dims) - use_state_dims)
        "len(dest) == (rows - 1) * (cd + use_state_dims) - use_state_dims",
    ],
    modifies=["dest"],
    loops={
        "0": Loop(inv=[
            tag("C10 C13", "rows", "view_index(last_row) == i - 1 and start == cols - 2 and add_state == (i >= 2)"),
            tag("C10 C13", "cells-written", "index == (i - 1) * cd + (i - 2 if i >= 2 else 0) * use_state_dims"),
            tag("C10", "dest-prefix-written", "forall(k, 0, index, written(dest, k))"),
        ]),
        "0.0": Loop(inv=[
            tag("C10 C13", "ctrl-cursor", "state_dim - 1 <= inner and inner <= start and view_index(last_row) == i - 1"
                " and view_index(next_row) == i and 1 <= i and i < rows"),
            tag("C10 C13", "cells-written", "index == (i - 1) * cd + (i - 2 if i >= 2 else 0) * use_state_dims + (start - inner)"),
            tag("C10", "dest-prefix-written", "forall(k, 0, index, written(dest, k))"),
        ]),
        "0.1": Loop(inv=[
            tag("C10 C13", "state-cursor", "0 <= inner and inner <= use_state_dims and view_index(last_row) == i - 1"
                " and view_index(next_row) == i and 2 <= i and i < rows"),
            tag("C10 C13", "cells-written", "index == i * cd + (i - 2) * use_state_dims + (use_state_dims - inner)"),
            tag("C10", "dest-prefix-written", "forall(k, 0, index, written(dest, k))"),
        ]),
    },
    lemmas_at={"after assign weight_01 #0": ["mul_le(cd + use_state_dims, i, rows - 1)", "mul_le(cd, i - 1, rows - 2)",
                                             "mul_le(use_state_dims, i - 2, rows - 3)"]},
    ensures=[
        tag("C10", "dest-exactly-filled", "forall(k, 0, len(dest), written(dest, k))"),
    ],
)

# j_from_ode: allocates the buffer the kernel fills; its size must be exactly what the kernel writes
from pyvc.spec import OBJ  # noqa: E402

_fsum = contract("<opaque>:fsum", params={"a": A1(elem="real", uninit=True)}, returns=REAL,
                 requires=[tag("C10", "buffer-completely-written", "forall(k, 0, len(a), written(a, k))")],
                 assumptions=["math.fsum(dest) is the exactly rounded sum of the entries (external)"])

contract(
    OD + ":j_from_ode",
    props="C10 C13",
    params={"ode": A2(elem="real"), "state_dim": INT, "use_state_dims": INT, "gamma": REAL},
    ghosts={"rows": INT, "cols": INT},
    i64=False,
    returns=REAL,
    requires=["rows >= 1 and shape(ode, 0) == rows and shape(ode, 1) == cols and state_dim >= 1 and cols >= state_dim + 1",
              "use_state_dims <= state_dim",
              # what run_ode returns (monitored by the bounded harness): times strictly increasing from 0
              "implies(rows >= 2, ode[rows - 1, cols - 1] > 0)"],
    opaque={"fsum": _fsum},
    calls={"__j_from_ode_compute": {"rows": "rows", "cols": "cols", "cd": "cols - 1 - state_dim"}},
    ensures=[tag("C10", "failure-value-for-short-runs", "implies(rows <= 1, result == 1e200)")],
)


# ---- concrete generators
import numpy as np  # noqa: E402
from pyvc.spec import CONTRACTS  # noqa: E402


def _gen_is_ok(rng):
    n = rng.randint(0, 6)
    vals = [rng.choice([0.0, 1.5, -3.25, 1e10, -1e10, 9.999999e9, -9.999999e9, 1e11, -1e300]) for _ in range(n)]
    return {"x": np.array(vals, float)}


def _call_is_ok(inp):
    from moptipyapps.dynamic_control.ode import _is_ok
    return bool(_is_ok(inp["x"]))


CONTRACTS[OD + ":_is_ok"].gen = _gen_is_ok
CONTRACTS[OD + ":_is_ok"].call = _call_is_ok
