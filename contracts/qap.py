"""Contracts: QAP objective kernel."""
import numpy as np

from pyvc.spec import A1, A2, INT, Loop, contract, spec, tag, CONTRACTS

Q = "moptipyapps.qap.objective"

# row(f, d, x, n, i, j) = sum_{c < j} f[i, c] * d[x[i], x[c]];   qsum(f, d, x, n, i) = sum_{r < i} row(..., r, n)
spec("qrow(f, d, x, i, j)", "0 if j <= 0 else qrow(f, d, x, i, j - 1) + f[i, j - 1] * d[x[i], x[j - 1]]",
     ptypes=["arr2", "arr2", "arr1", "int", "int"])
spec("qsum(f, d, x, n, i)", "0 if i <= 0 else qsum(f, d, x, n, i - 1) + qrow(f, d, x, i - 1, n)",
     ptypes=["arr2", "arr2", "arr1", "int", "int"])

contract(
    Q + ":_evaluate",
    props="C09",
    params={"x": A1("X"), "distances": A2("D"), "flows": A2("F")},
    ghosts={"n": INT, "MF": INT, "MD": INT},
    returns=INT,
    requires=[
        "n >= 1 and len(x) == n and shape(distances, 0) == n and shape(distances, 1) == n"
        " and shape(flows, 0) == n and shape(flows, 1) == n",
        "forall(k, 0, n, 0 <= x[k] and x[k] < n)",
        "MF >= 0 and MD >= 0 and n * n * MF * MD <= 2**62 and MF * MD <= 2**62 and n * MF * MD <= 2**62",
        "forall(a, 0, n, forall(b, 0, n, 0 <= flows[a, b] and flows[a, b] <= MF))",
        "forall(a, 0, n, forall(b, 0, n, 0 <= distances[a, b] and distances[a, b] <= MD))",
        # qap.Instance stores both matrices with int_range_to_dtype(0, upper_bound): up to int64 / uint32 products are
        # computed by numba in 64 bits; uint64 (upper bound >= 2**63) is excluded by the instance's 10**15 limit
        "D_hi <= 2**63 - 1 and F_hi <= 2**63 - 1 and X_hi <= 2**63 - 1",
    ],
    loops={
        "0": Loop(inv=[
            tag("C09", "outer-sum", "result == qsum(flows, distances, x, n, i)"),
            tag("C09", "outer-bound", "0 <= result and result <= i * n * MF * MD"),
        ]),
        "0.0": Loop(inv=[
            tag("C09", "inner-sum", "result == qsum(flows, distances, x, n, i) + qrow(flows, distances, x, i, j)"),
            tag("C09", "inner-bound", "0 <= result and result <= i * n * MF * MD + j * MF * MD"),
            tag("C09", "xi", "xi == x[i] and 0 <= i and i < n"),
        ]),
    },
    ensures=[
        tag("C09", "flow-distance-sum", "result == qsum(flows, distances, x, n, n)"),
        tag("C09", "nonneg", "0 <= result"),
    ],
    must_fail=["result == 0"],
)


def _gen(rng):
    n = rng.randint(1, 6)
    mf = rng.choice([1, 3, 100, 10 ** 6])
    md = rng.choice([1, 5, 1000, 10 ** 6])
    f = np.array([[rng.randint(0, mf) for _ in range(n)] for _ in range(n)])
    d = np.array([[rng.randint(0, md) for _ in range(n)] for _ in range(n)])
    need = max(int(f.max()), int(d.max()))
    dts = [t for t in (np.int8, np.uint8, np.int16, np.uint16, np.int32, np.uint32, np.int64) if np.iinfo(t).max >= need]
    dt = rng.choice(dts)     # both matrices share one dtype in qap.Instance
    x = list(range(n))
    rng.shuffle(x)
    return {"x": np.array(x, dtype=rng.choice([np.uint8, np.int16, np.int64])), "distances": d.astype(dt),
            "flows": f.astype(dt), "n": n, "MF": int(f.max()), "MD": int(d.max())}


def _call(inp):
    from moptipyapps.qap.objective import _evaluate
    return int(_evaluate(inp["x"], inp["distances"], inp["flows"]))


CONTRACTS[Q + ":_evaluate"].gen = _gen
CONTRACTS[Q + ":_evaluate"].call = _call
CONTRACTS[Q + ":_evaluate"].props = "C09"
