"""Contracts: QAP objective kernel."""
import numpy as np

from pyvc.spec import A1, A2, INT, Loop, contract, spec, tag, CONTRACTS

Q = "moptipyapps.qap.objective"

# row(f, d, x, n, i, j) = sum_{c < j} f[i, c] * d[x[i], x[c]];   qsum(f, d, x, n, i) = sum_{r < i} row(..., r, n)
spec("qrow(f, d, x, i, j)", "0 if j <= 0 else qrow(f, d, x, i, j - 1) + f[i, j - 1] * d[x[i], x[j - 1]]",
     ptypes=["arr2", "arr2", "arr1", "int", "int"])
spec("qsum(f, d, x, n, i)", "0 if i <= 0 else qsum(f, d, x, n, i - 1) + qrow(f, d, x, i - 1, n)",
     ptypes=["arr2", "arr2", "arr1", "int", "int"])

contract(
    Q + ":_evaluate",
    props="C09",
    params={"x": A1("X"), "distances": A2("D"), "flows": A2("F")},
    ghosts={"n": INT, "MF": INT, "MD": INT},
    returns=INT,
    requires=[
        "n >= 1 and len(x) == n and shape(distances, 0) == n and shape(distances, 1) == n"
        " and shape(flows, 0) == n and shape(flows, 1) == n",
        "forall(k, 0, n, 0 <= x[k] and x[k] < n)",
        "MF >= 0 and MD >= 0 and n * n * MF * MD <= 2**62 and MF * MD <= 2**62 and n * MF * MD <= 2**62",
        "forall(a, 0, n, forall(b, 0, n, 0 <= flows[a, b] and flows[a, b] <= MF))",
        "forall(a, 0, n, forall(b, 0, n, 0 <= distances[a, b] and distances[a, b] <= MD))",
        # qap.Instance stores both matrices with int_range_to_dtype(0, upper_bound): up to int64 / uint32 products are
        # computed by numba in 64 bits; uint64 (upper bound >= 2**63) is excluded by the instance's 10**15 limit
        "D_hi <= 2**63 - 1 and F_hi <= 2**63 - 1 and X_hi <= 2**63 - 1",
    ],
    loops={
        "0": Loop(inv=[
            tag("C09", "outer-sum", "result == qsum(flows, distances, x, n, i)"),
            tag("C09", "outer-bound", "0 <= result and result <= i * n * MF * MD"),
        ]),
        "0.0": Loop(inv=[
            tag("C09", "inner-sum", "result == qsum(flows, distances, x, n, i) + qrow(flows, distances, x, i, j)"),
            tag("C09", "inner-bound", "0 <= result and result <= i * n * MF * MD + j * MF * MD"),
            tag("C09", "xi", "xi == x[i] and 0 <= i and i < n"),
        ]),
    },
    ensures=[
        tag("C09", "flow-distance-sum", "result == qsum(flows, distances, x, n, n)"),
        tag("C09", "nonneg", "0 <= result"),
    ],
    must_fail=["result == 0"],
)


def _gen(rng):
    n = rng.randint(1, 6)
    mf = rng.choice([1, 3, 100, 10 ** 6])
    md = rng.choice([1, 5, 1000, 10 ** 6])
    f = np.array([[rng.randint(0, mf) for _ in range(n)] for _ in range(n)])
    d = np.array([[rng.randint(0, md) for _ in range(n)] for _ in range(n)])
    need = max(int(f.max()), int(d.max()))
    dts = [t for t in (np.int8, np.uint8, np.int16, np.uint16, np.int32, np.uint32, np.int64) if np.iinfo(t).max >= need]
    dt = rng.choice(dts)     # both matrices share one dtype in qap.Instance
    x = list(range(n))
    rng.shuffle(x)
    return {"x": np.array(x, dtype=rng.choice([np.uint8, np.int16, np.int64])), "distances": d.astype(dt),
            "flows": f.astype(dt), "n": n, "MF": int(f.max()), "MD": int(d.max())}


def _call(inp):
    from moptipyapps.qap.objective import _evaluate
    return int(_evaluate(inp["x"], inp["distances"], inp["flows"]))


CONTRACTS[Q + ":_evaluate"].gen = _gen
CONTRACTS[Q + ":_evaluate"].call = _call
CONTRACTS[Q + ":_evaluate"].props = "C09"


# The public entry point: QAPObjective.evaluate hands x and the two instance matrices to _evaluate.  Modular call: only
# _evaluate's contract is known here, so a wrapper that routes to another kernel, swaps the matrices or post-processes the
# value no longer discharges `flow-distance-sum`.
contract(
    Q + ":QAPObjective.evaluate",
    props="C09",
    params={"x": A1("X")},
    ghosts={"dist": A2("D"), "flo": A2("F"), "n": INT, "MF": INT, "MD": INT},
    returns=INT,
    attrs={"self.instance.distances": "dist", "self.instance.flows": "flo"},
    requires=[
        "n >= 1 and len(x) == n and shape(dist, 0) == n and shape(dist, 1) == n"
        " and shape(flo, 0) == n and shape(flo, 1) == n",
        "forall(k, 0, n, 0 <= x[k] and x[k] < n)",
        "MF >= 0 and MD >= 0 and n * n * MF * MD <= 2**62 and MF * MD <= 2**62 and n * MF * MD <= 2**62",
        "forall(a, 0, n, forall(b, 0, n, 0 <= flo[a, b] and flo[a, b] <= MF))",
        "forall(a, 0, n, forall(b, 0, n, 0 <= dist[a, b] and dist[a, b] <= MD))",
        "D_hi <= 2**63 - 1 and F_hi <= 2**63 - 1 and X_hi <= 2**63 - 1",
    ],
    calls={"_evaluate": {"n": "n", "MF": "MF", "MD": "MD"}},
    ensures=[
        tag("C09", "flow-distance-sum", "result == qsum(flo, dist, x, n, n)"),
        tag("C09", "nonneg", "0 <= result"),
    ],
    must_fail=["result == 0"],
)


# ====================================================================== trivial_bounds (C09 bounds clause)
def prove_c09_bounds(tier, seed):
    """trivial_bounds consists of whole-array numpy operations only.  Its statements are read from /repo and evaluated
    over an abstract algebra of those operations (flat, sort, rev, mul, sum; `np.empty(n, T)` + `a[:] = e` = a copy of
    e converted to T); the two returned expression trees must be
        lower = sum(mul(rev(sort(flat(distances))), sort(flat(flows))))
        upper = sum(mul(     sort(flat(distances)),  sort(flat(flows))))
    computed in unsigned 64-bit buffers.  That these two sums bound the objective of every assignment is the
    rearrangement inequality (lean/A4.lean, checked by Lean 4 + Mathlib in the thorough tier) applied to the flattened
    matrices and the permutation of index pairs (i, j) -> (p(i), p(j)) that an assignment p induces."""
    import ast as _ast
    from pyvc.extract import get_function
    from pyvc.floatsym import Res
    P = frozenset(["C09"])
    qn = "moptipyapps.qap.instance:trivial_bounds"
    res = []

    class Unknown(Exception):
        pass

    try:
        fs = get_function(qn)
        env = {"distances": ("D",), "flows": ("F",)}
        buf_type = {}
        ret = None

        def ev(e):
            if isinstance(e, _ast.Name):
                if e.id in env:
                    return env[e.id]
                raise Unknown(e.id)
            if isinstance(e, _ast.Constant):
                return ("const", e.value)
            if isinstance(e, _ast.Subscript) and isinstance(e.slice, _ast.Slice):
                sl = e.slice
                if sl.lower is None and sl.upper is None and sl.step is None:
                    return ev(e.value)
                if sl.lower is None and sl.upper is None and isinstance(sl.step, _ast.UnaryOp) \
                        and isinstance(sl.step.op, _ast.USub) and getattr(sl.step.operand, "value", None) == 1:
                    return ("rev", ev(e.value))
                raise Unknown(_ast.unparse(e))
            if isinstance(e, _ast.Call):
                f = e.func
                if isinstance(f, _ast.Name) and f.id == "int" and len(e.args) == 1:
                    return ev(e.args[0])
                if isinstance(f, _ast.Name) and f.id == "len" and len(e.args) == 1:
                    return ("len", ev(e.args[0]))
                if isinstance(f, _ast.Attribute) and f.attr == "flatten" and not e.args:
                    return ("flat", ev(f.value))
                if isinstance(f, _ast.Attribute) and f.attr == "sum" and not e.args:
                    return ("sum", ev(f.value))
                if isinstance(f, _ast.Attribute) and getattr(f.value, "id", "") in ("np", "numpy"):
                    if f.attr == "multiply" and len(e.args) in (2, 3):
                        a, b = ev(e.args[0]), ev(e.args[1])
                        v = ("mul", a, b)
                        if len(e.args) == 3:
                            if not isinstance(e.args[2], _ast.Name):
                                raise Unknown("out=")
                            env[e.args[2].id] = v
                        return v
                    if f.attr == "empty" and len(e.args) == 2:
                        return ("empty", ev(e.args[0]), _ast.unparse(e.args[1]))
                    if f.attr == "sort" and len(e.args) == 1 and not e.keywords:
                        return ("sort", ev(e.args[0]))
                raise Unknown(_ast.unparse(e))
            if isinstance(e, _ast.Tuple):
                return tuple(ev(x) for x in e.elts)
            if isinstance(e, _ast.BinOp) and isinstance(e.op, _ast.Mult):
                a, b = ev(e.left), ev(e.right)
                scalar = lambda t: t[0] in ("len", "const", "times")
                return ("times", a, b) if scalar(a) and scalar(b) else ("mul", a, b)
            raise Unknown(_ast.unparse(e))

        body = [s for s in fs.node.body if not (isinstance(s, _ast.Expr) and isinstance(s.value, _ast.Constant))]
        for s in body:
            if isinstance(s, (_ast.Assign, _ast.AnnAssign)):
                tgt = s.targets[0] if isinstance(s, _ast.Assign) else s.target
                if isinstance(tgt, _ast.Name):
                    v = ev(s.value)
                    if v[0] == "empty":
                        buf_type[tgt.id] = (v[2], v[1])
                        env[tgt.id] = ("uninit",)
                    else:
                        env[tgt.id] = v
                elif isinstance(tgt, _ast.Subscript) and isinstance(tgt.value, _ast.Name) and tgt.value.id in buf_type \
                        and isinstance(tgt.slice, _ast.Slice) and tgt.slice.lower is None and tgt.slice.upper is None \
                        and tgt.slice.step is None:
                    env[tgt.value.id] = ev(s.value)
                else:
                    raise Unknown(_ast.unparse(s))
            elif isinstance(s, _ast.AugAssign) and isinstance(s.target, _ast.Name) and isinstance(s.op, _ast.Mult):
                env[s.target.id] = ("times", env[s.target.id], ev(s.value))
            elif isinstance(s, _ast.Expr) and isinstance(s.value, _ast.Call) and isinstance(s.value.func, _ast.Attribute) \
                    and s.value.func.attr == "sort" and isinstance(s.value.func.value, _ast.Name) and not s.value.args \
                    and not s.value.keywords:
                env[s.value.func.value.id] = ("sort", env[s.value.func.value.id])
            elif isinstance(s, _ast.Return):
                ret = ev(s.value)
            else:
                raise Unknown(_ast.unparse(s))
        sd, sf = ("sort", ("flat", ("D",))), ("sort", ("flat", ("F",)))

        def same_mul(got, a, b):      # multiplication commutes
            return got in (("sum", ("mul", a, b)), ("sum", ("mul", b, a)))
        ok_lo = isinstance(ret, tuple) and len(ret) == 2 and (same_mul(ret[0], ("rev", sd), sf) or same_mul(ret[0], sd, ("rev", sf)))
        ok_hi = isinstance(ret, tuple) and len(ret) == 2 and (same_mul(ret[1], sd, sf) or same_mul(ret[1], ("rev", sd), ("rev", sf)))
        res.append(Res(qn, "post", "lower-bound-pairs-largest-with-smallest", P, "proved" if ok_lo else "refuted", backend="normal-form",
                       witness=None if ok_lo else {"code": str(ret[0] if isinstance(ret, tuple) else ret)},
                       reason="operation tree of the real function vs sum(sort(flows) * reverse(sort(distances)))"))
        res.append(Res(qn, "post", "upper-bound-pairs-largest-with-largest", P, "proved" if ok_hi else "refuted", backend="normal-form",
                       witness=None if ok_hi else {"code": str(ret[1] if isinstance(ret, tuple) and len(ret) > 1 else ret)},
                       reason="operation tree of the real function vs sum(sort(flows) * sort(distances))"))
        n2 = ("times", ("len", ("D",)), ("len", ("D",)))
        ok_t = bool(buf_type) and all(t == "DEFAULT_UNSIGNED_INT" and n == n2 for t, n in buf_type.values())
        res.append(Res(qn, "range", "sorted-copies-and-products-in-uint64-buffers-of-n*n-cells", P,
                       "proved" if ok_t else "undecided", backend="normal-form",
                       witness=None if ok_t else {"buffers": str(buf_type)},
                       reason="every temporary is np.empty(len(distances)**2, DEFAULT_UNSIGNED_INT): sorting and the products "
                              "happen in unsigned 64 bit regardless of the (possibly narrow) dtype of the given matrices"))
    except Unknown as ex:
        res.append(Res(qn, "post", "operation-tree", P, "undecided", backend="normal-form",
                       reason=f"statement outside the whole-array algebra: {ex}"))
    return res


# ====================================================================== storage type chosen by qap.Instance.__init__ (C09)
# Hoare triple on the single statement `dtype = int_range_to_dtype(...)`: whatever the bounds are, the chosen type holds
# every entry of both matrices, so `distances.astype(dtype)` / `flows.astype(dtype)` store the given numbers (F12).
from pyvc.spec import DTYPE, OBJ, PYINT  # noqa: E402

_irtd_q = contract("<opaque>:int_range_to_dtype", params={"min_value": PYINT, "max_value": PYINT}, returns=DTYPE,
                   ensures=["result[0] <= min_value and result[1] >= max_value"],
                   assumptions=["E1: moptipy int_range_to_dtype(min_value, max_value) returns an integer dtype containing the range"])
contract(
    "moptipy" "apps.qap.instance:Instance.__init__#dtype",
    props="C09",
    block=("assign dtype #0", "assign dtype #0"),
    params={"distances": A2("DD"), "flows": A2("FF"), "ub": PYINT},
    i64=False,
    requires=["shape(distances, 0) >= 1 and shape(distances, 1) == shape(distances, 0)",
              "shape(flows, 0) == shape(distances, 0) and shape(flows, 1) == shape(distances, 0)",
              "forall(a, 0, shape(flows, 0), forall(b, 0, shape(flows, 0), flows[a, b] >= 0 and distances[a, b] >= 0))"],
    opaque={"int_range_to_dtype": _irtd_q},
    ensures=[tag("C09", "chosen-type-holds-every-entry-of-both-matrices",
                 "forall(a, 0, shape(flows, 0), forall(b, 0, shape(flows, 0), "
                 "dtype[0] <= flows[a, b] and flows[a, b] <= dtype[1] and dtype[0] <= distances[a, b] and distances[a, b] <= dtype[1]))"),
             tag("C09", "chosen-type-holds-the-upper-bound", "dtype[1] >= ub")],
)
