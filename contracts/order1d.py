"""Contracts: order1d.distances.swap_distance (memory safety, write-before-read of the scratch flags, result range)."""
import numpy as np

from pyvc.spec import A1, INT, Loop, Summary, contract, tag, CONTRACTS

OD = "moptipyapps.order1d.distances"

contract(
    OD + ":swap_distance",
    props="C20",
    params={"p1": A1("P"), "p2": A1("P")},
    ghosts={"m": INT},
    returns=INT,
    requires=["m >= 0 and len(p1) == m and len(p2) == m"],
    summaries={
        # E4: numpy argsort of a permutation is its inverse permutation; indexing a permutation with a permutation is a
        # permutation of 0..m-1 (only its range is needed below)
        "assign x #0": Summary({"x": A1("XP")}, ["len(x) == m", "forall(k, 0, m, 0 <= x[k] and x[k] < m)", "XP_hi <= 2**63 - 1"],
                               "x = p2[np.argsort(p1)] for permutations p1, p2 of 0..m-1 (E4)"),
        "assign unchecked #0": Summary({"unchecked": A1(elem="bool")}, ["len(unchecked) == m", "forall(k, 0, m, unchecked[k])"],
                                       "np.ones(n, DEFAULT_BOOL)"),
    },
    loops={
        "0": Loop(inv=[
            tag("C20 C13", "dims", "n == m and len(x) == m and len(unchecked) == m"),
            tag("C20", "count", "0 <= result and result <= i"),
        ]),
        "0.0": Loop(inv=[
            tag("C20 C13", "cursor", "0 <= j and j < m and n == m and len(x) == m and len(unchecked) == m and 0 <= i and i < m"),
            tag("C20", "count", "0 <= result and result <= i + 1"),
        ]),
    },
    ensures=[tag("C20", "range", "0 <= result and result <= m")],
    assumptions=["termination of the cycle walk (x is a permutation: E4) is not proved"],
)


# ---- block contract: the position-distance matrix built in order1d.Instance.__init__ is |i - j|
from pyvc.spec import A2, PYINT  # noqa: E402

contract(
    "moptipyapps.order1d.instance:Instance.__init__#distances",
    props="C20",
    block=("assign dist_matrix #0", "for #0"),
    params={"n": PYINT},
    i64=False,
    requires=["n >= 1 and n <= 10**15"],      # n = number of objects (rows of a matrix held in memory)
    loops={
        "0": Loop(inv=[
            tag("C20", "rows-done", "forall(a, 0, i, forall(b, a + 1, n, dist_matrix[a, b] == b - a and dist_matrix[b, a] == b - a))"),
            tag("C20", "rest-zero", "forall(a, 0, n, forall(b, 0, n, implies(not (a < i and b > a) and not (b < i and a > b), dist_matrix[a, b] == 0)))"),
            tag("C20", "shape", "shape(dist_matrix, 0) == n and shape(dist_matrix, 1) == n"),
        ]),
        "0.0": Loop(inv=[
            tag("C20", "rows-done", "forall(a, 0, i, forall(b, a + 1, n, dist_matrix[a, b] == b - a and dist_matrix[b, a] == b - a))"),
            tag("C20", "row-prefix", "forall(b, i + 1, j, dist_matrix[i, b] == b - i and dist_matrix[b, i] == b - i) and 0 <= i and i < n"),
            tag("C20", "rest-zero", "forall(a, 0, n, forall(b, 0, n, implies(not ((a < i and b > a) or (a == i and i < b and b < j))"
                " and not ((b < i and a > b) or (b == i and i < a and a < j)), dist_matrix[a, b] == 0)))"),
            tag("C20", "shape", "shape(dist_matrix, 0) == n and shape(dist_matrix, 1) == n"),
        ]),
    },
    ensures=[tag("C20", "distance-is-absolute-position-difference",
                 "forall(a, 0, n, forall(b, 0, n, dist_matrix[a, b] == (b - a if b >= a else a - b)))")],
)


# ---- the flow matrix block of Instance.__init__ (C20): `flow_matrix = np.zeros(...)` ... the double loop that fills it.
# `flows` holds the average ranks (scipy rankdata, external); the stored value int(round(multiplier * (max_val - f + 1) **
# flow_power)) is float arithmetic and is abstracted as flowval(f) - one fixed function of the rank for this call - while
# the element accesses and the control flow are the real ones.
from pyvc.spec import REAL, Summary, spec  # noqa: E402

spec("flowval(f, mult, mx, pw)", None, ret="int", ptypes=["real", "real", "int", "real"])
contract(
    "moptipyapps.order1d.instance:Instance.__init__#flows",
    props="C20",
    block=("assign flow_matrix #0", "for #4"),
    params={"n": PYINT, "horizon": PYINT, "flows": A2(None, "real"), "multiplier": REAL, "flow_power": REAL},
    i64=False, arith_props="not-posed",
    assumptions=["the store of a Python int into the int64 matrix raises OverflowError if it does not fit (interpreted numpy "
                 "code, not an njit kernel): no silent wrap-around, hence no range obligation for this store"],
    requires=["n >= 1 and n <= 10**15 and horizon >= 1", "shape(flows, 0) == n and shape(flows, 1) == n"],
    summaries={"assign flow_matrix[] #0": Summary(
        {}, ["flow_matrix[i, j] == flowval(flows[i, j], multiplier, max_val, flow_power)"],
        "int(round(multiplier * ((max_val - f + 1) ** flow_power))): one fixed function of the rank f (float pow / round)",
        subscripts=True)},
    loops={
        "2": Loop(inv=[
            tag("C20", "shape", "shape(flow_matrix, 0) == n and shape(flow_matrix, 1) == n and max_val == min(n - 1, horizon)"),
            tag("C20", "rows-done", "forall(a, 0, i, forall(b, 0, n, flow_matrix[a, b] == "
                "(0 if (a == b or flows[a, b] > horizon) else flowval(flows[a, b], multiplier, max_val, flow_power))))"),
            tag("C20", "rest-zero", "forall(a, i, n, forall(b, 0, n, flow_matrix[a, b] == 0))"),
        ]),
        "2.0": Loop(inv=[
            tag("C20", "shape", "shape(flow_matrix, 0) == n and shape(flow_matrix, 1) == n and max_val == min(n - 1, horizon)"
                " and 0 <= i and i < n"),
            tag("C20", "rows-done", "forall(a, 0, i, forall(b, 0, n, flow_matrix[a, b] == "
                "(0 if (a == b or flows[a, b] > horizon) else flowval(flows[a, b], multiplier, max_val, flow_power))))"),
            tag("C20", "row-prefix", "forall(b, 0, j, flow_matrix[i, b] == "
                "(0 if (i == b or flows[i, b] > horizon) else flowval(flows[i, b], multiplier, max_val, flow_power)))"),
            tag("C20", "rest-zero", "forall(b, j, n, flow_matrix[i, b] == 0) and forall(a, i + 1, n, forall(b, 0, n, flow_matrix[a, b] == 0))"),
        ]),
    },
    ensures=[
        tag("C20", "zero-on-the-diagonal", "forall(a, 0, n, flow_matrix[a, a] == 0)"),
        tag("C20", "zero-beyond-the-horizon", "forall(a, 0, n, forall(b, 0, n, implies(flows[a, b] > horizon, flow_matrix[a, b] == 0)))"),
        tag("C20", "equal-ranks-get-equal-flows",
            "forall(a, 0, n, forall(b, 0, n, forall(c, 0, n, implies(a != b and a != c and flows[a, b] <= horizon and "
            "flows[a, b] == flows[a, c], flow_matrix[a, b] == flow_matrix[a, c]))))"),
        tag("C20", "flow-is-a-function-of-the-rank",
            "forall(a, 0, n, forall(b, 0, n, implies(a != b and flows[a, b] <= horizon, "
            "flow_matrix[a, b] == flowval(flows[a, b], multiplier, min(n - 1, horizon), flow_power))))"),
    ],
)
