"""Contracts: order1d.distances.swap_distance (memory safety, write-before-read of the scratch flags, result range)."""
import numpy as np

from pyvc.spec import A1, INT, Loop, Summary, contract, tag, CONTRACTS

OD = "moptipyapps.order1d.distances"

contract(
    OD + ":swap_distance",
    props="C20",
    params={"p1": A1("P"), "p2": A1("P")},
    ghosts={"m": INT},
    returns=INT,
    requires=["m >= 0 and len(p1) == m and len(p2) == m"],
    summaries={
        # E4: numpy argsort of a permutation is its inverse permutation; indexing a permutation with a permutation is a
        # permutation of 0..m-1 (only its range is needed below)
        "assign x #0": Summary({"x": A1("XP")}, ["len(x) == m", "forall(k, 0, m, 0 <= x[k] and x[k] < m)", "XP_hi <= 2**63 - 1"],
                               "x = p2[np.argsort(p1)] for permutations p1, p2 of 0..m-1 (E4)"),
        "assign unchecked #0": Summary({"unchecked": A1(elem="bool")}, ["len(unchecked) == m", "forall(k, 0, m, unchecked[k])"],
                                       "np.ones(n, DEFAULT_BOOL)"),
    },
    loops={
        "0": Loop(inv=[
            tag("C20 C13", "dims", "n == m and len(x) == m and len(unchecked) == m"),
            tag("C20", "count", "0 <= result and result <= i"),
        ]),
        "0.0": Loop(inv=[
            tag("C20 C13", "cursor", "0 <= j and j < m and n == m and len(x) == m and len(unchecked) == m and 0 <= i and i < m"),
            tag("C20", "count", "0 <= result and result <= i + 1"),
        ]),
    },
    ensures=[tag("C20", "range", "0 <= result and result <= m")],
    assumptions=["termination of the cycle walk (x is a permutation: E4) is not proved"],
)
