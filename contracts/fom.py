"""Contracts: dynamic_control.objective.FigureOfMerit as a data structure against the abstract view
(mode in {raw, model(m)}, collecting) -- mode switches (C11).  `evaluate` itself is covered by the bounded
interleaving monitor (bounded/fom.py)."""
from pyvc.spec import BOOL, PYINT, contract, tag

FM = "moptipyapps.dynamic_control.objective"
# abstract view: real_eq = identity of the real system's equations, supports = objective created with
# supports_model_mode=True  <=>  the two collection lists exist
_attrs = {"self.instance.system.equations": "real_eq", "self.__collection_sc": "opt(supports)"}
_fields = {"self.__equations": PYINT, "self.__collect": BOOL}

contract(
    FM + ":FigureOfMerit.set_raw", props="C11",
    params={}, ghosts={"real_eq": PYINT, "supports": BOOL}, fields=_fields, attrs=_attrs, i64=False,
    assigns=["self.__equations", "self.__collect"],
    ensures=[tag("C11", "raw-mode", "self.__equations == real_eq"),
             tag("C11", "collects-iff-supported", "self.__collect == supports")],
)
contract(
    FM + ":FigureOfMerit.set_model", props="C11",
    params={"equations": PYINT}, ghosts={"real_eq": PYINT, "supports": BOOL}, fields=_fields, attrs=_attrs, i64=False,
    assigns=["self.__equations", "self.__collect"],
    raises_iff="not supports",
    ensures=[tag("C11", "model-mode", "supports and self.__equations == equations"),
             tag("C11", "model-mode-never-collects", "not self.__collect")],
)
