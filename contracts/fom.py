"""Contracts: dynamic_control.objective.FigureOfMerit as a data structure against the abstract view
(mode in {raw, model(m)}, collecting) -- mode switches (C11).  `evaluate` itself is covered by the bounded
interleaving monitor (bounded/fom.py)."""
from pyvc.spec import BOOL, PYINT, contract, tag

FM = "moptipyapps.dynamic_control.objective"
# abstract view: real_eq = identity of the real system's equations, supports = objective created with
# supports_model_mode=True  <=>  the two collection lists exist
_attrs = {"self.instance.system.equations": "real_eq", "self.__collection_sc": "opt(supports)"}
_fields = {"self.__equations": PYINT, "self.__collect": BOOL}

contract(
    FM + ":FigureOfMerit.set_raw", props="C11",
    params={}, ghosts={"real_eq": PYINT, "supports": BOOL}, fields=_fields, attrs=_attrs, i64=False,
    assigns=["self.__equations", "self.__collect"],
    ensures=[tag("C11", "raw-mode", "self.__equations == real_eq"),
             tag("C11", "collects-iff-supported", "self.__collect == supports")],
)
contract(
    FM + ":FigureOfMerit.set_model", props="C11",
    params={"equations": PYINT}, ghosts={"real_eq": PYINT, "supports": BOOL}, fields=_fields, attrs=_attrs, i64=False,
    assigns=["self.__equations", "self.__collect"],
    raises_iff="not supports",
    ensures=[tag("C11", "model-mode", "supports and self.__equations == equations"),
             tag("C11", "model-mode-never-collects", "not self.__collect")],
)


# ====================================================================== evaluate (C11): purity of the value
# Abstract view of what the method reads: the immutable configuration (training starts, steps, time, controller,
# gamma, ...), the current dynamics `self.__equations`, the flag `self.__collect`, and the re-used buffer
# `self.__results` (declared *uninit*: its contents at entry are whatever an earlier call left there, and every read
# before a write in this call is an `init` obligation -- this is the clause "a freshly created objective would
# return the same value").  run_ode / j_from_ode / diff_from_ode / sum_up_results are external to this contract:
# each is an assumed *pure* function (uninterpreted), so the value of evaluate is proved to be one fixed expression
# in (x, configuration, current equations) and in nothing else.
from pyvc.spec import A1, A2, OBJ, REAL, Loop, Summary, spec  # noqa: E402

spec("ode_of(case, eq, x)", None, ret="int", ptypes=["int", "int", "int"])      # identity of run_ode's result
spec("j_of(ode, sdj, g)", None, ret="real", ptypes=["int", "int", "real"])       # j_from_ode of that result, for the given
#                                                                                   number of state dimensions in J and gamma
spec("agg(results, n)", None, ret="real", ptypes=["arr1r", "int"])               # sum_up_results over results[0..n)
spec("j_ok(z)", "0.0 <= z and z <= 1e100", ret="bool")
spec("J(k, eq, x, sdj, g)", "j_of(ode_of(k, eq, x), sdj, g)", ret="real")

_run_ode = contract("<opaque>:run_ode", params={"start": OBJ, "equations": PYINT, "controller": PYINT, "x": PYINT,
                                                "controller_dim": PYINT, "steps": PYINT, "time": REAL},
                    ghosts={"case": PYINT}, returns=PYINT, ensures=["result == ode_of(case, equations, x)"],
                    assumptions=["run_ode is a pure function of (start, equations, controller, parameters, controller_dim, "
                                 "steps, time): it allocates its own buffers and keeps no state (checked by the bounded "
                                 "harness of C10 only)"])
from pyvc.extract import real_defaults as _real_defaults  # noqa: E402
_jd = _real_defaults("moptipyapps.dynamic_control.ode:j_from_ode")      # use_state_dims=-1, gamma=0.1 in the pinned tree
_j_from_ode = contract("<opaque>:j_from_ode", params={"ode": PYINT, "state_dim": PYINT, "state_dims_in_j": PYINT,
                                                      "gamma": REAL},
                       defaults={"state_dims_in_j": _jd.get("use_state_dims"), "gamma": _jd.get("gamma")},
                       returns=REAL, ensures=["result == j_of(ode, state_dims_in_j, gamma)"],
                       assumptions=["j_from_ode is a pure function of the simulation result (contract proved under C10)"])

_ev_fields = dict(_fields)
_ev_fields.update({"self.__steps": PYINT, "self.__time": REAL, "self.__training": A2(None, "real"),
                   "self.__results": A1(None, "real", uninit=True), "self.__controller": PYINT,
                   "self.__controller_dim": PYINT, "self.__state_dims_in_j": PYINT, "self.__gamma": REAL})

contract(
    FM + ":FigureOfMerit.evaluate", props="C11",
    params={"x": PYINT}, ghosts={"ncol": PYINT}, fields=_ev_fields, i64=False, returns=REAL,
    attrs={"self.__append": "1"},
    assigns=[],                  # evaluate assigns no attribute: mode, dynamics and configuration are left alone
    opaque={"run_ode": _run_ode, "j_from_ode": _j_from_ode},
    calls={"run_ode": {"case": "i"}},
    requires=["shape(self.__training, 0) >= 1 and shape(self.__training, 1) >= 1",
              "shape(self.__results, 0) == shape(self.__training, 0)", "ncol >= 0"],
    summaries={
        "call np.copy #0": Summary({}, [], "np.copy(start.flatten()): result discarded, no effect"),
        "call collector #0": Summary({"ncol": PYINT}, ["ncol == prev(ncol) + 1"],
                                     "self.__append(diff_from_ode(the_ode, state_dim)): one sample block appended to each "
                                     "of the two collection lists; nothing else changes"),
        "assign z #0": Summary({"z": REAL}, ["z == agg(results, shape(results, 0))"],
                               "self.sum_up_results(results): a pure function of results[0..n) (mean, or the log-exp "
                               "variant); may destroy the buffer contents, which is why results is uninit on entry"),
    },
    asserts={"after for #0": [tag("C11", "buffer-completely-rewritten-before-aggregation",
                                  "forall(k, 0, shape(results, 0), written(results, k))")]},
    loops={"0": Loop(inv=["0 <= i and i <= shape(training, 0)",
                          "forall(k, 0, i, written(results, k) and results[k] == J(k, equations, x, self.__state_dims_in_j, self.__gamma) and j_ok(results[k]))",
                          # one-sided: data never shrinks and grows only while collecting (how many blocks per case is not
                          # part of the property)
                          "ncol >= at_loop(ncol) and (self.__collect or ncol == at_loop(ncol))"])},
    ensures=[
        tag("C11", "failure-value-iff-some-case-fails",
            "(result == 1e200 and not j_ok(agg(self.__results, shape(self.__training, 0))) and "
            "forall(k, 0, shape(self.__training, 0), j_ok(J(k, self.__equations, x, self.__state_dims_in_j, self.__gamma)))) or "
            "(result == 1e200 and exists(k, 0, shape(self.__training, 0), not j_ok(J(k, self.__equations, x, self.__state_dims_in_j, self.__gamma)))) or "
            "(j_ok(result) and result == agg(self.__results, shape(self.__training, 0)))"),
        tag("C11", "aggregate-over-all-cases",
            "implies(result != 1e200, forall(k, 0, shape(self.__training, 0), "
            "self.__results[k] == J(k, self.__equations, x, self.__state_dims_in_j, self.__gamma)))"),
        tag("C11", "range", "result == 1e200 or (0.0 <= result and result <= 1e100)"),
        tag("C11", "collects-only-in-collect-mode", "self.__collect or ncol == old(ncol)"),
        tag("C11", "recorded-data-never-shrinks", "ncol >= old(ncol)"),
    ],
    assumptions=["floats are treated as reals: NaN is not modelled (a NaN figure of merit fails `0.0 <= z <= 1e100` in "
                 "the real code and yields 1e200; the bounded harness exercises NaN cases)"],
)


# ====================================================================== initialize / __append / get_differentials (C11)
# the two collection lists are modelled by their lengths nsc / ndf (ghosts); list.clear()/append() are summaries
_LST = {"nsc": PYINT, "ndf": PYINT}
_attrs2 = dict(_attrs)
_attrs2["self.__collection_df"] = "opt(supports)"

contract(
    FM + ":FigureOfMerit.initialize", props="C11",
    params={}, ghosts=dict({"real_eq": PYINT, "supports": BOOL}, **_LST), fields=_fields, attrs=_attrs2, i64=False,
    assigns=["self.__equations", "self.__collect"],
    requires=["nsc >= 0 and ndf >= 0"],
    summaries={
        "call super().initialize #0": Summary({}, [], "moptipy Component.initialize: empty"),
        "call self.__collection_df.clear #0": Summary({"ndf": PYINT}, ["ndf == 0"], "list.clear()"),
        "call self.__collection_sc.clear #0": Summary({"nsc": PYINT}, ["nsc == 0"], "list.clear()"),
    },
    ensures=[tag("C11", "collected-data-cleared", "implies(supports, nsc == 0 and ndf == 0)"),
             tag("C11", "nothing-to-clear-without-model-mode", "implies(not supports, nsc == old(nsc) and ndf == old(ndf))"),
             tag("C11", "back-to-raw-mode", "self.__equations == real_eq"),
             tag("C11", "collects-iff-supported", "self.__collect == supports")],
)
contract(
    FM + ":FigureOfMerit.__append", props="C11",
    params={"data": OBJ}, ghosts=dict(_LST), i64=False, assigns=[],
    requires=["nsc >= 0 and ndf == nsc"],
    summaries={
        "call self.__collection_sc.append #0": Summary({"nsc": PYINT}, ["nsc == prev(nsc) + 1"], "list.append(data[0])"),
        "call self.__collection_df.append #0": Summary({"ndf": PYINT}, ["ndf == prev(ndf) + 1"], "list.append(data[1])"),
    },
    ensures=[tag("C11", "one-block-on-each-list", "nsc == old(nsc) + 1 and ndf == nsc")],
)


def prove_c11(tier, seed):
    """The two aggregation methods against the documented aggregates: the operation tree of the real return expression
    (read from /repo on every run) is normalised (float(.) is the identity on floats; the `out=` argument of log1p only
    says where the result is stored) and compared with mean(J) resp. expm1(mean(log1p(J)))."""
    import ast as _ast
    from pyvc.extract import get_function
    from pyvc.floatsym import Res
    P = frozenset(["C11"])

    def norm(e):
        if isinstance(e, _ast.Name):
            return e.id
        if isinstance(e, _ast.Call):
            f = e.func
            if isinstance(f, _ast.Name) and f.id == "float" and len(e.args) == 1:
                return norm(e.args[0])
            if isinstance(f, _ast.Attribute) and f.attr == "mean" and not e.args and not e.keywords:
                return ("mean", norm(f.value))
            fname = f.id if isinstance(f, _ast.Name) else (f.attr if isinstance(f, _ast.Attribute)
                                                           and getattr(f.value, "id", "") in ("np", "numpy", "math") else None)
            if fname in ("expm1", "log1p", "exp", "log") and 1 <= len(e.args) <= 2 and not e.keywords:
                if len(e.args) == 2 and norm(e.args[1]) != norm(e.args[0]):
                    return ("?", _ast.unparse(e))
                return (fname, norm(e.args[0]))
        return ("?", _ast.unparse(e))
    res = []
    for cls, want, label in (("FigureOfMerit", ("mean", "results"), "aggregate-is-the-mean"),
                             ("FigureOfMeritLE", ("expm1", ("mean", ("log1p", "results"))),
                              "aggregate-is-expm1-of-mean-of-log1p")):
        qn = f"{FM}:{cls}.sum_up_results"
        try:
            fs = get_function(qn)
            body = [s for s in fs.node.body if not (isinstance(s, _ast.Expr) and isinstance(s.value, _ast.Constant))]
            got = norm(body[0].value) if len(body) == 1 and isinstance(body[0], _ast.Return) else ("?", "not a single return")
            st = "proved" if got == want else ("undecided" if "?" in str(got) else "refuted")
            res.append(Res(qn, "post", label, P, st, backend="normal-form",
                           witness=None if st == "proved" else {"code": str(got), "documented": str(want)},
                           reason="operation tree of the real return expression vs the documented aggregate"))
        except Exception as ex:      # noqa: BLE001
            res.append(Res(qn, "post", label, P, "undecided", backend="normal-form", reason=repr(ex)))
    return res


def prove_c11_surrogate(tier, seed):
    """SurrogateOptimizer.solve (hundreds of lines of moptipy API calls, outside the generator's subset) contains the one
    place where the objective is switched to a learned model and back.  The property needs that switch to be bracketed:
    in the statement list that contains `raw.set_model(...)`
      (1) `raw.set_raw()` follows later in the same list, and nothing in between can leave the list early
          (no return / break / continue / raise at any depth between the two statements);
      (2) `setattr(raw, "initialize", <something else than the saved original>)` precedes the switch: the Execution of
          a model run calls initialize() on its objective, which would clear the recorded training data and switch
          back to raw mode in the middle of the model phase.
    These are control-flow facts of the real source, read from /repo on every run; exceptions are not modelled."""
    import ast as _ast
    from pyvc.extract import get_function
    from pyvc.floatsym import Res
    P = frozenset(["C11"])
    qn = "moptipyapps.dynamic_control.surrogate_optimizer:SurrogateOptimizer.solve"
    res = []

    def is_call(s, recv, meth):
        v = s.value if isinstance(s, _ast.Expr) else None
        return isinstance(v, _ast.Call) and isinstance(v.func, _ast.Attribute) and v.func.attr == meth \
            and isinstance(v.func.value, _ast.Name) and v.func.value.id == recv

    def is_setattr_init(s):
        v = s.value if isinstance(s, _ast.Expr) else None
        if isinstance(v, _ast.Call) and isinstance(v.func, _ast.Name) and v.func.id == "setattr" and len(v.args) == 3 \
                and isinstance(v.args[0], _ast.Name) and v.args[0].id == "raw" \
                and isinstance(v.args[1], _ast.Constant) and v.args[1].value == "initialize":
            return v.args[2]
        return None

    try:
        fs = get_function(qn)
        lists = []
        for n in _ast.walk(fs.node):
            for fld in ("body", "orelse", "finalbody"):
                b = getattr(n, fld, None)
                if isinstance(b, list) and b and isinstance(b[0], _ast.stmt):
                    lists.append(b)
        host = [b for b in lists if any(is_call(s, "raw", "set_model") for s in b)]
        if len(host) != 1:
            raise LookupError(f"{len(host)} statement lists contain raw.set_model(...)")
        b = host[0]
        i_model = [k for k, s in enumerate(b) if is_call(s, "raw", "set_model")]
        i_raw = [k for k, s in enumerate(b) if is_call(s, "raw", "set_raw")]
        ok1 = len(i_model) == 1 and any(k > i_model[0] for k in i_raw)
        why1 = "raw.set_raw() follows raw.set_model(...) in the same statement list"
        if ok1:
            k_raw = min(k for k in i_raw if k > i_model[0])
            for s in b[i_model[0] + 1:k_raw]:
                for n in _ast.walk(s):
                    if isinstance(n, (_ast.Return, _ast.Break, _ast.Continue, _ast.Raise)):
                        ok1, why1 = False, f"`{_ast.unparse(n)[:40]}` between the two switches can leave model mode on"
        else:
            why1 = "no raw.set_raw() after raw.set_model(...) in that statement list"
        res.append(Res(qn, "post", "model-mode-is-left-before-the-loop-body-ends", P, "proved" if ok1 else "refuted",
                       backend="control-flow", reason=why1,
                       witness=None if ok1 else {"statements": [_ast.unparse(s)[:60] for s in b[i_model[0]:][:8]] if i_model else []}))
        # (2) initialize disabled around the model phase and restored to the saved original
        saved = [s for s in _ast.walk(fs.node) if isinstance(s, (_ast.Assign, _ast.AnnAssign))
                 and _ast.unparse(s.value or _ast.Constant(None)) == "raw.initialize"]
        saved_name = None
        if saved:
            t = saved[0].targets[0] if isinstance(saved[0], _ast.Assign) else saved[0].target
            saved_name = t.id if isinstance(t, _ast.Name) else None
        sets = [(k, is_setattr_init(s)) for k, s in enumerate(b) if is_setattr_init(s) is not None]
        before = [v for k, v in sets if i_model and k < i_model[0]]
        after = [v for k, v in sets if ok1 and k > k_raw]
        # what the property needs is the first half: a model run (whose Execution calls initialize() on its objective) must
        # not clear the recorded data or switch back to raw mode; the restoration afterwards is reported but not required
        ok2 = bool(before) and not (isinstance(before[-1], _ast.Name) and before[-1].id == saved_name)
        res.append(Res(qn, "post", "initialize-disabled-during-the-model-phase", P,
                       "proved" if ok2 else "refuted", backend="control-flow",
                       reason=f"setattr(raw, 'initialize', ...) before the switch: {[_ast.unparse(v) for v in before]}, after "
                              f"set_raw: {[_ast.unparse(v) for v in after]}, original saved as {saved_name}"))
    except Exception as ex:      # noqa: BLE001
        res.append(Res(qn, "post", "model-mode-bracket", P, "undecided", backend="control-flow", reason=repr(ex)[:200]))
    return res
