"""Contracts: TSP tour length and the reversal-move kernels."""
from pyvc.spec import A1, A2, BOOL, INT, Loop, contract, spec, tag, lemma

# psum(d, x, k) = sum_{m=1..k-1... } cyclic edge sum of the first k edges *ending* at x[0..k-1], the first edge
# being the closing edge x[n-1] -> x[0]  (this is the order in which tour_length adds them)
spec("cyc(d, x, n, k)", "0 if k <= 0 else cyc(d, x, n, k - 1) + d[x[k - 2] if k >= 2 else x[n - 1], x[k - 1]]",
     ptypes=["arr2", "arr1", "int", "int"])
# path sum over edges (x[a],x[a+1]) ... (x[b-1],x[b])
spec("path(d, x, a, b)", "0 if b <= a else path(d, x, a, b - 1) + d[x[b - 1], x[b]]",
     ptypes=["arr2", "arr1", "int", "int"])
spec("tour(d, x, n)", "path(d, x, 0, n - 1) + d[x[n - 1], x[0]]")

TL = "moptipyapps.tsp.tour_length"

contract(
    TL + ":tour_length",
    props="C05",
    params={"instance": A2("D"), "x": A1("X")},
    ghosts={"n": INT, "M": INT},
    returns=INT,
    requires=[
        "n >= 1 and len(x) == n and shape(instance, 0) == n and shape(instance, 1) == n",
        "forall(k, 0, n, 0 <= x[k] and x[k] < n)",
        # every distance is in [0, M] and n*M fits comfortably (Instance.__new__: upper bound <= 1e15+1)
        "M >= 0 and n * M <= 2**62",
        "forall(a, 0, n, forall(b, 0, n, 0 <= instance[a, b] and instance[a, b] <= M))",
        "D_hi <= 2**63 - 1 and X_hi <= 2**63 - 1",
    ],
    wraps=[],
    loops={"0": Loop(index="k", inv=[
        tag("C05 C13", "last", "last == (x[k - 1] if k >= 1 else x[n - 1])"),
        tag("C05 C13", "last-range", "0 <= last and last < n"),
        tag("C05", "sum", "result == cyc(instance, x, n, k)"),
        tag("C05", "sum-bound", "0 <= result and result <= k * M"),
    ])},
    ensures=[
        tag("C05", "cyclic-sum", "result == cyc(instance, x, n, n)"),
        tag("C05", "nonneg", "0 <= result and result <= n * M"),
    ],
    must_fail=["result == 0"],
)


# ---- concrete input generators (counterexample search / cross-check against the compiled functions)
import numpy as np  # noqa: E402


def _rand_matrix(rng, n, sym=True, maxv=None):
    maxv = maxv if maxv is not None else rng.choice([1, 3, 9, 100, 10 ** 6, 10 ** 12])
    m = [[0] * n for _ in range(n)]
    for i in range(n):
        for j in range(n):
            if i != j:
                m[i][j] = rng.randint(0, maxv)
    if sym:
        for i in range(n):
            for j in range(i):
                m[i][j] = m[j][i]
    mx = max(max(r) for r in m)
    dt = rng.choice([d for d in (np.int8, np.uint8, np.int16, np.uint16, np.int32, np.uint32, np.int64)
                     if np.iinfo(d).max >= mx])
    return np.array(m, dtype=dt), mx


def _gen_tour_length(rng):
    n = rng.randint(1, 7)
    d, mx = _rand_matrix(rng, n, sym=rng.random() < 0.5)
    x = list(range(n))
    rng.shuffle(x)
    xd = rng.choice([np.int8, np.uint8, np.int16, np.int64, np.uint32])
    return {"instance": d, "x": np.array(x, dtype=xd), "n": n, "M": int(mx)}


def _call_tour_length(inp):
    from moptipyapps.tsp.tour_length import tour_length
    return int(tour_length(inp["instance"], inp["x"]))


from pyvc.spec import CONTRACTS  # noqa: E402
CONTRACTS[TL + ":tour_length"].gen = _gen_tour_length
CONTRACTS[TL + ":tour_length"].call = _call_tour_length
