"""Contracts: TSP tour length and the reversal-move kernels."""
from pyvc.spec import A1, A2, BOOL, INT, Loop, contract, spec, tag, lemma

# psum(d, x, k) = sum_{m=1..k-1... } cyclic edge sum of the first k edges *ending* at x[0..k-1], the first edge
# being the closing edge x[n-1] -> x[0]  (this is the order in which tour_length adds them)
spec("cyc(d, x, n, k)", "0 if k <= 0 else cyc(d, x, n, k - 1) + d[x[k - 2] if k >= 2 else x[n - 1], x[k - 1]]",
     ptypes=["arr2", "arr1", "int", "int"])
# path sum over edges (x[a],x[a+1]) ... (x[b-1],x[b])
spec("path(d, x, a, b)", "0 if b <= a else path(d, x, a, b - 1) + d[x[b - 1], x[b]]",
     ptypes=["arr2", "arr1", "int", "int"])
spec("tour(d, x, n)", "path(d, x, 0, n - 1) + d[x[n - 1], x[0]]")

TL = "moptipyapps.tsp.tour_length"

contract(
    TL + ":tour_length",
    props="C05",
    params={"instance": A2("D"), "x": A1("X")},
    ghosts={"n": INT, "M": INT},
    returns=INT,
    requires=[
        "n >= 1 and len(x) == n and shape(instance, 0) == n and shape(instance, 1) == n",
        "forall(k, 0, n, 0 <= x[k] and x[k] < n)",
        # every distance is in [0, M] and n*M fits comfortably (Instance.__new__: upper bound <= 1e15+1)
        "M >= 0 and n * M <= 2**62",
        "forall(a, 0, n, forall(b, 0, n, 0 <= instance[a, b] and instance[a, b] <= M))",
        "D_hi <= 2**63 - 1 and X_hi <= 2**63 - 1",
    ],
    wraps=[],
    loops={"0": Loop(index="k", inv=[
        tag("C05 C13", "last", "last == (x[k - 1] if k >= 1 else x[n - 1])"),
        tag("C05 C13", "last-range", "0 <= last and last < n"),
        tag("C05", "sum", "result == cyc(instance, x, n, k)"),
        tag("C05", "sum-bound", "0 <= result and result <= k * M"),
    ])},
    ensures=[
        tag("C05", "cyclic-sum", "result == cyc(instance, x, n, n)"),
        tag("C05", "nonneg", "0 <= result and result <= n * M"),
    ],
    must_fail=["result == 0"],
)


# the public entry point: TourLength.evaluate hands the instance matrix and x to tour_length (modular call: only the
# kernel's contract is known here)
contract(
    TL + ":TourLength.evaluate",
    props="C05",
    params={"x": A1("X")},
    ghosts={"dist": A2("D"), "n": INT, "M": INT},
    returns=INT,
    attrs={"self.instance": "dist"},
    requires=[
        "n >= 1 and len(x) == n and shape(dist, 0) == n and shape(dist, 1) == n",
        "forall(k, 0, n, 0 <= x[k] and x[k] < n)",
        "M >= 0 and n * M <= 2**62",
        "forall(a, 0, n, forall(b, 0, n, 0 <= dist[a, b] and dist[a, b] <= M))",
        "D_hi <= 2**63 - 1 and X_hi <= 2**63 - 1",
    ],
    calls={"tour_length": {"n": "n", "M": "M"}},
    ensures=[
        tag("C05", "cyclic-sum", "result == cyc(dist, x, n, n)"),
        tag("C05", "nonneg", "0 <= result and result <= n * M"),
    ],
    must_fail=["result == 0"],
)


# ---------------------------------------------------------------- path-sum lemmas (proved by induction, applied explicitly)
lemma("path_split", {"d": "arr2", "x": "arr1", "a": "int", "b": "int", "c": "int"},
      ["a <= b", "b <= c"], "path(d, x, a, c) == path(d, x, a, b) + path(d, x, b, c)", induct="c", base="b")
lemma("path_frame", {"d": "arr2", "x": "arr1", "y": "arr1", "a": "int", "b": "int"},
      ["a <= b", "forall(k, a, b + 1, x[k] == y[k])"], "path(d, x, a, b) == path(d, y, a, b)", induct="b", base="a")
lemma("path_left", {"d": "arr2", "x": "arr1", "a": "int", "b": "int"},
      ["a + 1 <= b"], "path(d, x, a, b) == d[x[a], x[a + 1]] + path(d, x, a + 1, b)", induct="b", base="a + 1")
# reversal: y is x with [i..j] reversed, d symmetric on the values occurring: the path over the last m edges of y's segment
# equals the path over the first m edges of x's segment
lemma("path_rev", {"d": "arr2", "x": "arr1", "y": "arr1", "i": "int", "j": "int", "n": "int", "m": "int"},
      ["0 <= i", "i <= j", "j < n", "0 <= m", "m <= j - i",
       "forall(k, i, j + 1, y[k] == x[i + j - k])",
       "forall(k, 0, n, 0 <= x[k] and x[k] < n)",
       "forall(a, 0, n, forall(b, 0, n, d[a, b] == d[b, a]))"],
      "path(d, y, j - m, j) == path(d, x, i, i + m)", induct="m", base="0",
      uses=["path_left(d, y, j - m, j)"])

lemma("path_bound", {"d": "arr2", "x": "arr1", "a": "int", "b": "int", "n": "int", "M": "int"},
      ["0 <= a", "a <= b", "b < n", "forall(k, 0, n, 0 <= x[k] and x[k] < n)",
       "forall(p, 0, n, forall(q, 0, n, 0 <= d[p, q] and d[p, q] <= M))"],
      "0 <= path(d, x, a, b) and path(d, x, a, b) <= (b - a) * M", induct="b", base="a")

REV = "moptipyapps.tsp.ea1p1_revn"
spec("perm(x, n)", "forall(k, 0, n, 0 <= x[k] and x[k] < n)"
     " and forall(a, 0, n, forall(b, 0, n, implies(a != b, x[a] != x[b])))", ret="bool")
spec("reversed_seg(x, xo, i, j, n)", "forall(k, 0, n, x[k] == (xo[i + j - k] if (i <= k and k <= j) else xo[k]))", ret="bool")

_rev_pre = [
    "n_cities >= 3 and len(x) == n_cities and shape(dist, 0) == n_cities and shape(dist, 1) == n_cities",
    "perm(x, n_cities)",
    # (the callers also skip the complete reversal i = 0, j = n - 2; the kernel is correct for it, so it is not required)
    "0 <= i and i < j and j <= n_cities - 2",
    "M >= 0 and n_cities * M <= 2**62",
    "forall(a, 0, n_cities, forall(b, 0, n_cities, 0 <= dist[a, b] and dist[a, b] <= M))",
    "forall(a, 0, n_cities, forall(b, 0, n_cities, dist[a, b] == dist[b, a]))",
    "y == tour(dist, x, n_cities)",
    # the matrix dtype is signed (Instance.__new__ asks int_range_to_dtype for [-limit, limit]); with an unsigned
    # matrix numba would compute dy in uint64 and the kernel would be wrong (found by the cross-check)
    "D_lo < 0 and D_hi <= 2**63 - 1 and X_hi <= 2**63 - 1",
]
_rev_lemmas = [
    # i > 0:  [0, i-1] frame, edge (i-1,i), segment [i, j] reversed, edge (j, j+1), [j+1, n-1] frame
    "path_split(dist, old(x), 0, i, n_cities - 1)", "path_split(dist, x, 0, i, n_cities - 1)",
    "path_split(dist, old(x), i, j, n_cities - 1)", "path_split(dist, x, i, j, n_cities - 1)",
    "path_split(dist, old(x), j, j + 1, n_cities - 1)", "path_split(dist, x, j, j + 1, n_cities - 1)",
    "path_split(dist, old(x), 0, i - 1, i)", "path_split(dist, x, 0, i - 1, i)",
    "path_frame(dist, old(x), x, 0, i - 1)", "path_frame(dist, old(x), x, j + 1, n_cities - 1)",
    "path_rev(dist, old(x), x, i, j, n_cities, j - i)",
]

contract(
    REV + ":rev_if_not_worse",
    props="C06",
    params={"i": INT, "j": INT, "n_cities": INT, "dist": A2("D"), "x": A1("X"), "y": INT},
    ghosts={"M": INT},
    returns=INT,
    requires=_rev_pre,
    modifies=["x"],
    wraps=["x[i-1]"],
    split=["if#1"],
    lemmas_at={"post": _rev_lemmas, "entry": ["path_bound(dist, x, 0, n_cities - 1, n_cities, M)"]},
    ensures=[
        tag("C06", "x-or-reversed", "same_array(x, old(x)) or reversed_seg(x, old(x), i, j, n_cities)"),
        tag("C06", "perm-range", "forall(k, 0, n_cities, 0 <= x[k] and x[k] < n_cities)"),
        tag("C06", "perm-injective", "forall(a, 0, n_cities, forall(b, 0, n_cities, implies(a != b, x[a] != x[b])))"),
        tag("C06", "exact-length", "result == tour(dist, x, n_cities)"),
        tag("C06", "never-worse", "result <= y"),
    ],
    must_fail=["same_array(x, old(x))"],
)


# ---------------------------------------------------------------- FEA kernel
from pyvc.spec import axiom, Summary, OBJ, PYINT  # noqa: E402
import itertools as _it  # noqa: E402


def _tour_bounded_py(d, n, ub):
    """concrete meaning of tour_bounded for small n: every tour length lies in [0, ub]"""
    n = int(n)
    if n > 7:
        return True
    for p in _it.permutations(range(n)):
        t = sum(int(d[p[k - 1], p[k]]) for k in range(n))
        if not (0 <= t <= ub):
            return False
    return True


# tour_bounded(d, n, UB): "every permutation's tour length lies in [0, UB]" -- uninterpreted for the solver;
# its only use is through the axiom below (justified by C05: UB = sum of row maxima + permutation-sum lemma A3, Lean)
spec("tour_bounded(d, n, UB)", None, ret="bool", ptypes=["arr2", "int", "int"], pyimpl=_tour_bounded_py)
axiom("tour_le_ub", {"d": "arr2", "x": "arr1", "n": "int", "UB": "int"},
      ["tour_bounded(d, n, UB)", "perm(x, n)"], "0 <= tour(d, x, n) and tour(d, x, n) <= UB",
      note="definition of tour_bounded: instance.tour_length_upper_bound bounds every tour "
           "(C05 lemma: term-wise bound by the row maxima + permutation-sum lemma A3, Lean-checked)")

FEA = "moptipyapps.tsp.fea1p1_revn"
_rev_lemmas_ghost = [t.replace("old(x)", "XO").replace(", x,", ", xr,").replace("dist, x,", "dist, xr,")
                     .replace("XO", "x") for t in _rev_lemmas]

contract(
    FEA + ":rev_if_h_not_worse",
    props="C06",
    params={"i": INT, "j": INT, "n_cities": INT, "dist": A2("D"), "h": A1("HT"), "x": A1("X"), "y": INT},
    ghosts={"M": INT, "UB": INT},
    returns=INT,
    requires=_rev_pre + [
        "len(h) == UB + 1 and UB >= 0 and UB <= n_cities * M",
        "tour_bounded(dist, n_cities, UB)",
        "HT_lo == -2**63 and HT_hi == 2**63 - 1",
        "forall(k, 0, UB + 1, 0 <= h[k] and h[k] < 2**62)",
    ],
    modifies=["x", "h"],
    wraps=["x[i-1]"],
    split=["if#1"],
    ghost_code={"after assign y2 #0": ["xr = rev_seg(x, i, j)", "g_y2 = y2"]},
    ghost_results={"g_y2": INT},
    asserts={"after assign y2 #0": [
        tag("C06", "xr-range", "forall(k, 0, n_cities, 0 <= xr[k] and xr[k] < n_cities)"),
        tag("C06", "xr-injective", "forall(a, 0, n_cities, forall(b, 0, n_cities, implies(a != b, xr[a] != xr[b])))"),
        tag("C06", "y2-is-tour", "y2 == tour(dist, xr, n_cities)"),
        tag("C06 C13", "y-in-table", "0 <= y and y <= UB"),
        tag("C06 C13", "y2-in-table", "0 <= y2 and y2 <= UB"),
    ]},
    lemmas_at={"entry": ["path_bound(dist, x, 0, n_cities - 1, n_cities, M)", "tour_le_ub(dist, x, n_cities, UB)"],
               "after assign y2 #0": _rev_lemmas_ghost + ["tour_le_ub(dist, xr, n_cities, UB)"],
               },
    ensures=[
        tag("C06", "x-or-reversed", "same_array(x, old(x)) or reversed_seg(x, old(x), i, j, n_cities)"),
        tag("C06", "perm-range", "forall(k, 0, n_cities, 0 <= x[k] and x[k] < n_cities)"),
        tag("C06", "perm-injective", "forall(a, 0, n_cities, forall(b, 0, n_cities, implies(a != b, x[a] != x[b])))"),
        tag("C06", "exact-length", "result == tour(dist, x, n_cities)"),
        tag("C06 C13", "table-range", "0 <= result and result <= UB"),
        tag("C06", "h-frame", "forall(k, 0, UB + 1, implies(k != y and k != g_y2, h[k] == old(h)[k]))"),
        tag("C06", "result-choice", "result == y or result == g_y2"),
        tag("C06", "h-grows", "forall(k, 0, UB + 1, old(h)[k] <= h[k] and h[k] <= old(h)[k] + 2)"),
    ],
    must_fail=["same_array(x, old(x))"],
)


# ---------------------------------------------------------------- the two solve() loops (plain Python; moptipy/numpy calls by assumed contract)
lemma("cyc_is_tour", {"d": "arr2", "x": "arr1", "n": "int", "k": "int"},
      ["1 <= k", "k <= n"], "cyc(d, x, n, k) == d[x[n - 1], x[0]] + path(d, x, 0, k - 1)", induct="k", base="1")

_inst_facts = [
    "shape(instance, 0) == shape(instance, 1)",
    "M >= 0 and shape(instance, 0) * M <= 2**62",
    "forall(a, 0, shape(instance, 0), forall(b, 0, shape(instance, 0), 0 <= instance[a, b] and instance[a, b] <= M))",
    "forall(a, 0, shape(instance, 0), forall(b, 0, shape(instance, 0), instance[a, b] == instance[b, a]))",
    "D_lo < 0 and D_hi <= 2**63 - 1",
]
_register = contract("<opaque>:register", params={"x": A1("X"), "y": PYINT}, ghosts={"d": A2("D"), "n": PYINT}, props="C06",
                     requires=[tag("C06", "valid-permutation", "perm(x, n) and len(x) == n"),
                               tag("C06", "exact-tour-length", "y == tour(d, x, n)")])
_should_terminate = contract("<opaque>:should_terminate", params={}, returns=BOOL)
_ri = contract("<opaque>:ri", params={"k": PYINT}, returns=PYINT, ensures=["0 <= result and result < k"],
               assumptions=["numpy Generator.integers(k) returns a value in [0, k)"])

_solve_summaries = {
    "assign random #0": Summary({"random": OBJ}, [], "process.get_random()"),
    "assign register #0": Summary({"register": OBJ}, [], "process.register (contract: E3)"),
    "assign should_terminate #0": Summary({"should_terminate": OBJ}, [], "process.should_terminate"),
    "assign ri #0": Summary({"ri": OBJ}, [], "random.integers"),
    "assign instance #0": Summary({"instance": A2("D")}, _inst_facts,
                                  "self.instance is a symmetric tsp.Instance: square, entries in [0, M] (Instance.__new__, C05)"),
    "assign n #0": Summary({"n": PYINT}, ["n == shape(instance, 0)", "n >= 1"], "instance.n_cities"),
    "assign x #0": Summary({"x": A1("X")}, ["len(x) == n", "X_hi <= 2**63 - 1"], "process.create(): array of length n (moptipy Permutations, E2)"),
    "assign x[:] #0": Summary({"x": A1("X")}, ["len(x) == n", "forall(k, 0, n, x[k] == k)"], "x[:] = range(n)"),
    "call random.shuffle #0": Summary({"x": A1("X")}, ["len(x) == n", "perm(x, n)"],
                                      "numpy Generator.shuffle permutes the array in place (E4)"),
    "assign y #0": Summary({"y": PYINT}, ["y == tour(instance, x, n)"],
                           "process.evaluate(x) returns TourLength.evaluate(x) = tour_length(instance, x), proved = tour(...) in C05 (E3)"),
}

contract(
    REV + ":TSPEA1p1revn.solve",
    props="C06",
    params={"process": OBJ},
    ghosts={"M": PYINT},
    i64=False,
    summaries=_solve_summaries,
    opaque={"register": _register, "should_terminate": _should_terminate, "ri": _ri},
    calls={"register": {"d": "instance", "n": "n"}, "rev_if_not_worse": {"M": "M"}},
    loops={"0": Loop(inv=[
        tag("C06", "len", "len(x) == n"),
        tag("C06", "perm", "perm(x, n)"),
        tag("C06", "length-exact", "y == tour(instance, x, n)"),
    ])},
    assumptions=["moptipy Process/Generator calls are replaced by the summaries listed under 'summaries' (E2, E3, E4)"],
)

_fea_summaries = dict(_solve_summaries)
_fea_summaries["if #2"] = Summary({}, [], "do_log_h: logging of the frequency table after the run (numpy-checked indexing)")

_fea_summaries["assign instance #0"] = Summary(
    {"instance": A2("D")}, _inst_facts + ["UB >= 0 and tour_bounded(instance, shape(instance, 0), UB) and UB <= shape(instance, 0) * M"],
    "self.instance is a symmetric tsp.Instance; UB = instance.tour_length_upper_bound bounds every tour (C05: "
    "tour_within_instance_bounds)")

contract(
    FEA + ":TSPFEA1p1revn.solve",
    props="C06 C13",
    params={"process": OBJ},
    ghosts={"M": PYINT, "UB": PYINT},
    i64=False,
    attrs={"instance.tour_length_upper_bound": "UB"},      # the frequency table is allocated natively: np.zeros(UB + 1, DEFAULT_INT)
    asserts={"after assign h #0": [tag("C06 C13", "frequency-table-holds-0..UB", "len(h) == UB + 1 and dtype_hi(h) == 2**63 - 1"
                                       " and forall(k, 0, UB + 1, h[k] == 0)")]},
    summaries=_fea_summaries,
    opaque={"register": _register, "should_terminate": _should_terminate, "ri": _ri},
    calls={"register": {"d": "instance", "n": "n"}, "rev_if_h_not_worse": {"M": "M", "UB": "UB"}},
    loops={"0": Loop(
        ghost_pre=["it = 0"], ghost_end=["it = it + 1"],
        assume=["it < 2**60"],
        inv=[
            tag("C06 C13", "len", "len(x) == n and len(h) == UB + 1 and dtype_lo(h) == -2**63 and dtype_hi(h) == 2**63 - 1"),
            tag("C06", "perm", "perm(x, n)"),
            tag("C06", "length-exact", "y == tour(instance, x, n)"),
            tag("C06", "counters", "0 <= it and forall(k, 0, UB + 1, 0 <= h[k] and h[k] <= 2 * it)"),
        ])},
    assumptions=["moptipy Process/Generator calls are replaced by the summaries listed under 'summaries' (E2, E3, E4)",
                 "fewer than 2**60 loop iterations (frequency counters stay below 2**62)"],
)


# ---- concrete input generators (counterexample search / cross-check against the compiled functions)
import numpy as np  # noqa: E402


def _rand_matrix(rng, n, sym=True, maxv=None):
    maxv = maxv if maxv is not None else rng.choice([1, 3, 9, 100, 10 ** 6, 10 ** 12])
    m = [[0] * n for _ in range(n)]
    for i in range(n):
        for j in range(n):
            if i != j:
                m[i][j] = rng.randint(0, maxv)
    if sym:
        for i in range(n):
            for j in range(i):
                m[i][j] = m[j][i]
    mx = max(max(r) for r in m)
    # tsp.Instance stores its matrix in int_range_to_dtype(-limit, limit): always a signed type
    dt = rng.choice([d for d in (np.int8, np.int16, np.int32, np.int64) if np.iinfo(d).max >= mx])
    return np.array(m, dtype=dt), mx


def _gen_tour_length(rng):
    n = rng.randint(1, 7)
    d, mx = _rand_matrix(rng, n, sym=rng.random() < 0.5)
    x = list(range(n))
    rng.shuffle(x)
    xd = rng.choice([np.int8, np.uint8, np.int16, np.int64, np.uint32])
    return {"instance": d, "x": np.array(x, dtype=xd), "n": n, "M": int(mx)}


def _call_tour_length(inp):
    from moptipyapps.tsp.tour_length import tour_length
    return int(tour_length(inp["instance"], inp["x"]))


from pyvc.spec import CONTRACTS  # noqa: E402
CONTRACTS[TL + ":tour_length"].gen = _gen_tour_length
CONTRACTS[TL + ":tour_length"].call = _call_tour_length


def _gen_rev(rng, with_h=False):
    n = rng.randint(3, 8)
    d, mx = _rand_matrix(rng, n, sym=True, maxv=rng.choice([1, 2, 5, 50] + ([] if with_h else [10 ** 9])))
    x = list(range(n))
    rng.shuffle(x)
    cand = [(i, j) for i in range(n - 1) for j in range(i + 1, n - 1)]
    if not cand:
        return None
    i, j = rng.choice(cand)
    xa = np.array(x, dtype=rng.choice([np.int8, np.uint8, np.int16, np.int64]))
    y = sum(int(d[x[k - 1], x[k]]) for k in range(n))
    inp = {"i": i, "j": j, "n_cities": n, "dist": d, "x": xa, "y": y, "M": int(mx)}
    if with_h:
        ub = sum(int(max(d[r, c] for c in range(n) if c != r)) for r in range(n))
        h = np.zeros(ub + 1, np.int64)
        for _ in range(rng.randint(0, 6)):
            h[rng.randint(0, ub)] += rng.randint(0, 3)
        if rng.random() < 0.5:
            h[y] += rng.randint(0, 2)
        inp.update({"h": h, "UB": ub})
    return inp


def _call_rev(inp):
    from moptipyapps.tsp.ea1p1_revn import rev_if_not_worse
    return int(rev_if_not_worse(inp["i"], inp["j"], inp["n_cities"], inp["dist"], inp["x"], inp["y"]))


def _call_rev_h(inp):
    from moptipyapps.tsp.fea1p1_revn import rev_if_h_not_worse
    return int(rev_if_h_not_worse(inp["i"], inp["j"], inp["n_cities"], inp["dist"], inp["h"], inp["x"], inp["y"]))


CONTRACTS[REV + ":rev_if_not_worse"].gen = _gen_rev
CONTRACTS[REV + ":rev_if_not_worse"].call = _call_rev
CONTRACTS[FEA + ":rev_if_h_not_worse"].gen = lambda rng: _gen_rev(rng, True)
CONTRACTS[FEA + ":rev_if_h_not_worse"].call = _call_rev_h
