"""C04: PackingSpace.validate accepts exactly the feasible packings -- deductive part.

Two contracts on the same real method:
  #sound     no pre-condition about the packing; on normal return the packing is Feasible
  #complete  pre-condition Feasible; every `raise` is unreachable
The set `bins` is modelled as a characteristic array (ghost cardinality `card`, ghost witness rows `wit`), the Counter
`items` as an integer array.  Statements over Python sets/dicts that the generator does not execute (`set()`,
`Counter()`, `max(bins)`, `min(bins)`, `len(bins)`, the `items.items()` loop) are replaced by summaries that state
their meaning on that model; each summary is listed as an assumption."""
from pyvc.spec import A1, A2, OBJ, PYINT, Loop, Summary, contract, lemma, spec, tag
import contracts.binpacking  # noqa: F401  (box, novrows, sizeof)

PS = "moptipyapps.binpacking2d.packing_space"

spec("cnt(s, m)", "0 if m <= 0 else cnt(s, m - 1) + s[m]", ptypes=["arr1", "int"])                 # |s ∩ [1..m]|
spec("rowcount(x, c, k)", "0 if k <= 0 else rowcount(x, c, k - 1) + (1 if x[k - 1, IDX_ID] == c else 0)",
     ptypes=["arr2", "int", "int"], qdef=True)                                                          # rows < k with id c
spec("scnt(x, r, k)", "0 if k <= 0 else scnt(x, r, k - 1) + rowcount(x, k, r)", ptypes=["arr2", "int", "int"])  # sum over ids 1..k
spec("srep(inst, k)", "0 if k <= 0 else srep(inst, k - 1) + inst[k - 1, IDX_REPETITION]", ptypes=["arr2", "int"])
spec("is01(s, lo, hi)", "forall(b, lo, hi, s[b] == 0 or s[b] == 1)", ret="bool")

# --- cardinality of characteristic arrays
lemma("cnt_le", {"s": "arr1", "m": "int"}, ["forall(b, 1, m + 1, s[b] == 0 or s[b] == 1)"], "0 <= cnt(s, m) and cnt(s, m) <= m",
      induct="m", base="0")
lemma("cnt_full", {"s": "arr1", "m": "int"}, ["forall(b, 1, m + 1, s[b] == 0 or s[b] == 1)", "cnt(s, m) == m"],
      "forall(b, 1, m + 1, s[b] == 1)", induct="m", base="0", uses=["cnt_le(s, m - 1)"])
lemma("cnt_tail", {"s": "arr1", "m": "int", "k": "int"}, ["0 <= k", "forall(b, k + 1, m + 1, s[b] == 0)"],
      "cnt(s, m) == cnt(s, k)", induct="m", base="k")
lemma("cnt_add", {"s": "arr1", "t": "arr1", "m": "int", "k": "int"},
      ["forall(b, 1, m + 1, t[b] == (1 if b == k else s[b]))", "s[k] == 0 or s[k] == 1"],
      "cnt(t, m) == cnt(s, m) + ((1 - s[k]) if (1 <= k and k <= m) else 0)", induct="m", base="0")
lemma("cnt_prefix", {"s": "arr1", "m": "int", "K": "int"}, ["0 <= K", "forall(b, 1, m + 1, s[b] == (1 if b <= K else 0))"],
      "cnt(s, m) == (m if m <= K else K)", induct="m", base="0")
# --- counting rows by item id
lemma("scnt_step", {"x": "arr2", "r": "int", "k": "int"}, ["r >= 1"],
      "scnt(x, r, k) == scnt(x, r - 1, k) + (1 if (1 <= x[r - 1, IDX_ID] and x[r - 1, IDX_ID] <= k) else 0)", induct="k", base="0")
lemma("scnt_rows", {"x": "arr2", "r": "int", "nd": "int"}, ["nd >= 0", "forall(q, 0, r, 1 <= x[q, IDX_ID] and x[q, IDX_ID] <= nd)"],
      "scnt(x, r, nd) == r", induct="r", base="0", uses=["scnt_step(x, r, nd)", "scnt_zero(x, nd)"])
lemma("scnt_zero", {"x": "arr2", "k": "int"}, [], "scnt(x, 0, k) == 0", induct="k", base="0")
lemma("rowcount_nonneg", {"x": "arr2", "nd": "int", "k": "int"}, [], "forall(c, 1, nd + 1, rowcount(x, c, k) >= 0)",
      induct="k", base="0")
lemma("pigeon", {"x": "arr2", "inst": "arr2", "n": "int", "k": "int"},
      ["forall(c, 1, k + 1, inst[c - 1, IDX_REPETITION] >= 1 and (rowcount(x, c, n) == 0 or rowcount(x, c, n) == inst[c - 1, IDX_REPETITION]))"],
      "scnt(x, n, k) <= srep(inst, k) and implies(scnt(x, n, k) == srep(inst, k),"
      " forall(c, 1, k + 1, rowcount(x, c, n) == inst[c - 1, IDX_REPETITION]))", induct="k", base="0")


# ---------------------------------------------------------------- the Feasible predicate of the statement
spec("frow(x, k, inst, W, H, n, nd)", "1 <= x[k, IDX_ID] and x[k, IDX_ID] <= nd and 1 <= x[k, IDX_BIN] and x[k, IDX_BIN] <= n"
     " and box(x, k, W, H) and sizeof(x, k, inst)", ret="bool")

_summaries = {
    "if #0": Summary({}, [], "isinstance(x, Packing)"),
    "assign inst #0": Summary({"inst": A2("I", cols=3)},
                              ["len(inst) == nd and nd >= 1 and n >= 1 and srep(inst, nd) == n",
                               "forall(c, 0, nd, inst[c, IDX_REPETITION] >= 1 and inst[c, IDX_WIDTH] >= 1 and inst[c, IDX_HEIGHT] >= 1)"],
                              "self.instance is a binpacking2d.Instance: nd rows, repetitions >= 1 summing up to n_items"),
    "if #1": Summary({}, [], "same instance object"),
    "if #2": Summary({}, [], "same dtype object"),
    "if #3": Summary({}, ["shape(x, 0) == n"], "x.shape == (n_items, 6)"),
    "assign bins #0": Summary({"bins": A1()}, ["forall(b, -1, n + 2, bins[b] == 0) and len(bins) == n + 2"], "bins = set(): characteristic array, all 0"),
    "assign items #0": Summary({"items": A1()}, ["forall(c, 0, nd + 2, items[c] == 0) and len(items) == nd + 2"], "items = Counter(): all counts 0"),
    "for #2": Summary({}, [], "for item_id, count in items.items(): raises iff some counted id has a count different from its "
                              "prescribed multiplicity",
                      raises_if="exists(c, 1, nd + 1, items[c] > 0 and inst[c - 1, IDX_REPETITION] != items[c])"),
    "assign max_bin #0": Summary({"max_bin": PYINT}, ["1 <= max_bin and max_bin <= n and bins[max_bin] == 1"
                                                     " and forall(b, max_bin + 1, n + 1, bins[b] == 0)"], "max(bins)"),
    "assign min_bin #0": Summary({"min_bin": PYINT}, ["1 <= min_bin and min_bin <= n and bins[min_bin] == 1"
                                                     " and forall(b, 1, min_bin, bins[b] == 0)"], "min(bins)"),
    "assign bin_count #0": Summary({"bin_count": PYINT}, ["bin_count == card"], "len(bins) = cardinality (ghost counter)"),
    "if #13": Summary({}, [], "isinstance(x.n_bins, int)"),
}
from contracts.bp_instance import _check_int_range  # noqa: E402

_loop_inv = [
    tag("C04", "rows-ok", "forall(k, 0, i, frow(x, k, inst, bin_width, bin_height, n, nd))"),
    tag("C04", "no-overlap", "forall(r, 0, i, forall(s, 0, n, implies(r != s and x[r, IDX_BIN] == x[s, IDX_BIN], novrows(x, r, s))))"),
    tag("C04", "counter", "forall(c, 1, nd + 1, items[c] == rowcount(x, c, i))"),
    tag("C04", "counter-shifted", "forall(c, 0, nd, items[c + 1] == rowcount(x, c + 1, i))"),
    tag("C04", "set-01", "forall(b, -1, n + 2, bins[b] == 0 or bins[b] == 1) and bins[0] == 0 and bins[n + 1] == 0"),
    tag("C04", "set-members", "forall(r, 0, i, bins[x[r, IDX_BIN]] == 1)"),
    tag("C04", "set-witness", "forall(b, 1, n + 1, implies(bins[b] == 1, 0 <= wit[b] and wit[b] < i and x[wit[b], IDX_BIN] == b))"),
    tag("C04", "cardinality", "card == cnt(bins, n)"),
]

contract(
    PS + ":PackingSpace.validate#sound",
    props="C04",
    params={"x": A2("D", cols=6)},
    ghosts={"n": PYINT, "nd": PYINT, "NB": PYINT, "wit": A1(), "card": PYINT, "W0": PYINT, "H0": PYINT},
    i64=False, npscalars=True,
    attrs={"inst.n_items": "n", "inst.n_different_items": "nd", "inst.bin_width": "W0", "inst.bin_height": "H0",
           "x.n_bins": "NB", "self.instance": "None", "x.instance": "None", "inst.dtype": "None", "x.dtype": "None"},
    requires=["card == 0"],
    summaries=_summaries,
    opaque={"check_int_range": _check_int_range},
    ghost_code={"after assign bin_id #0": ["card = card + (1 - bins[bin_id] if (1 <= bin_id and bin_id <= n) else 0)", "wit[bin_id] = i"]},
    lemmas_at={"after assign items #0": ["cnt_tail(bins, n, 0)"],
               "after assign bin_count #0": ["cnt_tail(bins, n, max_bin)", "cnt_full(bins, max_bin)", "cnt_le(bins, max_bin)",
                                             "scnt_rows(x, n, nd)", "rowcount_nonneg(x, nd, n)", "pigeon(x, inst, n, nd)"]},
    loops={"0": Loop(inv=_loop_inv, lemmas=["cnt_add(at_iter(bins), bins, n, x[i - 1, IDX_BIN])"]),
           "0.0": Loop(inv=[tag("C04", "pairs-so-far", "forall(s, 0, j, implies(i != s and x[i, IDX_BIN] == x[s, IDX_BIN], novrows(x, i, s)))"
                                " and bin_id == x[i, IDX_BIN] and x_left == x[i, IDX_LEFT_X] and x_right == x[i, IDX_RIGHT_X]"
                                " and y_bottom == x[i, IDX_BOTTOM_Y] and y_top == x[i, IDX_TOP_Y] and 0 <= i and i < n")])},
    ensures=[
        tag("C04", "every-row-feasible", "forall(k, 0, n, frow(x, k, inst, bin_width, bin_height, n, nd))"),
        tag("C04", "no-overlap-within-a-bin", "forall(r, 0, n, forall(s, 0, n, implies(r != s and x[r, IDX_BIN] == x[s, IDX_BIN], novrows(x, r, s))))"),
        tag("C04", "multiplicities", "forall(c, 1, nd + 1, rowcount(x, c, n) == inst[c - 1, IDX_REPETITION])"),
        tag("C04", "bins-contiguous-from-1", "forall(b, 1, NB + 1, 0 <= wit[b] and wit[b] < n and x[wit[b], IDX_BIN] == b)"
            " and forall(r, 0, n, x[r, IDX_BIN] <= NB)"),
        tag("C04", "bin-count-stored", "NB >= 1 and NB == card"),
    ],
)


# ---------------------------------------------------------------- completeness: a feasible packing is never rejected
_feasible = [
    "len(x) == n and NB >= 1",
    "forall(k, 0, n, frow(x, k, inst0, W0, H0, n, nd))",
    "forall(r, 0, n, forall(s, 0, n, implies(r != s and x[r, IDX_BIN] == x[s, IDX_BIN], novrows(x, r, s))))",
    "forall(c, 1, nd + 1, rowcount(x, c, n) == inst0[c - 1, IDX_REPETITION])",
    "forall(b, 1, NB + 1, 0 <= wit0[b] and wit0[b] < n and x[wit0[b], IDX_BIN] == b) and forall(r, 0, n, x[r, IDX_BIN] <= NB)",
    "1 <= W0 and W0 <= 10**12 and 1 <= H0 and H0 <= 10**12",
]
_summaries_c = dict(_summaries)
_summaries_c["assign inst #0"] = Summary(
    {"inst": A2("I", cols=3)},
    ["len(inst) == nd and nd >= 1 and n >= 1 and same_array(inst, inst0)"],
    "self.instance is the instance the packing is feasible for")

contract(
    PS + ":PackingSpace.validate#complete",
    props="C04",
    params={"x": A2("D", cols=6)},
    ghosts={"n": PYINT, "nd": PYINT, "NB": PYINT, "wit": A1(), "card": PYINT, "W0": PYINT, "H0": PYINT,
            "inst0": A2("I", cols=3), "wit0": A1()},
    i64=False, npscalars=True,
    no_raise=True,
    attrs={"inst.n_items": "n", "inst.n_different_items": "nd", "inst.bin_width": "W0", "inst.bin_height": "H0",
           "x.n_bins": "NB", "self.instance": "None", "x.instance": "None", "inst.dtype": "None", "x.dtype": "None"},
    requires=["card == 0", "nd >= 1 and n >= 1 and len(inst0) == nd",
              "forall(c, 0, nd, inst0[c, IDX_REPETITION] >= 1)"] + _feasible,
    summaries=_summaries_c,
    opaque={"check_int_range": contract("<opaque>:check_int_range_c", params={"v": PYINT, "name": OBJ, "lo": PYINT, "hi": PYINT},
                                        returns=PYINT, requires=[tag("C04", "argument-in-range", "lo <= v and v <= hi")],
                                        ensures=["result == v"],
                                        assumptions=["check_int_range raises iff its argument is outside [lo, hi]"])},
    ghost_code={"after assign bin_id #0": ["card = card + (1 - bins[bin_id] if (1 <= bin_id and bin_id <= n) else 0)", "wit[bin_id] = i"]},
    lemmas_at={"after assign items #0": ["cnt_tail(bins, n, 0)"],
               "after assign bin_count #0": ["cnt_prefix(bins, n, NB)"]},
    asserts={"after for #0": [
        tag("C04", "NB-le-n", "NB <= n"),
        tag("C04", "witness-rows-are-members", "forall(b, 1, NB + 1, implies(x[wit0[b], IDX_BIN] == b, bins[b] == 1))"),
        tag("C04", "1..NB-in-set", "forall(b, 1, NB + 1, bins[b] == 1)"),
        tag("C04", "nothing-above-NB", "forall(b, NB + 1, n + 1, bins[b] == 0)"),
        tag("C04", "set-is-1..NB", "forall(b, 1, n + 1, bins[b] == (1 if b <= NB else 0))")]},
    loops={"0": Loop(inv=[
        tag("C04", "counter", "forall(c, 1, nd + 1, items[c] == rowcount(x, c, i))"),
        tag("C04", "counter-shifted", "forall(c, 0, nd, items[c + 1] == rowcount(x, c + 1, i))"),
        tag("C04", "set-01", "forall(b, -1, n + 2, bins[b] == 0 or bins[b] == 1) and bins[0] == 0 and bins[n + 1] == 0"),
        tag("C04", "set-members", "forall(r, 0, i, bins[x[r, IDX_BIN]] == 1)"),
        tag("C04", "set-only-members", "forall(b, 1, n + 1, implies(bins[b] == 1, 0 <= wit[b] and wit[b] < i and x[wit[b], IDX_BIN] == b))"),
        tag("C04", "cardinality", "card == cnt(bins, n)"),
    ], lemmas=["cnt_add(at_iter(bins), bins, n, x[i - 1, IDX_BIN])"]),
        "0.0": Loop(inv=[tag("C04", "row-cached", "bin_id == x[i, IDX_BIN] and x_left == x[i, IDX_LEFT_X] and x_right == x[i, IDX_RIGHT_X]"
                             " and y_bottom == x[i, IDX_BOTTOM_Y] and y_top == x[i, IDX_TOP_Y] and 0 <= i and i < n")])},
)
