"""Contracts (C13): the remaining compiled kernels of dynamic_control that are not controller laws --
model_objective._evaluate (model training error) and its allocation site ModelObjective.begin."""
from pyvc.spec import A1, A2, OBJ, PYINT, REAL, Loop, Summary, contract, tag

MO = "moptipyapps.dynamic_control.model_objective"

contract(
    MO + ":_evaluate", props="C13",
    params={"x": OBJ, "pin": A2(None, "real"), "pout": A2(None, "real"), "temp_1": A1(None, "real", uninit=True),
            "temp_2": OBJ, "eq": OBJ},
    i64=False, returns=REAL, modifies=["temp_1"],
    # what ModelObjective.begin establishes (proved below): one result slot and one expected-output row per input row
    requires=["shape(pout, 0) == shape(pin, 0)", "shape(temp_1, 0) == shape(pin, 0)"],
    summaries={
        "call eq #0": Summary({}, [], "eq(row, 0.0, x, temp_2): the model equations (a controller-style kernel, own contract) "
                                      "write temp_2 only"),
        "assign temp_1[] #0": Summary({}, [], "np.square(np.subtract(temp_2, pout[i], temp_2), temp_2).sum(): whole-array "
                                               "ufuncs (numba checks the shapes); only the value is abstracted, the element "
                                               "accesses temp_1[i] and pout[i] are checked", subscripts=True),
        "return #0": Summary({}, [], "np.sqrt(temp_1, temp_1).mean(): whole-array operations"),
    },
    loops={"0": Loop(inv=["0 <= i and i <= shape(pin, 0)", "forall(k, 0, i, written(temp_1, k))"])},
    asserts={"after for #0": [tag("C13", "result-buffer-completely-written-before-the-mean",
                                  "forall(k, 0, shape(temp_1, 0), written(temp_1, k))")]},
)

_MO_FIELDS = {"self.__in": A2(None, "real"), "self.__out": A2(None, "real"), "self.__temp_1": A1(None, "real", uninit=True)}
contract(
    MO + ":ModelObjective.begin", props="C13",
    params={}, i64=False, fields={},
    summaries={"assign (self.__in,self.__out) #0": Summary(
        {"self.__in": A2(None, "real"), "self.__out": A2(None, "real")},
        ["shape(self.__in, 0) == shape(self.__out, 0)"],
        "FigureOfMerit.get_differentials(): the collected (state, control) rows and their differentials, one "
        "differential row per input row (diff_from_ode builds both from the same simulation rows; the two lists grow "
        "together, see FigureOfMerit.__append)")},
    ensures=[tag("C13", "one-result-slot-per-sample", "shape(self.__temp_1, 0) == shape(self.__in, 0)"),
             tag("C13", "one-expected-row-per-sample", "shape(self.__out, 0) == shape(self.__in, 0)")],
)
contract(
    MO + ":ModelObjective.evaluate", props="C13",
    params={"x": OBJ}, i64=False, fields=_MO_FIELDS, returns=REAL, assigns=[],
    attrs={"self.__temp_2": "None", "self.__equations": "None"},
    # class invariant between begin() and end(), established by begin (above)
    requires=["shape(self.__temp_1, 0) == shape(self.__in, 0)", "shape(self.__out, 0) == shape(self.__in, 0)"],
)


# ====================================================================== starting_points (utility kernels, C13)
SP = "moptipyapps.dynamic_control.starting_points"
_FL = "floating-point vector arithmetic on whole rows (numba checks the shapes); only values are abstracted"
contract(
    SP + ":interesting_point_transform", props="C13",
    params={"x": A1(None, "real"), "max_radius": REAL, "dim": PYINT}, i64=False, returns=A2(None, "real"),
    requires=["dim >= 1"],
    summaries={
        "assign p #0": Summary({"p": A2(None, "real")}, ["shape(p, 0) == n and shape(p, 1) == dim"],
                               "np.reshape(x, (n, dim)): an (n, dim) view of x (numba raises unless n * dim == len(x))"),
        "assign pp #0": Summary({}, [], _FL, subscripts=True),
        "assign cur_radius #0": Summary({"cur_radius": REAL}, [], _FL),
        "if #1": Summary({}, [], "the re-scaling loop: works on the row copies pp / pp2 only (no subscript inside)"),
        "assign p[] #0": Summary({}, [], _FL, subscripts=True),
    },
    loops={"0": Loop(inv=["0 <= i and i <= n", "shape(p, 0) == n and shape(p, 1) == dim"])},
    ensures=["shape(result, 0) == len(x) // dim and shape(result, 1) == dim"],
)
contract(
    SP + ":interesting_point_objective", props="C13",
    params={"x": A1(None, "real"), "other": A2(None, "real"), "max_radius": REAL, "dim": PYINT}, i64=False, returns=REAL,
    # make_interesting_starting_points: dim = other_points.shape[1]
    requires=["dim >= 1", "shape(other, 1) == dim"],
    summaries={
        "assign scale #0": Summary({"scale": REAL}, [], _FL),
        "assign dst #0": Summary({"dst": REAL}, [], _FL, subscripts=True),
        "assign dst #1": Summary({"dst": REAL}, [], _FL),
        "assign f #1": Summary({"f": REAL}, [], _FL),
        "assign f #2": Summary({"f": REAL}, [], _FL),
        "return #0": Summary({}, [], _FL),
    },
    loops={"0": Loop(inv=["0 <= i and i <= n"]), "0.0": Loop(inv=["i + 1 <= j or j == i + 1"]),
           "0.1": Loop(inv=[]), "0.1.0": Loop(inv=[])},
)


# ====================================================================== min_ann controllers (C16): the search never leaves its interval
# "the minimising-network controllers return a finite value inside their search interval": every value x_best can take
# is -1000, a bracket point -990 + 10 k (ghost integers kb, kc: x_b and x_c sit on that grid and x_b < 1000 puts the next
# point at 1000 at most) or a golden-section point strictly between x_low and x_high, which stay inside [-1000, 1000]
# because nextafter never crosses its argument.  arctan is an uninterpreted total function: the comparisons of network
# outputs may go either way.  Partial correctness only: termination of the three loops is not proved (floats as reals).
from pyvc.floatsym import factory_dims  # noqa: E402

MA = "moptipyapps.dynamic_control.controllers.min_ann"
_GRID = ("x_b == -990 + 10 * kb and x_c == -990 + 10 * kc and 0 <= kb and kb <= kc and kc <= kb + 1 and kc <= 199"
         " and -1000 <= x_a and -1000 <= x_low")
_BEST = "-1000 <= x_best and x_best <= 1000"
for _fn, (_sd, _cd, _pd) in sorted(factory_dims(MA, "min_anns").items()):
    contract(
        f"{MA}:{_fn}", props="C16 C13",
        params={"state": A1(None, "real"), "_": REAL, "params": A1(None, "real"), "out": A1(None, "real", uninit=True)},
        ghosts={"kb": PYINT, "kc": PYINT}, i64=False, modifies=["out"],
        requires=[f"len(state) == {_sd} and len(params) == {_pd} and len(out) == {_cd}", "kb == 0 and kc == 0"],
        ghost_code={"after assign x_c #1": ["kc = kb + 1"], "after assign x_b #0": ["kb = kc"], "after assign x_b #1": ["kb = kc"]},
        loops={
            "0": Loop(inv=[tag("C16", "best-inside-the-interval", _BEST), tag("C16", "bracket-points-on-the-grid", _GRID)]),
            "0.0": Loop(inv=[tag("C16", "best-inside-the-interval", _BEST), tag("C16", "bracket-points-on-the-grid", _GRID)]),
            "0.1": Loop(inv=[tag("C16", "best-inside-the-interval", _BEST), tag("C16", "bracket-points-on-the-grid", _GRID),
                             tag("C16", "section-inside-the-interval", "x_high <= 1000 and delta == x_high - x_low")]),
        },
        ensures=[tag("C16", "result-inside-the-search-interval", "-1000 <= out[0] and out[0] <= 1000 and written(out, 0)")],
        assumptions=["floats as reals; arctan total; numpy nextafter(x, +-inf) does not cross x; termination of the bracket / "
                     "golden-section loops not proved"],
    )
