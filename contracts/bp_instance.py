"""Contracts on blocks of binpacking2d.Instance.__new__ (C03): the geometric bound is the exact ceiling of
total item area / bin area, and the final bound is the maximum of it and the DAMV bound."""
from pyvc.spec import A2, OBJ, PYINT, contract, tag

BI = "moptipyapps.binpacking2d.instance"

_check_int_range = contract("<opaque>:check_int_range", params={"v": PYINT, "name": OBJ, "lo": PYINT, "hi": PYINT},
                            returns=PYINT, ensures=["result == v and lo <= v and v <= hi"],
                            assumptions=["pycommons.check_int_range returns its argument if it lies in [lo, hi] (raises otherwise)"])
_damv = contract("<opaque>:_lower_bound_damv", params={"w": PYINT, "h": PYINT, "m": OBJ}, returns=PYINT,
                 ensures=["result >= 1"], assumptions=["_lower_bound_damv returns max(1, ...) (last statement of the function)"])

contract(
    BI + ":Instance.__new__",
    props="C03",
    block=("assign bin_area #0", "assign obj.lower_bound_bins #0"),
    params={"bin_height": PYINT, "bin_width": PYINT, "item_area": PYINT, "obj": OBJ},
    i64=False,
    requires=["bin_height >= 1 and bin_width >= 1 and item_area >= 1"],
    opaque={"check_int_range": _check_int_range, "_lower_bound_damv": _damv},
    ensures=[
        tag("C03", "geo-is-exact-ceiling", "(lower_bound_geo - 1) * (bin_height * bin_width) < item_area"
            " and item_area <= lower_bound_geo * (bin_height * bin_width)"),
        tag("C03", "bound-at-least-area-bound", "obj.lower_bound_bins >= lower_bound_geo and obj.lower_bound_bins >= lower_bound_damv"
            " and (obj.lower_bound_bins == lower_bound_geo or obj.lower_bound_bins == lower_bound_damv)"),
        tag("C03", "area-needs-that-many-bins", "obj.lower_bound_bins * (bin_height * bin_width) >= item_area"),
    ],
)

# ---- C17: instgen.Errors.evaluate returns a value in [0, 1] (block contract on the return statement)
from pyvc.spec import REAL  # noqa: E402

contract(
    "moptipyapps.binpacking2d.instgen.errors:Errors.evaluate",
    props="C17",
    block=("return #0", "return #0"),
    params={"errors": PYINT},
    ghosts={"ME": PYINT},
    attrs={"self.__max_errors": "ME"},
    i64=False,
    requires=["ME >= 1"],
    returns=REAL,
    ensures=[tag("C17", "clamped-to-unit-interval", "0 <= result and result <= 1")],
    assumptions=["max_errors >= 1 (Errors.__init__; a degenerate template with max_errors == 0 would divide by zero)"],
)
