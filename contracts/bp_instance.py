"""Contracts on blocks of binpacking2d.Instance.__new__ (C03): the geometric bound is the exact ceiling of
total item area / bin area, and the final bound is the maximum of it and the DAMV bound."""
from pyvc.spec import A2, OBJ, PYINT, contract, tag

BI = "moptipyapps.binpacking2d.instance"

_check_int_range = contract("<opaque>:check_int_range", params={"v": PYINT, "name": OBJ, "lo": PYINT, "hi": PYINT},
                            returns=PYINT, ensures=["result == v and lo <= v and v <= hi"],
                            assumptions=["pycommons.check_int_range returns its argument if it lies in [lo, hi] (raises otherwise)"])
_damv = contract("<opaque>:_lower_bound_damv", params={"w": PYINT, "h": PYINT, "m": OBJ}, returns=PYINT,
                 ensures=["result >= 1"], assumptions=["_lower_bound_damv returns max(1, ...) (last statement of the function)"])

contract(
    BI + ":Instance.__new__",
    props="C03",
    block=("assign bin_area #0", "assign obj.lower_bound_bins #0"),
    params={"bin_height": PYINT, "bin_width": PYINT, "item_area": PYINT, "obj": OBJ},
    i64=False, npscalars=True,
    requires=["bin_height >= 1 and bin_width >= 1 and item_area >= 1"],
    opaque={"check_int_range": _check_int_range, "_lower_bound_damv": _damv},
    ensures=[
        tag("C03", "geo-is-exact-ceiling", "(lower_bound_geo - 1) * (bin_height * bin_width) < item_area"
            " and item_area <= lower_bound_geo * (bin_height * bin_width)"),
        tag("C03", "bound-at-least-area-bound", "obj.lower_bound_bins >= lower_bound_geo and obj.lower_bound_bins >= lower_bound_damv"
            " and (obj.lower_bound_bins == lower_bound_geo or obj.lower_bound_bins == lower_bound_damv)"),
        tag("C03", "area-needs-that-many-bins", "obj.lower_bound_bins * (bin_height * bin_width) >= item_area"),
    ],
)

# ---- C17: instgen.Errors.evaluate returns a value in [0, 1] (block contract on the return statement)
from pyvc.spec import REAL  # noqa: E402

contract(
    "moptipyapps.binpacking2d.instgen.errors:Errors.evaluate",
    props="C17",
    block=("return #0", "return #0"),
    params={"errors": PYINT},
    ghosts={"ME": PYINT},
    attrs={"self.__max_errors": "ME"},
    i64=False, npscalars=True,
    requires=["ME >= 1"],
    returns=REAL,
    ensures=[tag("C17", "clamped-to-unit-interval", "0 <= result and result <= 1")],
    assumptions=["max_errors >= 1 (Errors.__init__; a degenerate template with max_errors == 0 would divide by zero)"],
)


# ---- C01/C13: the storage type chosen by binpacking2d.Instance.__new__ holds everything the decoders store
# (block: item loop + allocation).  The decoders' pre-condition "max_dim + item side + 1 <= D_hi, n_items + 1 <= D_hi, signed"
# is exactly what is established here (modulo E1 = the assumed contract of int_range_to_dtype).
from pyvc.spec import A2 as _A2, DTYPE, Loop, Summary, spec, lemma  # noqa: E402

spec("sum_rep(m, k)", "0 if k <= 0 else sum_rep(m, k - 1) + m[k - 1, IDX_REPETITION]", ptypes=["arr2", "int"])
_irtd = contract("<opaque>:int_range_to_dtype", params={"min_value": PYINT, "max_value": PYINT}, returns=DTYPE,
                 ensures=["result[0] < 0 and result[0] <= min_value and result[1] >= max_value"],
                 assumptions=["E1: moptipy int_range_to_dtype(min_value, max_value, force_signed=True) returns a signed dtype "
                              "containing [min_value, max_value]"])

contract(
    BI + ":Instance.__new__#dtype",
    props="C01 C13",
    block=("assign n_items #0", "assign obj #0"),
    params={"matrix": _A2("MI", cols=3), "n_different_items": PYINT, "max_dim": PYINT, "min_dim": PYINT,
            "cls": OBJ, "use_name": OBJ},
    i64=False, npscalars=True,
    requires=["n_different_items >= 1 and len(matrix) == n_different_items and 1 <= min_dim and min_dim <= max_dim"],
    opaque={"check_int_range": _check_int_range, "int_range_to_dtype": _irtd},
    attrs={"use_shape": "(n_different_items, 3)"},
    summaries={"if #5": Summary({}, [], "isinstance(row, list | np.ndarray) check"),
               "if #6": Summary({}, [], "len(row) != 3 check (matrix has three columns)")},
    loops={"0": Loop(inv=[
        tag("C01 C13", "count", "n_items == sum_rep(matrix, i) and n_items >= i"),
        tag("C01 C13", "max-size", "max_size >= -1 and forall(k, 0, i, matrix[k, IDX_WIDTH] <= max_size and matrix[k, IDX_HEIGHT] <= max_size)"),
        tag("C01", "rows-valid", "forall(k, 0, i, 1 <= matrix[k, IDX_WIDTH] and matrix[k, IDX_WIDTH] <= max_dim"
            " and 1 <= matrix[k, IDX_HEIGHT] and matrix[k, IDX_HEIGHT] <= max_dim and matrix[k, IDX_REPETITION] >= 1"
            " and not (matrix[k, IDX_WIDTH] > min_dim and matrix[k, IDX_HEIGHT] > min_dim))"),
    ])},
    ensures=[
        tag("C01 C13", "dtype-holds-start-position", "forall(k, 0, n_different_items, max_dim + matrix[k, IDX_WIDTH] + 1 <= dtype_hi(obj)"
            " and max_dim + matrix[k, IDX_HEIGHT] + 1 <= dtype_hi(obj))"),
        tag("C01 C13", "dtype-holds-bin-count", "n_items == sum_rep(matrix, n_different_items) and n_items + 1 <= dtype_hi(obj)"
            " and n_items >= n_different_items"),
        tag("C01 C13", "dtype-signed", "dtype_lo(obj) < 0"),
        tag("C01", "items-fit-in-one-orientation", "forall(k, 0, n_different_items, 1 <= matrix[k, IDX_WIDTH] and matrix[k, IDX_WIDTH] <= max_dim"
            " and 1 <= matrix[k, IDX_HEIGHT] and matrix[k, IDX_HEIGHT] <= max_dim"
            " and not (matrix[k, IDX_WIDTH] > min_dim and matrix[k, IDX_HEIGHT] > min_dim))"),
    ],
)


# ---- C03: the arithmetic tail of __lb_q (Dell'Amico / Martello / Vigo, Theorem 3): three exact ceilings and the sum.
# The sets S1..S4, S23 and S3 - ^S3^ are Python lists built before this block; here they enter through their sizes and
# sums (ghosts / summaries).  What is proved: the bound returned for one q is exactly
#     |S1| + |S2| + max(ceil(sum3 / W), ceil(|S3'| / floor(W / (floor(H/2) + 1)))) + max(0, ceil(denom / (W*H)))
# with integer ceilings, or less (one-sided: a smaller value is still a valid lower bound).  That the expression is a
# lower bound on the bins is assumption A2.
from pyvc.spec import Summary as _Summary  # noqa: E402

contract(
    BI + ":__lb_q#tail",
    props="C03",
    block=("assign b1 #0", "return #0"),
    params={"bin_width": PYINT, "bin_height": PYINT, "sum_s3_l": PYINT},
    ghosts={"n1": PYINT, "n2": PYINT, "n3": PYINT, "dn": PYINT},
    i64=False, npscalars=True, returns=PYINT,
    requires=["bin_width >= bin_height and bin_height >= 1",      # _lower_bound_damv normalises to landscape
              "sum_s3_l >= 0 and n1 >= 0 and n2 >= 0 and n3 >= 0"],
    summaries={
        "assign len_s3 #0": _Summary({"len_s3": PYINT}, ["len_s3 == n3"], "len(s3_minus_s3d) = |S3 - ^S3^|"),
        "assign l_tilde #0": _Summary({"l_tilde": PYINT}, ["l_tilde == n2 + max(b1, b2)"], "len(s2) + max(b1, b2), |S2| = n2"),
        "assign bound #0": _Summary({"bound": PYINT}, ["bound == n1 + l_tilde"], "len(s1) + l_tilde, |S1| = n1"),
        "assign denom #0": _Summary({"denom": PYINT}, ["denom == dn"], "sum of squares minus uncovered area (generator sums over the lists)"),
    },
    ensures=[
        # one-sided on purpose: C03 needs the value to be *at most* the DAMV expression (any smaller number is a valid
        # lower bound as well; the area bound is enforced separately by the max in Instance.__new__)
        tag("C03", "first-ceiling-not-above-the-exact-ceiling", "(b1 - 1) * bin_width < sum_s3_l or b1 <= 0"),
        tag("C03", "second-ceiling-not-above-the-exact-ceiling", "div >= 1 and ((b2 - 1) * div < n3 or b2 <= 0)"),
        tag("C03", "bound-for-this-q-at-most-the-DAMV-expression",
            "result <= n1 + n2 + max((sum_s3_l + bin_width - 1) // bin_width, (n3 + div - 1) // div)"
            " + (0 if dn <= 0 else (dn + bin_width * bin_height - 1) // (bin_width * bin_height))"),
    ],
)


# ---- C17: instgen.Hardness.evaluate and ErrorsAndHardness.evaluate return values in [0, 1].
# Hardness.evaluate accumulates one term per inner run; the argument is the loop invariant 0 <= result <= runs:
#   #term   (the statements from the normalisation of `quality` to `result += ...`): preserves the invariant, for whatever
#           the inner run delivered (quality, last improvement FE: arbitrary) - the code either raises or adds a term in [0, 1];
#   return  : under the invariant and runs >= 1 the returned value lies in [0, 1].
#   #clamped: alternatively, the return statement alone yields a value in [0, 1] for ANY `result` (the final clamp).
# The plan lists {#clamped} and {#term, return} as alternative arguments: one of them has to go through.  Both the
# checks-with-raise and the clamps establish the clause; removing redundant safeguards stays quiet as long as one
# argument remains.  Not machine-checked: that nothing else between the two blocks assigns `result` / `runs`
# (the `with execs.execute()` frame is outside the subset).
_any_real = contract("<opaque>:inner_run_result", params={}, returns=REAL, ensures=["True"],
                     assumptions=["Process.get_last_improvement_fe() returns some number (nothing is assumed about it)"])
contract(
    "moptipyapps.binpacking2d.instgen.hardness:Hardness.evaluate#term",
    props="C17",
    block=("assign quality #1", "assign result #1"),
    params={"quality": REAL, "ub": REAL, "lb": REAL, "max_fes": PYINT, "result": REAL, "runs": PYINT, "f": OBJ, "proc": OBJ},
    i64=False, npscalars=True,
    opaque={"proc.get_last_improvement_fe": _any_real},
    requires=["lb < ub", "max_fes >= 2", "runs >= 1 and 0 <= result and result <= runs - 1"],
    ensures=[tag("C17", "one-term-in-unit-interval-added", "0 <= result and result <= runs")],
    assumptions=["lb < ub is checked (with raise) just before the block; max_fes >= 2 by the constructor's check_int_range"],
)
contract(
    "moptipyapps.binpacking2d.instgen.hardness:Hardness.evaluate#clamped",
    props="C17",
    block=("return #0", "return #0"),
    params={"result": REAL, "runs": PYINT},
    i64=False, npscalars=True,
    requires=["runs >= 1"],
    returns=REAL,
    ensures=[tag("C17", "clamped-to-unit-interval", "0 <= return_value and return_value <= 1")],
    assumptions=["at least one executor and one run (runs >= 1 at the return)"],
)
contract(
    "moptipyapps.binpacking2d.instgen.hardness:Hardness.evaluate",
    props="C17",
    block=("return #0", "return #0"),
    params={"result": REAL, "runs": PYINT},
    i64=False, npscalars=True,
    requires=["runs >= 1 and 0 <= result and result <= runs"],
    returns=REAL,
    ensures=[tag("C17", "mean-of-terms-in-unit-interval", "0 <= return_value and return_value <= 1")],
    assumptions=["at least one executor and one run (runs >= 1 at the return; n_runs >= 1 is checked by the constructor, an empty "
                 "executor tuple would divide by zero)",
                 "loop invariant 0 <= result <= runs: established by `result = 0.0; runs = 0`, preserved by the #term block"],
)

_unit = contract("<opaque>:unit_interval_objective", params={"x": OBJ}, returns=REAL, ensures=["True"],
                 assumptions=["Hardness.evaluate / Errors.evaluate return some float (their own ranges are proved separately and "
                              "are NOT used here: the clamp alone carries the post-condition)"])
contract(
    "moptipyapps.binpacking2d.instgen.errors_and_hardness:ErrorsAndHardness.evaluate",
    props="C17",
    params={"x": OBJ},
    i64=False, npscalars=True,
    opaque={"self.hardness.evaluate": _unit, "self.errors.evaluate": _unit},
    returns=REAL,
    ensures=[tag("C17", "clamped-to-unit-interval", "0 <= result and result <= 1")],
)
