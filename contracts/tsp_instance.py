"""Block contract on tsp.Instance.__new__ (C05): the validation / bounds loop.

The bound clauses are one-sided on purpose (upper bound >= sum of row maxima >= every tour, lower bound <= sum of row
minima <= every tour): the property asks that every tour length lies between the instance's bounds, not that the bounds
are the tightest of their kind, so a maintainer may weaken them without an alarm."""
from pyvc.spec import A2, BOOL, PYINT, Loop, contract, spec, tag

TI = "moptipyapps.tsp.instance"
BIG = 9223372036854775807

spec("rmax(m, i, j)", "-1 if j <= 0 else (rmax(m, i, j - 1) if j - 1 == i else max(rmax(m, i, j - 1), m[i, j - 1]))",
     ptypes=["arr2", "int", "int"])
spec("rmin(m, i, j)", f"{BIG} if j <= 0 else (rmin(m, i, j - 1) if j - 1 == i else min(rmin(m, i, j - 1), m[i, j - 1]))",
     ptypes=["arr2", "int", "int"])
spec("srmax(m, n, i)", "0 if i <= 0 else srmax(m, n, i - 1) + rmax(m, i - 1, n)", ptypes=["arr2", "int", "int"])
spec("srmin(m, n, i)", "0 if i <= 0 else srmin(m, n, i - 1) + rmin(m, i - 1, n)", ptypes=["arr2", "int", "int"])

contract(
    TI + ":Instance.__new__",
    props="C05",
    block=("assign upper_bound #0", "for #0"),
    params={"matrix": A2("MT"), "n_cities": PYINT},
    i64=False, npscalars=True,
    requires=["n_cities >= 2 and shape(matrix, 0) == n_cities and shape(matrix, 1) == n_cities"],
    loops={
        "0": Loop(inv=[
            tag("C05", "upper", "upper_bound >= srmax(matrix, n_cities, i)"),
            tag("C05", "lower", "lower_bound_2 <= srmin(matrix, n_cities, i)"),
            tag("C05", "symmetry-flag", "is_symmetric == forall(a, 0, i, forall(b, 0, n_cities, matrix[a, b] == matrix[b, a]))"),
            tag("C05", "diagonal", "forall(a, 0, i, matrix[a, a] == 0)"),
        ]),
        "0.0": Loop(inv=[
            tag("C05", "farthest", "farthest_neighbor >= rmax(matrix, i, j) and 0 <= i and i < n_cities"),
            tag("C05", "nearest", "nearest_neighbor <= rmin(matrix, i, j)"),
            tag("C05", "symmetry-flag", "is_symmetric == (forall(a, 0, i, forall(b, 0, n_cities, matrix[a, b] == matrix[b, a]))"
                " and forall(b, 0, j, matrix[i, b] == matrix[b, i]))"),
            tag("C05", "diagonal", "implies(j > i, matrix[i, i] == 0) and forall(a, 0, i, matrix[a, a] == 0)"),
            tag("C05", "sums-kept", "upper_bound >= srmax(matrix, n_cities, i) and lower_bound_2 <= srmin(matrix, n_cities, i)"),
        ]),
    },
    ensures=[
        tag("C05", "upper-bound-at-least-the-sum-of-row-maxima", "upper_bound >= srmax(matrix, n_cities, n_cities)"),
        tag("C05", "lower-bound-at-most-the-sum-of-row-minima", "lower_bound_2 <= srmin(matrix, n_cities, n_cities)"),
        tag("C05", "symmetry-flag-iff-symmetric", "is_symmetric == forall(a, 0, n_cities, forall(b, 0, n_cities, matrix[a, b] == matrix[b, a]))"),
        tag("C05", "zero-diagonal", "forall(a, 0, n_cities, matrix[a, a] == 0)"),
    ],
)

contract(
    TI + ":Instance.__new__#copy-check",
    props="C05",
    block=("for #2", "for #2"),
    params={"obj": A2("O"), "matrix": A2("MT"), "n_cities": PYINT},
    i64=False, npscalars=True,
    requires=["n_cities >= 2 and shape(matrix, 0) == n_cities and shape(matrix, 1) == n_cities"
              " and shape(obj, 0) == n_cities and shape(obj, 1) == n_cities"],
    loops={
        "1": Loop(inv=[tag("C05", "rows-equal", "forall(a, 0, i, forall(b, 0, n_cities, obj[a, b] == matrix[a, b]))")]),
        "1.0": Loop(inv=[tag("C05", "rows-equal", "forall(a, 0, i, forall(b, 0, n_cities, obj[a, b] == matrix[a, b]))"
                             " and forall(b, 0, j, obj[i, b] == matrix[i, b]) and 0 <= i and i < n_cities")]),
    },
    ensures=[tag("C05", "stored-equals-given", "forall(a, 0, n_cities, forall(b, 0, n_cities, obj[a, b] == matrix[a, b]))")],
)


# ---- concrete generators for the two blocks
import numpy as np  # noqa: E402
from pyvc.spec import CONTRACTS  # noqa: E402


def _gen_block(rng):
    n = rng.randint(2, 6)
    sym = rng.random() < 0.5
    mx = rng.choice([1, 2, 9, 1000])
    m = np.zeros((n, n), np.int64)
    for i in range(n):
        for j in range(n):
            if i != j and (not sym or j < i):
                m[i, j] = rng.randint(0, mx)
                if sym:
                    m[j, i] = m[i, j]
    if not sym and rng.random() < 0.5:      # asymmetric in exactly one (late) pair
        m[:, :] = np.maximum(m, m.T)
        a = rng.randrange(n)
        b = (a + 1 + rng.randrange(n - 1)) % n
        m[a, b] += 1
    for i in range(n):
        if m[i].max() == 0:
            m[i, (i + 1) % n] = 1
            if sym:
                m[(i + 1) % n, i] = 1
    return {"matrix": m, "n_cities": n}


def _gen_copy(rng):
    d = _gen_block(rng)
    d["obj"] = d["matrix"].astype(rng.choice([np.int16, np.int32, np.int64]))
    if rng.random() < 0.5:      # an "unsafe" copy that changed one cell: the block must not complete normally
        n = d["n_cities"]
        d["obj"][rng.randrange(n), rng.randrange(n)] += 1
    return d


CONTRACTS[TI + ":Instance.__new__"].gen = _gen_block
CONTRACTS[TI + ":Instance.__new__#copy-check"].gen = _gen_copy


# ---- every tour of a permutation lies within [sum of row minima, sum of row maxima]  (C05 bounds clause)
from pyvc.spec import axiom, lemma  # noqa: E402
import contracts.tsp  # noqa: E402,F401  (cyc, perm)

spec("psum_max(m, x, n, k)", "0 if k <= 0 else psum_max(m, x, n, k - 1) + rmax(m, x[k - 1], n)", ptypes=["arr2", "arr1", "int", "int"])
spec("psum_min(m, x, n, k)", "0 if k <= 0 else psum_min(m, x, n, k - 1) + rmin(m, x[k - 1], n)", ptypes=["arr2", "arr1", "int", "int"])
axiom("perm_sum_rmax", {"m": "arr2", "x": "arr1", "n": "int"}, ["n >= 1", "perm(x, n)"],
      "psum_max(m, x, n, n) == srmax(m, n, n) and psum_min(m, x, n, n) == srmin(m, n, n)",
      note="A3 permutation-sum lemma (sum_k f(x[k]) = sum_c f(c) for a permutation x): Mathlib Equiv.sum_comp, "
           "design_round/A3.lean (Lean 4.33, checked in the design round; re-checked by `./check C05 --tier thorough`)")
lemma("rmax_ge", {"m": "arr2", "i": "int", "j": "int", "c": "int"}, ["0 <= c", "c < j", "c != i"],
      "m[i, c] <= rmax(m, i, j)", induct="j", base="c + 1")
lemma("rmin_le", {"m": "arr2", "i": "int", "j": "int", "c": "int"}, ["0 <= c", "c < j", "c != i"],
      "m[i, c] >= rmin(m, i, j)", induct="j", base="c + 1")
_src = "(x[k - 2] if k >= 2 else x[n - 1])"
lemma("cyc_le_max", {"d": "arr2", "x": "arr1", "n": "int", "k": "int"}, ["n >= 2", "k <= n", "perm(x, n)"],
      "cyc(d, x, n, k) <= rmax(d, x[n - 1], n) + psum_max(d, x, n, k - 1)", induct="k", base="1",
      uses=[f"rmax_ge(d, {_src}, n, x[k - 1])"])
lemma("cyc_ge_min", {"d": "arr2", "x": "arr1", "n": "int", "k": "int"}, ["n >= 2", "k <= n", "perm(x, n)"],
      "cyc(d, x, n, k) >= rmin(d, x[n - 1], n) + psum_min(d, x, n, k - 1)", induct="k", base="1",
      uses=[f"rmin_le(d, {_src}, n, x[k - 1])"])
lemma("tour_within_instance_bounds", {"d": "arr2", "x": "arr1", "n": "int"}, ["n >= 2", "perm(x, n)"],
      "srmin(d, n, n) <= cyc(d, x, n, n) and cyc(d, x, n, n) <= srmax(d, n, n)",
      uses=["cyc_le_max(d, x, n, n)", "cyc_ge_min(d, x, n, n)", "perm_sum_rmax(d, x, n)"])


# ---- the storage type of tsp.Instance (C05 "whatever integer type the instance chose", C06/C13 pre-condition D_lo < 0):
# block `limit = ...; obj = super().__new__(cls, use_shape, int_range_to_dtype(-limit, limit))`
from pyvc.spec import DTYPE, OBJ  # noqa: E402

_cir_t = contract("<opaque>:check_int_range", params={"v": PYINT, "name": OBJ, "lo": PYINT}, returns=PYINT,
                  ensures=["result == v and lo <= v"],
                  assumptions=["pycommons.check_int_range(v, name, lo) returns v if v >= lo (raises otherwise)"])
_irtd_t = contract("<opaque>:int_range_to_dtype", params={"min_value": PYINT, "max_value": PYINT}, returns=DTYPE,
                   ensures=["result[0] <= min_value and result[1] >= max_value and (result[0] < 0 or min_value >= 0)"],
                   assumptions=["E1: moptipy int_range_to_dtype(min_value, max_value) returns an integer dtype containing the "
                                "range (a signed one when min_value < 0)"])
contract(
    TI + ":Instance.__new__#dtype",
    props="C05 C06 C13",
    block=("assign limit #0", "assign obj #0"),
    params={"upper_bound_range_multiplier": PYINT, "upper_bound": PYINT, "n_cities": PYINT, "cls": OBJ},
    attrs={"use_shape": "(n_cities, n_cities)"},
    i64=False, npscalars=True,
    requires=["n_cities >= 2 and upper_bound >= 1"],
    opaque={"check_int_range": _cir_t, "int_range_to_dtype": _irtd_t},
    ensures=[tag("C05 C06 C13", "signed-type-holding-every-tour-length",
                 "dtype_lo(obj) < 0 and dtype_hi(obj) >= upper_bound and dtype_hi(obj) >= n_cities"
                 " and shape(obj, 0) == n_cities and shape(obj, 1) == n_cities")],
)


# ---- the bounds travel unchanged from the loop to the attributes and on to the objective (C05)
contract(
    TI + ":Instance.__new__#lower",
    props="C05",
    block=("assign tour_length_lower_bound #0", "assign tour_length_lower_bound #0"),
    params={"tour_length_lower_bound": PYINT, "lower_bound_2": PYINT},
    i64=False, npscalars=True,
    requires=["tour_length_lower_bound >= 0 and lower_bound_2 >= 0"],
    opaque={"check_int_range": contract("<opaque>:check_int_range4", params={"v": PYINT, "name": OBJ, "lo": PYINT, "hi": PYINT},
                                        returns=PYINT, ensures=["result == v and lo <= v and v <= hi"],
                                        assumptions=["pycommons.check_int_range returns its argument if it lies in [lo, hi]"])},
    # one-sided: with the caller's bound at its default 0 the stored lower bound is at most the sum of the row minima
    ensures=[tag("C05", "lower-bound-at-most-the-larger-of-given-and-derived",
                 "tour_length_lower_bound <= max(old(tour_length_lower_bound), lower_bound_2)")],
)
contract(
    TI + ":Instance.__new__#attributes",
    props="C05",
    block=("assign obj.name #0", "assign obj.is_symmetric #0"),
    params={"use_name": OBJ, "n_cities": PYINT, "tour_length_lower_bound": PYINT, "upper_bound": PYINT, "is_symmetric": BOOL},
    i64=False, npscalars=True,
    ensures=[tag("C05", "bounds-and-flag-stored-as-computed",
                 "obj.tour_length_lower_bound <= tour_length_lower_bound and obj.tour_length_upper_bound >= upper_bound"
                 " and obj.is_symmetric == is_symmetric and obj.n_cities == n_cities")],
)
TLM = "moptipyapps.tsp.tour_length"
_TL_ATTRS = {"self.instance.tour_length_lower_bound": "LB", "self.instance.tour_length_upper_bound": "UB"}
contract(TLM + ":TourLength.lower_bound", props="C05", params={}, ghosts={"LB": PYINT, "UB": PYINT}, i64=False, returns=PYINT,
         attrs=_TL_ATTRS, requires=["0 <= LB and LB <= UB"],
         ensures=[tag("C05", "declared-lower-bound-is-the-instance's", "result <= LB")])
contract(TLM + ":TourLength.upper_bound", props="C05", params={}, ghosts={"LB": PYINT, "UB": PYINT}, i64=False, returns=PYINT,
         attrs=_TL_ATTRS, requires=["0 <= LB and LB <= UB"],
         ensures=[tag("C05", "declared-upper-bound-is-the-instance's", "result >= UB")])
