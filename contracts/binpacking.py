"""Contracts: 2-D bin packing decoders (ibl_encoding_1 / ibl_encoding_2)."""
from pyvc.spec import A1, A2, BOOL, INT, Loop, contract, spec, tag

# packing columns: IDX_ID=0, IDX_BIN=1, IDX_LEFT_X=2, IDX_BOTTOM_Y=3, IDX_RIGHT_X=4, IDX_TOP_Y=5 (read from the repo)
spec("box(p, k, W, H)", "0 <= p[k, IDX_LEFT_X] and p[k, IDX_LEFT_X] < p[k, IDX_RIGHT_X] and p[k, IDX_RIGHT_X] <= W"
     " and 0 <= p[k, IDX_BOTTOM_Y] and p[k, IDX_BOTTOM_Y] < p[k, IDX_TOP_Y] and p[k, IDX_TOP_Y] <= H", ret="bool")
spec("nov(p, k, l, b, r, t)", "p[k, IDX_RIGHT_X] <= l or p[k, IDX_LEFT_X] >= r or p[k, IDX_TOP_Y] <= b"
     " or p[k, IDX_BOTTOM_Y] >= t", ret="bool")
spec("xov(p, k, l, r)", "p[k, IDX_RIGHT_X] > l and p[k, IDX_LEFT_X] < r", ret="bool")
spec("yov(p, k, b, t)", "p[k, IDX_TOP_Y] > b and p[k, IDX_BOTTOM_Y] < t", ret="bool")
spec("rowsame(p, q, k)", "p[k, 0] == q[k, 0] and p[k, 1] == q[k, 1] and p[k, 2] == q[k, 2] and p[k, 3] == q[k, 3]"
     " and p[k, 4] == q[k, 4] and p[k, 5] == q[k, 5]", ret="bool")

E1 = "moptipyapps.binpacking2d.encodings.ibl_encoding_1"

_move_pre = [
    "0 <= bin_start and bin_start <= i1 and i1 < len(packing)",
    "W >= 1 and H >= 1",
    "forall(k, bin_start, i1, box(packing, k, W, H))",
    "forall(k, bin_start, i1, nov(packing, k, packing[i1, IDX_LEFT_X], packing[i1, IDX_BOTTOM_Y],"
    " packing[i1, IDX_RIGHT_X], packing[i1, IDX_TOP_Y]))",
    "0 <= packing[i1, IDX_LEFT_X] and packing[i1, IDX_LEFT_X] < packing[i1, IDX_RIGHT_X]"
    " and packing[i1, IDX_RIGHT_X] <= W",
    "0 <= packing[i1, IDX_BOTTOM_Y] and packing[i1, IDX_BOTTOM_Y] < packing[i1, IDX_TOP_Y]",
    "D_hi <= 2**63 - 1",
]

contract(
    E1 + ":__move_down",
    props="C01 C14",
    params={"packing": A2("D", cols=6), "bin_start": INT, "i1": INT},
    ghosts={"W": INT, "H": INT},
    returns=BOOL,
    requires=_move_pre,
    modifies=["packing"],
    loops={"0": Loop(inv=[
        tag("C01 C14", "md-range", "0 <= min_down and min_down <= packing_i1_bottom_y"),
        tag("C01 C14", "md-lower", "forall(k, bin_start, i0, implies(xov(packing, k, packing_i1_left_x, packing_i1_right_x)"
            " and packing[k, IDX_BOTTOM_Y] < packing_i1_top_y, min_down <= packing_i1_bottom_y - packing[k, IDX_TOP_Y]))"),
        tag("C14", "md-tight", "min_down == packing_i1_bottom_y or exists(k, bin_start, i0,"
            " xov(packing, k, packing_i1_left_x, packing_i1_right_x) and packing[k, IDX_BOTTOM_Y] < packing_i1_top_y"
            " and min_down == packing_i1_bottom_y - packing[k, IDX_TOP_Y])"),
    ])},
    ensures=[
        tag("C01 C14", "frame", "forall(k, 0, len(packing), implies(k != i1, rowsame(packing, old(packing), k)))"),
        tag("C01 C14", "frame-row", "packing[i1, 0] == old(packing[i1, 0]) and packing[i1, 1] == old(packing[i1, 1])"
            " and packing[i1, IDX_LEFT_X] == old(packing[i1, IDX_LEFT_X])"
            " and packing[i1, IDX_RIGHT_X] == old(packing[i1, IDX_RIGHT_X])"),
        tag("C01 C14", "height", "packing[i1, IDX_TOP_Y] - packing[i1, IDX_BOTTOM_Y]"
            " == old(packing[i1, IDX_TOP_Y] - packing[i1, IDX_BOTTOM_Y])"),
        tag("C01 C14", "result-iff-moved", "result == (packing[i1, IDX_BOTTOM_Y] < old(packing[i1, IDX_BOTTOM_Y]))"),
        tag("C01 C14", "not-up", "0 <= packing[i1, IDX_BOTTOM_Y] and packing[i1, IDX_BOTTOM_Y] <= old(packing[i1, IDX_BOTTOM_Y])"),
        tag("C01", "no-overlap", "forall(k, bin_start, i1, nov(packing, k, packing[i1, IDX_LEFT_X],"
            " packing[i1, IDX_BOTTOM_Y], packing[i1, IDX_RIGHT_X], packing[i1, IDX_TOP_Y]))"),
        tag("C14", "R3-tight", "packing[i1, IDX_BOTTOM_Y] == 0 or exists(k, bin_start, i1,"
            " xov(packing, k, packing[i1, IDX_LEFT_X], packing[i1, IDX_RIGHT_X])"
            " and packing[k, IDX_TOP_Y] == packing[i1, IDX_BOTTOM_Y])"),
    ],
    must_fail=["packing[i1, IDX_BOTTOM_Y] == old(packing[i1, IDX_BOTTOM_Y])"],
)

# __move_left: two families: (a) "support" rows k (x-overlap and top_k == bottom): limit right - left_k;
# (b) "blocker" rows k (right_k <= left, y-overlap): limit left - right_k.
spec("ml_support(p, k, l, b, r)", "p[k, IDX_LEFT_X] < r and p[k, IDX_RIGHT_X] > l and p[k, IDX_TOP_Y] == b", ret="bool")
spec("ml_blocker(p, k, l, b, t)", "p[k, IDX_RIGHT_X] <= l and t > p[k, IDX_BOTTOM_Y] and b < p[k, IDX_TOP_Y]", ret="bool")

contract(
    E1 + ":__move_left",
    props="C01 C14",
    params={"packing": A2("D", cols=6), "bin_start": INT, "i1": INT},
    ghosts={"W": INT, "H": INT},
    returns=BOOL,
    requires=_move_pre,
    modifies=["packing"],
    loops={"0": Loop(inv=[
        tag("C01 C14", "ml-range", "0 <= min_left and min_left <= packing_i1_left_x"),
        tag("C01 C14", "ml-lower-support", "forall(k, bin_start, i0, implies(ml_support(packing, k, packing_i1_left_x,"
            " packing_i1_bottom_y, packing_i1_right_x), min_left <= packing_i1_right_x - packing[k, IDX_LEFT_X]))"),
        tag("C01 C14", "ml-lower-blocker", "forall(k, bin_start, i0, implies(ml_blocker(packing, k, packing_i1_left_x,"
            " packing_i1_bottom_y, packing_i1_top_y), min_left <= packing_i1_left_x - packing[k, IDX_RIGHT_X]))"),
        tag("C14", "ml-tight", "min_left == packing_i1_left_x"
            " or exists(k, bin_start, i0, ml_support(packing, k, packing_i1_left_x, packing_i1_bottom_y,"
            " packing_i1_right_x) and min_left == packing_i1_right_x - packing[k, IDX_LEFT_X])"
            " or exists(k, bin_start, i0, ml_blocker(packing, k, packing_i1_left_x, packing_i1_bottom_y,"
            " packing_i1_top_y) and min_left == packing_i1_left_x - packing[k, IDX_RIGHT_X])"),
    ])},
    ensures=[
        tag("C01 C14", "frame", "forall(k, 0, len(packing), implies(k != i1, rowsame(packing, old(packing), k)))"),
        tag("C01 C14", "frame-row", "packing[i1, 0] == old(packing[i1, 0]) and packing[i1, 1] == old(packing[i1, 1])"
            " and packing[i1, IDX_BOTTOM_Y] == old(packing[i1, IDX_BOTTOM_Y])"
            " and packing[i1, IDX_TOP_Y] == old(packing[i1, IDX_TOP_Y])"),
        tag("C01 C14", "width", "packing[i1, IDX_RIGHT_X] - packing[i1, IDX_LEFT_X]"
            " == old(packing[i1, IDX_RIGHT_X] - packing[i1, IDX_LEFT_X])"),
        tag("C01 C14", "result-iff-moved", "result == (packing[i1, IDX_LEFT_X] < old(packing[i1, IDX_LEFT_X]))"),
        tag("C01 C14", "not-right", "0 <= packing[i1, IDX_LEFT_X] and packing[i1, IDX_LEFT_X] <= old(packing[i1, IDX_LEFT_X])"),
        tag("C01", "no-overlap", "forall(k, bin_start, i1, nov(packing, k, packing[i1, IDX_LEFT_X],"
            " packing[i1, IDX_BOTTOM_Y], packing[i1, IDX_RIGHT_X], packing[i1, IDX_TOP_Y]))"),
        # R4: the displacement is exactly min(left, min over supports of (right - left_k), min over blockers of (left - right_k))
        tag("C14", "R4-lower-support", "forall(k, bin_start, i1, implies(ml_support(old(packing), k, old(packing[i1, IDX_LEFT_X]),"
            " old(packing[i1, IDX_BOTTOM_Y]), old(packing[i1, IDX_RIGHT_X])),"
            " old(packing[i1, IDX_LEFT_X]) - packing[i1, IDX_LEFT_X] <= old(packing[i1, IDX_RIGHT_X]) - packing[k, IDX_LEFT_X]))"),
        tag("C14", "R4-tight", "packing[i1, IDX_LEFT_X] == 0"
            " or exists(k, bin_start, i1, ml_support(old(packing), k, old(packing[i1, IDX_LEFT_X]), old(packing[i1, IDX_BOTTOM_Y]),"
            " old(packing[i1, IDX_RIGHT_X])) and packing[i1, IDX_RIGHT_X] == packing[k, IDX_LEFT_X])"
            " or exists(k, bin_start, i1, ml_blocker(old(packing), k, old(packing[i1, IDX_LEFT_X]), old(packing[i1, IDX_BOTTOM_Y]),"
            " old(packing[i1, IDX_TOP_Y])) and packing[i1, IDX_LEFT_X] == packing[k, IDX_RIGHT_X])"),
    ],
    must_fail=["packing[i1, IDX_LEFT_X] == old(packing[i1, IDX_LEFT_X])"],
)
