"""Contracts: 2-D bin packing decoders (ibl_encoding_1 / ibl_encoding_2)."""
from pyvc.spec import A1, A2, BOOL, INT, Loop, contract, spec, tag

# packing columns: IDX_ID=0, IDX_BIN=1, IDX_LEFT_X=2, IDX_BOTTOM_Y=3, IDX_RIGHT_X=4, IDX_TOP_Y=5 (read from the repo)
spec("box(p, k, W, H)", "0 <= p[k, IDX_LEFT_X] and p[k, IDX_LEFT_X] < p[k, IDX_RIGHT_X] and p[k, IDX_RIGHT_X] <= W"
     " and 0 <= p[k, IDX_BOTTOM_Y] and p[k, IDX_BOTTOM_Y] < p[k, IDX_TOP_Y] and p[k, IDX_TOP_Y] <= H", ret="bool")
spec("nov(p, k, l, b, r, t)", "p[k, IDX_RIGHT_X] <= l or p[k, IDX_LEFT_X] >= r or p[k, IDX_TOP_Y] <= b"
     " or p[k, IDX_BOTTOM_Y] >= t", ret="bool")
spec("xov(p, k, l, r)", "p[k, IDX_RIGHT_X] > l and p[k, IDX_LEFT_X] < r", ret="bool")
spec("yov(p, k, b, t)", "p[k, IDX_TOP_Y] > b and p[k, IDX_BOTTOM_Y] < t", ret="bool")
spec("rowsame(p, q, k)", "p[k, 0] == q[k, 0] and p[k, 1] == q[k, 1] and p[k, 2] == q[k, 2] and p[k, 3] == q[k, 3]"
     " and p[k, 4] == q[k, 4] and p[k, 5] == q[k, 5]", ret="bool")

E1 = "moptipyapps.binpacking2d.encodings.ibl_encoding_1"

_move_pre = [
    "0 <= bin_start and bin_start <= i1 and i1 < len(packing)",
    "W >= 1 and H >= 1",
    "forall(k, bin_start, i1, box(packing, k, W, H))",
    "forall(k, bin_start, i1, nov(packing, k, packing[i1, IDX_LEFT_X], packing[i1, IDX_BOTTOM_Y],"
    " packing[i1, IDX_RIGHT_X], packing[i1, IDX_TOP_Y]))",
    "0 <= packing[i1, IDX_LEFT_X] and packing[i1, IDX_LEFT_X] < packing[i1, IDX_RIGHT_X]"
    " and packing[i1, IDX_RIGHT_X] <= W",
    "0 <= packing[i1, IDX_BOTTOM_Y] and packing[i1, IDX_BOTTOM_Y] < packing[i1, IDX_TOP_Y]",
    "D_hi <= 2**63 - 1",
    # R9: the window rows and row i1 have been written in this decoding (no dependence on earlier contents)
    "forall(k, bin_start, i1 + 1, forall(c, 2, 6, written(packing, k, c)))",
]

contract(
    E1 + ":__move_down",
    props="C01 C14",
    params={"packing": A2("D", cols=6, uninit=True), "bin_start": INT, "i1": INT},
    ghosts={"W": INT, "H": INT},
    returns=BOOL,
    requires=_move_pre,
    modifies=["packing"],
    loops={"0": Loop(inv=[
        tag("C01 C14", "md-range", "min_down <= packing_i1_bottom_y"),
        tag("C14", "md-nonneg", "0 <= min_down"),
        tag("C01 C14", "md-lower", "forall(k, bin_start, i0, implies(xov(packing, k, packing_i1_left_x, packing_i1_right_x)"
            " and packing[k, IDX_BOTTOM_Y] < packing_i1_top_y, min_down <= packing_i1_bottom_y - packing[k, IDX_TOP_Y]))"),
        tag("C14", "md-tight", "min_down == packing_i1_bottom_y or exists(k, bin_start, i0,"
            " xov(packing, k, packing_i1_left_x, packing_i1_right_x) and packing[k, IDX_BOTTOM_Y] < packing_i1_top_y"
            " and min_down == packing_i1_bottom_y - packing[k, IDX_TOP_Y])"),
    ])},
    ensures=[
        tag("C01 C14", "frame", "forall(k, 0, len(packing), implies(k != i1, rowsame(packing, old(packing), k)))"),
        tag("C01 C14", "frame-row", "packing[i1, 0] == old(packing[i1, 0]) and packing[i1, 1] == old(packing[i1, 1])"
            " and packing[i1, IDX_LEFT_X] == old(packing[i1, IDX_LEFT_X])"
            " and packing[i1, IDX_RIGHT_X] == old(packing[i1, IDX_RIGHT_X])"),
        tag("C01 C14", "height", "packing[i1, IDX_TOP_Y] - packing[i1, IDX_BOTTOM_Y]"
            " == old(packing[i1, IDX_TOP_Y] - packing[i1, IDX_BOTTOM_Y])"),
        tag("C01 C14", "result-iff-moved", "result == (packing[i1, IDX_BOTTOM_Y] < old(packing[i1, IDX_BOTTOM_Y]))"),
        tag("C01 C14", "not-up", "0 <= packing[i1, IDX_BOTTOM_Y] and packing[i1, IDX_BOTTOM_Y] <= old(packing[i1, IDX_BOTTOM_Y])"),
        tag("C01 C14", "no-overlap", "forall(k, bin_start, i1, nov(packing, k, packing[i1, IDX_LEFT_X],"
            " packing[i1, IDX_BOTTOM_Y], packing[i1, IDX_RIGHT_X], packing[i1, IDX_TOP_Y]))"),
        tag("C14", "R5-result-iff-possible", "result == can_down(old(packing), bin_start, i1)"),
        tag("C14", "R3-no-tunnel", "forall(k, bin_start, i1, implies(xov(packing, k, packing[i1, IDX_LEFT_X], packing[i1, IDX_RIGHT_X])"
            " and packing[k, IDX_BOTTOM_Y] < old(packing[i1, IDX_TOP_Y]), packing[k, IDX_TOP_Y] <= packing[i1, IDX_BOTTOM_Y]))"),
        tag("C14", "R3-tight", "packing[i1, IDX_BOTTOM_Y] == 0 or exists(k, bin_start, i1,"
            " xov(packing, k, packing[i1, IDX_LEFT_X], packing[i1, IDX_RIGHT_X])"
            " and packing[k, IDX_TOP_Y] == packing[i1, IDX_BOTTOM_Y])"),
    ],
    must_fail=["packing[i1, IDX_BOTTOM_Y] == old(packing[i1, IDX_BOTTOM_Y])"],
)

# __move_left: two families: (a) "support" rows k (x-overlap and top_k == bottom): limit right - left_k;
# (b) "blocker" rows k (right_k <= left, y-overlap): limit left - right_k.
spec("ml_support(p, k, l, b, r)", "p[k, IDX_LEFT_X] < r and p[k, IDX_RIGHT_X] > l and p[k, IDX_TOP_Y] == b", ret="bool")
spec("ml_blocker(p, k, l, b, t)", "p[k, IDX_RIGHT_X] <= l and t > p[k, IDX_BOTTOM_Y] and b < p[k, IDX_TOP_Y]", ret="bool")

contract(
    E1 + ":__move_left",
    props="C01 C14",
    params={"packing": A2("D", cols=6, uninit=True), "bin_start": INT, "i1": INT},
    ghosts={"W": INT, "H": INT},
    returns=BOOL,
    requires=_move_pre,
    modifies=["packing"],
    loops={"0": Loop(inv=[
        tag("C01 C14", "ml-range", "min_left <= packing_i1_left_x"),
        tag("C14", "ml-nonneg", "0 <= min_left"),
        tag("C01 C14", "ml-lower-support", "forall(k, bin_start, i0, implies(ml_support(packing, k, packing_i1_left_x,"
            " packing_i1_bottom_y, packing_i1_right_x), min_left <= packing_i1_right_x - packing[k, IDX_LEFT_X]))"),
        tag("C01 C14", "ml-lower-blocker", "forall(k, bin_start, i0, implies(ml_blocker(packing, k, packing_i1_left_x,"
            " packing_i1_bottom_y, packing_i1_top_y), min_left <= packing_i1_left_x - packing[k, IDX_RIGHT_X]))"),
        tag("C14", "ml-tight", "min_left == packing_i1_left_x"
            " or exists(k, bin_start, i0, ml_support(packing, k, packing_i1_left_x, packing_i1_bottom_y,"
            " packing_i1_right_x) and min_left == packing_i1_right_x - packing[k, IDX_LEFT_X])"
            " or exists(k, bin_start, i0, ml_blocker(packing, k, packing_i1_left_x, packing_i1_bottom_y,"
            " packing_i1_top_y) and min_left == packing_i1_left_x - packing[k, IDX_RIGHT_X])"),
    ])},
    ensures=[
        tag("C01 C14", "frame", "forall(k, 0, len(packing), implies(k != i1, rowsame(packing, old(packing), k)))"),
        tag("C01 C14", "frame-row", "packing[i1, 0] == old(packing[i1, 0]) and packing[i1, 1] == old(packing[i1, 1])"
            " and packing[i1, IDX_BOTTOM_Y] == old(packing[i1, IDX_BOTTOM_Y])"
            " and packing[i1, IDX_TOP_Y] == old(packing[i1, IDX_TOP_Y])"),
        tag("C01 C14", "width", "packing[i1, IDX_RIGHT_X] - packing[i1, IDX_LEFT_X]"
            " == old(packing[i1, IDX_RIGHT_X] - packing[i1, IDX_LEFT_X])"),
        tag("C01 C14", "result-iff-moved", "result == (packing[i1, IDX_LEFT_X] < old(packing[i1, IDX_LEFT_X]))"),
        tag("C01 C14", "not-right", "0 <= packing[i1, IDX_LEFT_X] and packing[i1, IDX_LEFT_X] <= old(packing[i1, IDX_LEFT_X])"),
        tag("C01 C14", "no-overlap", "forall(k, bin_start, i1, nov(packing, k, packing[i1, IDX_LEFT_X],"
            " packing[i1, IDX_BOTTOM_Y], packing[i1, IDX_RIGHT_X], packing[i1, IDX_TOP_Y]))"),
        tag("C14", "R5-result-iff-possible", "result == can_left(old(packing), bin_start, i1)"),
        tag("C14", "R4-lower-blocker", "forall(k, bin_start, i1, implies(ml_blocker(old(packing), k, old(packing[i1, IDX_LEFT_X]),"
            " old(packing[i1, IDX_BOTTOM_Y]), old(packing[i1, IDX_TOP_Y])), packing[k, IDX_RIGHT_X] <= packing[i1, IDX_LEFT_X]))"),
        # R4: the displacement is exactly min(left, min over supports of (right - left_k), min over blockers of (left - right_k))
        tag("C14", "R4-lower-support", "forall(k, bin_start, i1, implies(ml_support(old(packing), k, old(packing[i1, IDX_LEFT_X]),"
            " old(packing[i1, IDX_BOTTOM_Y]), old(packing[i1, IDX_RIGHT_X])),"
            " old(packing[i1, IDX_LEFT_X]) - packing[i1, IDX_LEFT_X] <= old(packing[i1, IDX_RIGHT_X]) - packing[k, IDX_LEFT_X]))"),
        tag("C14", "R4-tight", "packing[i1, IDX_LEFT_X] == 0"
            " or exists(k, bin_start, i1, ml_support(old(packing), k, old(packing[i1, IDX_LEFT_X]), old(packing[i1, IDX_BOTTOM_Y]),"
            " old(packing[i1, IDX_RIGHT_X])) and packing[i1, IDX_RIGHT_X] == packing[k, IDX_LEFT_X])"
            " or exists(k, bin_start, i1, ml_blocker(old(packing), k, old(packing[i1, IDX_LEFT_X]), old(packing[i1, IDX_BOTTOM_Y]),"
            " old(packing[i1, IDX_TOP_Y])) and packing[i1, IDX_LEFT_X] == packing[k, IDX_RIGHT_X])"),
    ],
    must_fail=["packing[i1, IDX_LEFT_X] == old(packing[i1, IDX_LEFT_X])"],
)


# ------------------------------------------------------------------ C14 vocabulary: "a move is possible"
spec("can_down(p, bs, i)", "p[i, IDX_BOTTOM_Y] > 0 and forall(k, bs, i, implies(xov(p, k, p[i, IDX_LEFT_X], p[i, IDX_RIGHT_X])"
     " and p[k, IDX_BOTTOM_Y] < p[i, IDX_TOP_Y], p[k, IDX_TOP_Y] < p[i, IDX_BOTTOM_Y]))", ret="bool")
spec("can_left(p, bs, i)", "p[i, IDX_LEFT_X] > 0 and forall(k, bs, i, implies(ml_blocker(p, k, p[i, IDX_LEFT_X],"
     " p[i, IDX_BOTTOM_Y], p[i, IDX_TOP_Y]), p[k, IDX_RIGHT_X] < p[i, IDX_LEFT_X]))", ret="bool")
spec("can_down2(p, b, bs, be, i)", "p[i, IDX_BOTTOM_Y] > 0 and forall(k, bs, be, implies(p[k, IDX_BIN] == b"
     " and xov(p, k, p[i, IDX_LEFT_X], p[i, IDX_RIGHT_X])"
     " and p[k, IDX_BOTTOM_Y] < p[i, IDX_TOP_Y], p[k, IDX_TOP_Y] < p[i, IDX_BOTTOM_Y]))", ret="bool")
spec("can_left2(p, b, bs, be, i)", "p[i, IDX_LEFT_X] > 0 and forall(k, bs, be, implies(p[k, IDX_BIN] == b"
     " and ml_blocker(p, k, p[i, IDX_LEFT_X],"
     " p[i, IDX_BOTTOM_Y], p[i, IDX_TOP_Y]), p[k, IDX_RIGHT_X] < p[i, IDX_LEFT_X]))", ret="bool")
# orientation rule R2: (w, h) of item x_i: swapped when negated, swapped again when it would not fit otherwise
spec("w0(inst, xi)", "inst[abs(xi) - 1, IDX_HEIGHT] if xi < 0 else inst[abs(xi) - 1, IDX_WIDTH]")
spec("h0(inst, xi)", "inst[abs(xi) - 1, IDX_WIDTH] if xi < 0 else inst[abs(xi) - 1, IDX_HEIGHT]")
spec("orient_ok(inst, xi, W, H, w, h)", "(w == h0(inst, xi) and h == w0(inst, xi)) if (w0(inst, xi) > W or h0(inst, xi) > H)"
     " else (w == w0(inst, xi) and h == h0(inst, xi))", ret="bool")

# ------------------------------------------------------------------ _decode (encoding 1)
spec("sizeof(p, k, inst)",
     "(p[k, IDX_RIGHT_X] - p[k, IDX_LEFT_X] == inst[p[k, IDX_ID] - 1, IDX_WIDTH]"
     " and p[k, IDX_TOP_Y] - p[k, IDX_BOTTOM_Y] == inst[p[k, IDX_ID] - 1, IDX_HEIGHT])"
     " or (p[k, IDX_RIGHT_X] - p[k, IDX_LEFT_X] == inst[p[k, IDX_ID] - 1, IDX_HEIGHT]"
     " and p[k, IDX_TOP_Y] - p[k, IDX_BOTTOM_Y] == inst[p[k, IDX_ID] - 1, IDX_WIDTH])", ret="bool")
spec("novrows(p, a, c)", "nov(p, a, p[c, IDX_LEFT_X], p[c, IDX_BOTTOM_Y], p[c, IDX_RIGHT_X], p[c, IDX_TOP_Y])", ret="bool")
spec("rowok(p, k, x, inst, W, H, bid)", "p[k, IDX_ID] == abs(x[k]) and box(p, k, W, H) and sizeof(p, k, inst)"
     " and 1 <= p[k, IDX_BIN] and p[k, IDX_BIN] <= bid", ret="bool")
spec("rowwritten(p, k)", "written(p, k, 0) and written(p, k, 1) and written(p, k, 2) and written(p, k, 3)"
     " and written(p, k, 4) and written(p, k, 5)", ret="bool")

# what binpacking2d.Instance.__new__ and the (signed) permutation space establish
_decode_pre = [
    "bin_width >= 1 and bin_height >= 1 and bin_width <= 10**12 and bin_height <= 10**12",
    "nd >= 1 and len(instance) == nd and n >= nd and len(x) == n and len(y) == n",
    "forall(k, 0, nd, 1 <= instance[k, IDX_WIDTH] and instance[k, IDX_WIDTH] <= max(bin_width, bin_height)"
    " and 1 <= instance[k, IDX_HEIGHT] and instance[k, IDX_HEIGHT] <= max(bin_width, bin_height)"
    " and not (instance[k, IDX_WIDTH] > min(bin_width, bin_height) and instance[k, IDX_HEIGHT] > min(bin_width, bin_height)))",
    "forall(k, 0, n, x[k] != 0 and -nd <= x[k] and x[k] <= nd)",
    # storage type of the packing = instance.dtype = int_range_to_dtype(0, max(max_dim + max_size + 1, n_items + 1), signed) (E1)
    "forall(k, 0, nd, max(bin_width, bin_height) + instance[k, IDX_WIDTH] + 1 <= D_hi"
    " and max(bin_width, bin_height) + instance[k, IDX_HEIGHT] + 1 <= D_hi)",
    "n + 1 <= D_hi and D_lo < 0 and D_hi <= 2**63 - 1 and I_hi <= 2**63 - 1 and X_hi <= 2**63 - 1 and X_lo < 0",
]

_outer_inv_1 = [
    tag("C01 C13 C14", "scalars", "0 <= bin_start and bin_start <= i and bin_id >= 1 and bin_id <= i + 1"
        " and implies(i == 0, bin_start == 0 and bin_id == 1) and implies(i > 0, bin_start < i and bin_id <= i)"),
    tag("C01 C14", "rowok", "forall(k, 0, i, rowok(y, k, x, instance, bin_width, bin_height, bin_id))"),
    tag("C01 C14", "curbin", "forall(k, 0, i, (k >= bin_start) == (y[k, IDX_BIN] == bin_id))"),
    tag("C01", "nov", "forall(r, 0, i, forall(s, 0, i, implies(r != s and y[r, IDX_BIN] == y[s, IDX_BIN], novrows(y, r, s))))"),
    tag("C01", "witness", "forall(b, 1, bin_id, 0 <= first_row[b] and first_row[b] < bin_start and y[first_row[b], IDX_BIN] == b)"),
    tag("C01 C14", "written", "forall(k, 0, i, rowwritten(y, k))"),
]

_while_inv_1 = [
    tag("C01 C13 C14", "geometry", "y[i, IDX_RIGHT_X] - y[i, IDX_LEFT_X] == w and y[i, IDX_TOP_Y] - y[i, IDX_BOTTOM_Y] == h"
        " and 0 <= y[i, IDX_LEFT_X] and y[i, IDX_RIGHT_X] <= bin_width and 0 <= y[i, IDX_BOTTOM_Y]"
        " and y[i, IDX_BOTTOM_Y] <= bin_height and y[i, IDX_ID] == use_id + 1"),
    tag("C01 C14", "frame", "forall(k, 0, n, implies(k != i, rowsame(y, at_loop(y), k)))"),
    tag("C01 C14", "nov-window", "forall(k, bin_start, i, novrows(y, k, i))"),
    tag("C01 C14", "written-i", "written(y, i, 0) and written(y, i, 2) and written(y, i, 3) and written(y, i, 4) and written(y, i, 5)"),
    tag("C01 C14", "written-rows", "forall(k, 0, i, rowwritten(y, k))"),
]

contract(
    E1 + ":_decode",
    props="C01 C14",
    params={"x": A1("X"), "y": A2("D", cols=6, uninit=True), "instance": A2("I", cols=3),
            "bin_width": INT, "bin_height": INT},
    ghosts={"n": INT, "nd": INT, "first_row": A1()},
    returns=INT,
    requires=_decode_pre,
    modifies=["y", "first_row"],
    calls={"__move_down": {"W": "bin_width", "H": "bin_height"}, "__move_left": {"W": "bin_width", "H": "bin_height"}},
    # ghost witness: when bin `bin_id` is closed, remember one of its rows (its first one)
    ghost_code={"after assign bin_id #1": ["first_row[bin_id - 1] = bin_start"]},
    ghost_results={"bin_start": INT},      # the local mentioned by the last ensures clause: existential for callers
    loops={
        "0": Loop(inv=_outer_inv_1),
        "0.0": Loop(inv=_while_inv_1, variant="y[i, IDX_BOTTOM_Y] + y[i, IDX_LEFT_X]",
                    iter=[tag("C14", "R5-down-first", "implies(can_down(at_iter(y), bin_start, i),"
                              " y[i, IDX_BOTTOM_Y] < at_iter(y)[i, IDX_BOTTOM_Y] and y[i, IDX_LEFT_X] == at_iter(y)[i, IDX_LEFT_X])"),
                          tag("C14", "R5-left-only-when-no-down", "implies(not can_down(at_iter(y), bin_start, i),"
                              " y[i, IDX_BOTTOM_Y] == at_iter(y)[i, IDX_BOTTOM_Y] and y[i, IDX_LEFT_X] < at_iter(y)[i, IDX_LEFT_X])")],
                    exit=[tag("C14", "R6-stable", "not can_down(y, bin_start, i) and not can_left(y, bin_start, i)"),
                          tag("C14", "R6-unchanged-on-exit", "rowsame(y, at_iter(y), i)")]),
    },
    asserts={
        "after if #1": [tag("C14", "R2-orientation", "use_id == abs(x[i]) - 1 and item_id == x[i]"
                            " and orient_ok(instance, x[i], bin_width, bin_height, w, h)")],
        "after assign y[i,IDX_TOP_Y] #0": [tag("C14", "R1-start", "y[i, IDX_LEFT_X] == bin_width - w and y[i, IDX_BOTTOM_Y] == bin_height"
                                               " and y[i, IDX_RIGHT_X] == bin_width and y[i, IDX_TOP_Y] == bin_height + h"
                                               " and y[i, IDX_ID] == abs(x[i])")],
        "after assign y[i,IDX_TOP_Y] #1": [tag("C14", "R8-new-bin", "y[i, IDX_LEFT_X] == 0 and y[i, IDX_BOTTOM_Y] == 0"
                                               " and y[i, IDX_RIGHT_X] == w and y[i, IDX_TOP_Y] == h"
                                               " and bin_id == at_iter(bin_id) + 1 and bin_start == i")],
        "after assign y[i,IDX_BIN] #0": [tag("C14", "R7-bin-stored", "y[i, IDX_BIN] == bin_id and bin_id >= at_iter(bin_id)"
                                             " and bin_id <= at_iter(bin_id) + 1")],
    },
    branch_iff={"if#2": tag("C14", "R7-new-bin-iff-not-inside",
                            "not (y[i, IDX_RIGHT_X] <= bin_width and y[i, IDX_TOP_Y] <= bin_height)")},
    ensures=[
        tag("C01", "bin-count", "1 <= result and result <= n"),
        tag("C01", "rows-feasible", "forall(k, 0, n, rowok(y, k, x, instance, bin_width, bin_height, result))"),
        tag("C01", "no-overlap", "forall(r, 0, n, forall(s, 0, n, implies(r != s and y[r, IDX_BIN] == y[s, IDX_BIN], novrows(y, r, s))))"),
        tag("C01", "bins-gap-free", "forall(b, 1, result, 0 <= first_row[b] and first_row[b] < n and y[first_row[b], IDX_BIN] == b)"
            " and 0 <= bin_start and bin_start < n and y[bin_start, IDX_BIN] == result"),
        tag("C14", "all-written", "forall(k, 0, n, rowwritten(y, k))"),
    ],
    must_fail=["result == 1"],
)


# ------------------------------------------------------------------ concrete generators
import numpy as np  # noqa: E402
from pyvc.spec import CONTRACTS  # noqa: E402


REQUESTED: dict = {}


def rand_instance(rng, max_items=7):
    from moptipyapps.binpacking2d.instance import Instance
    mode = rng.random()
    if mode < 0.15:       # sizes at the edge of int8 / int16
        edge = rng.choice([127, 32767])
        W = rng.randint(1, max(1, edge // 2 - 1))
        H = rng.randint(1, max(1, edge // 2 - 1))
    elif mode < 0.22:     # bin side + item side crosses 127 / 32767 only for the *rotated* item (flat, wide items)
        edge = 127 if rng.random() < 0.9 else 32767     # (the constructor's bound computation is slow for large, thin items)
        W = rng.randint(edge // 2 + 1, (edge * 7) // 8)
        H = rng.randint(edge // 2 + 1, (edge * 7) // 8)
        items, total = [], 0
        for _ in range(rng.randint(1, 3)):
            w = rng.randint(min(W, H) // 2 + 1, min(W, H))
            h = rng.randint(max(1, (edge - max(W, H) - 2) // 3), max(1, edge - max(W, H) - 2))
            rep = rng.randint(1, 2)
            total += rep
            items.append([w, h, rep] if rng.random() < 0.7 else [h, w, rep])
            if total >= max_items:
                break
        inst = Instance("t", W, H, items)
        REQUESTED[id(inst)] = (W, H, [list(i) for i in items])
        return inst
    else:
        W, H = rng.randint(1, 12), rng.randint(1, 12)
    mx, mn = max(W, H), min(W, H)
    items = []
    nd = rng.randint(1, 4)
    total = 0
    for _ in range(nd):
        while True:
            w, h = rng.randint(1, mx), rng.randint(1, mx)
            if rng.random() < 0.3:
                w = rng.choice([1, mn, mx, W, H])
            if rng.random() < 0.3:
                h = rng.choice([1, mn, mx, W, H])
            if not (w > mn and h > mn):
                break
        rep = rng.randint(1, 3)
        if total + rep > max_items:
            rep = max(1, max_items - total)
        total += rep
        items.append([w, h, rep])
        if total >= max_items:
            break
    inst = Instance("t", W, H, items)
    REQUESTED[id(inst)] = (W, H, [list(i) for i in items])      # what the constructor was given (not what the object reports)
    return inst


def rand_signed_perm(rng, inst):
    seq = []
    for k in range(inst.n_different_items):
        seq += [k + 1] * int(inst[k, 2])
    rng.shuffle(seq)
    return np.array([v if rng.random() < 0.5 else -v for v in seq], dtype=inst.dtype)


def garbage(rng, shape, dtype):
    info = np.iinfo(dtype)
    a = np.empty(shape, dtype)
    flat = a.reshape(-1)
    for k in range(flat.shape[0]):
        flat[k] = rng.choice([info.min, info.max, -1, 0, 1, 7, rng.randint(max(info.min, -1000), min(info.max, 1000))])
    return a


def _gen_decode1(rng):
    inst = rand_instance(rng)
    x = rand_signed_perm(rng, inst)
    n = len(x)
    return {"x": x, "y": garbage(rng, (n, 6), inst.dtype), "instance": np.array(inst), "bin_width": int(inst.bin_width),
            "bin_height": int(inst.bin_height), "n": n, "nd": int(inst.n_different_items),
            "first_row": np.zeros(n + 2, np.int64)}


def _call_decode1(inp):
    from moptipyapps.binpacking2d.encodings.ibl_encoding_1 import _decode
    return int(_decode(inp["x"], inp["y"], inp["instance"], inp["bin_width"], inp["bin_height"]))


def _gen_move1(rng):
    """a decoded prefix plus the next item at its start position (optionally after a few real moves)"""
    import moptipyapps.binpacking2d.encodings.ibl_encoding_1 as m
    d = _gen_decode1(rng)
    n = d["n"]
    y = d["y"]
    m._decode(d["x"], y, d["instance"], d["bin_width"], d["bin_height"])
    i1 = rng.randrange(n)
    b = int(y[i1, 1])
    bin_start = min(k for k in range(n) if y[k, 1] == b)
    w, h = int(y[i1, 4] - y[i1, 2]), int(y[i1, 5] - y[i1, 3])
    W, H = d["bin_width"], d["bin_height"]
    y[i1, 2:6] = [W - w, H, W, H + h]
    md = getattr(m, "__move_down", None) or m.__dict__["__move_down"]
    ml = m.__dict__["__move_left"]
    for _ in range(rng.randint(0, 3)):
        (md if rng.random() < 0.6 else ml)(y, bin_start, i1)
    # rows after i1 are garbage from the decoder's point of view
    for k in range(i1 + 1, n):
        y[k, :] = garbage(rng, (6,), y.dtype)
    return {"packing": y, "bin_start": bin_start, "i1": i1, "W": W, "H": H}


def _mk_call_move(name):
    def call(inp):
        import moptipyapps.binpacking2d.encodings.ibl_encoding_1 as m
        return bool(m.__dict__[name](inp["packing"], inp["bin_start"], inp["i1"]))
    return call


CONTRACTS[E1 + ":_decode"].gen = _gen_decode1
CONTRACTS[E1 + ":_decode"].call = _call_decode1
for _nm in ("__move_down", "__move_left"):
    CONTRACTS[E1 + ":" + _nm].gen = _gen_move1
    CONTRACTS[E1 + ":" + _nm].call = _mk_call_move(_nm)


# ====================================================================== encoding 2
E2 = "moptipyapps.binpacking2d.encodings.ibl_encoding_2"

# window of encoding 2: rows k in [bin_start, bin_end) whose bin id is bin_id
spec("inw(p, k, bin_id, bin_start, bin_end)", "bin_start <= k and k < bin_end and p[k, IDX_BIN] == bin_id", ret="bool")

_move_pre_2 = [
    "0 <= bin_start and bin_start <= bin_end and bin_end <= i1 and i1 < len(packing)",
    "W >= 1 and H >= 1",
    "forall(k, bin_start, bin_end, implies(packing[k, IDX_BIN] == bin_id, box(packing, k, W, H)))",
    "forall(k, bin_start, bin_end, implies(packing[k, IDX_BIN] == bin_id, novrows(packing, k, i1)))",
    "0 <= packing[i1, IDX_LEFT_X] and packing[i1, IDX_LEFT_X] < packing[i1, IDX_RIGHT_X]"
    " and packing[i1, IDX_RIGHT_X] <= W",
    "0 <= packing[i1, IDX_BOTTOM_Y] and packing[i1, IDX_BOTTOM_Y] < packing[i1, IDX_TOP_Y]",
    "D_hi <= 2**63 - 1",
    "forall(k, bin_start, bin_end, forall(c, 1, 6, written(packing, k, c)))",
    "forall(c, 2, 6, written(packing, i1, c))",
]
_params_2 = {"packing": A2("D", cols=6, uninit=True), "bin_id": INT, "bin_start": INT, "bin_end": INT, "i1": INT}

contract(
    E2 + ":__move_down",
    props="C01 C14",
    params=_params_2, ghosts={"W": INT, "H": INT}, returns=BOOL,
    requires=_move_pre_2, modifies=["packing"],
    loops={"0": Loop(inv=[
        tag("C01 C14", "md-range", "min_down <= packing_i1_bottom_y"),
        tag("C14", "md-nonneg", "0 <= min_down"),
        tag("C01 C14", "md-lower", "forall(k, bin_start, i0, implies(packing[k, IDX_BIN] == bin_id"
            " and xov(packing, k, packing_i1_left_x, packing_i1_right_x)"
            " and packing[k, IDX_BOTTOM_Y] < packing_i1_top_y, min_down <= packing_i1_bottom_y - packing[k, IDX_TOP_Y]))"),
        tag("C14", "md-tight", "min_down == packing_i1_bottom_y or exists(k, bin_start, i0, packing[k, IDX_BIN] == bin_id"
            " and xov(packing, k, packing_i1_left_x, packing_i1_right_x) and packing[k, IDX_BOTTOM_Y] < packing_i1_top_y"
            " and min_down == packing_i1_bottom_y - packing[k, IDX_TOP_Y])"),
    ])},
    ensures=[
        tag("C01 C14", "frame", "forall(k, 0, len(packing), implies(k != i1, rowsame(packing, old(packing), k)))"),
        tag("C01 C14", "frame-row", "packing[i1, 0] == old(packing[i1, 0]) and packing[i1, 1] == old(packing[i1, 1])"
            " and packing[i1, IDX_LEFT_X] == old(packing[i1, IDX_LEFT_X])"
            " and packing[i1, IDX_RIGHT_X] == old(packing[i1, IDX_RIGHT_X])"),
        tag("C01 C14", "height", "packing[i1, IDX_TOP_Y] - packing[i1, IDX_BOTTOM_Y]"
            " == old(packing[i1, IDX_TOP_Y] - packing[i1, IDX_BOTTOM_Y])"),
        tag("C01 C14", "result-iff-moved", "result == (packing[i1, IDX_BOTTOM_Y] < old(packing[i1, IDX_BOTTOM_Y]))"),
        tag("C01 C14", "not-up", "0 <= packing[i1, IDX_BOTTOM_Y] and packing[i1, IDX_BOTTOM_Y] <= old(packing[i1, IDX_BOTTOM_Y])"),
        tag("C01 C14", "no-overlap", "forall(k, bin_start, bin_end, implies(packing[k, IDX_BIN] == bin_id, novrows(packing, k, i1)))"),
        tag("C14", "R5-result-iff-possible", "result == can_down2(old(packing), bin_id, bin_start, bin_end, i1)"),
        tag("C14", "R3-no-tunnel", "forall(k, bin_start, bin_end, implies(packing[k, IDX_BIN] == bin_id"
            " and xov(packing, k, packing[i1, IDX_LEFT_X], packing[i1, IDX_RIGHT_X])"
            " and packing[k, IDX_BOTTOM_Y] < old(packing[i1, IDX_TOP_Y]), packing[k, IDX_TOP_Y] <= packing[i1, IDX_BOTTOM_Y]))"),
        tag("C14", "R3-tight", "packing[i1, IDX_BOTTOM_Y] == 0 or exists(k, bin_start, bin_end, packing[k, IDX_BIN] == bin_id"
            " and xov(packing, k, packing[i1, IDX_LEFT_X], packing[i1, IDX_RIGHT_X])"
            " and packing[k, IDX_TOP_Y] == packing[i1, IDX_BOTTOM_Y])"),
    ],
    must_fail=["packing[i1, IDX_BOTTOM_Y] == old(packing[i1, IDX_BOTTOM_Y])"],
)

contract(
    E2 + ":__move_left",
    props="C01 C14",
    params=_params_2, ghosts={"W": INT, "H": INT}, returns=BOOL,
    requires=_move_pre_2, modifies=["packing"],
    loops={"0": Loop(inv=[
        tag("C01 C14", "ml-range", "min_left <= packing_i1_left_x"),
        tag("C14", "ml-nonneg", "0 <= min_left"),
        tag("C01 C14", "ml-lower-support", "forall(k, bin_start, i0, implies(packing[k, IDX_BIN] == bin_id"
            " and ml_support(packing, k, packing_i1_left_x,"
            " packing_i1_bottom_y, packing_i1_right_x), min_left <= packing_i1_right_x - packing[k, IDX_LEFT_X]))"),
        tag("C01 C14", "ml-lower-blocker", "forall(k, bin_start, i0, implies(packing[k, IDX_BIN] == bin_id"
            " and ml_blocker(packing, k, packing_i1_left_x,"
            " packing_i1_bottom_y, packing_i1_top_y), min_left <= packing_i1_left_x - packing[k, IDX_RIGHT_X]))"),
        tag("C14", "ml-tight", "min_left == packing_i1_left_x"
            " or exists(k, bin_start, i0, packing[k, IDX_BIN] == bin_id and ml_support(packing, k, packing_i1_left_x,"
            " packing_i1_bottom_y, packing_i1_right_x) and min_left == packing_i1_right_x - packing[k, IDX_LEFT_X])"
            " or exists(k, bin_start, i0, packing[k, IDX_BIN] == bin_id and ml_blocker(packing, k, packing_i1_left_x,"
            " packing_i1_bottom_y, packing_i1_top_y) and min_left == packing_i1_left_x - packing[k, IDX_RIGHT_X])"),
    ])},
    ensures=[
        tag("C01 C14", "frame", "forall(k, 0, len(packing), implies(k != i1, rowsame(packing, old(packing), k)))"),
        tag("C01 C14", "frame-row", "packing[i1, 0] == old(packing[i1, 0]) and packing[i1, 1] == old(packing[i1, 1])"
            " and packing[i1, IDX_BOTTOM_Y] == old(packing[i1, IDX_BOTTOM_Y])"
            " and packing[i1, IDX_TOP_Y] == old(packing[i1, IDX_TOP_Y])"),
        tag("C01 C14", "width", "packing[i1, IDX_RIGHT_X] - packing[i1, IDX_LEFT_X]"
            " == old(packing[i1, IDX_RIGHT_X] - packing[i1, IDX_LEFT_X])"),
        tag("C01 C14", "result-iff-moved", "result == (packing[i1, IDX_LEFT_X] < old(packing[i1, IDX_LEFT_X]))"),
        tag("C01 C14", "not-right", "0 <= packing[i1, IDX_LEFT_X] and packing[i1, IDX_LEFT_X] <= old(packing[i1, IDX_LEFT_X])"),
        tag("C01 C14", "no-overlap", "forall(k, bin_start, bin_end, implies(packing[k, IDX_BIN] == bin_id, novrows(packing, k, i1)))"),
        tag("C14", "R5-result-iff-possible", "result == can_left2(old(packing), bin_id, bin_start, bin_end, i1)"),
        tag("C14", "R4-lower-blocker", "forall(k, bin_start, bin_end, implies(packing[k, IDX_BIN] == bin_id"
            " and ml_blocker(old(packing), k, old(packing[i1, IDX_LEFT_X]),"
            " old(packing[i1, IDX_BOTTOM_Y]), old(packing[i1, IDX_TOP_Y])), packing[k, IDX_RIGHT_X] <= packing[i1, IDX_LEFT_X]))"),
        tag("C14", "R4-lower-support", "forall(k, bin_start, bin_end, implies(packing[k, IDX_BIN] == bin_id"
            " and ml_support(old(packing), k, old(packing[i1, IDX_LEFT_X]),"
            " old(packing[i1, IDX_BOTTOM_Y]), old(packing[i1, IDX_RIGHT_X])),"
            " old(packing[i1, IDX_LEFT_X]) - packing[i1, IDX_LEFT_X] <= old(packing[i1, IDX_RIGHT_X]) - packing[k, IDX_LEFT_X]))"),
        tag("C14", "R4-tight", "packing[i1, IDX_LEFT_X] == 0"
            " or exists(k, bin_start, bin_end, packing[k, IDX_BIN] == bin_id and ml_support(old(packing), k,"
            " old(packing[i1, IDX_LEFT_X]), old(packing[i1, IDX_BOTTOM_Y]),"
            " old(packing[i1, IDX_RIGHT_X])) and packing[i1, IDX_RIGHT_X] == packing[k, IDX_LEFT_X])"
            " or exists(k, bin_start, bin_end, packing[k, IDX_BIN] == bin_id and ml_blocker(old(packing), k,"
            " old(packing[i1, IDX_LEFT_X]), old(packing[i1, IDX_BOTTOM_Y]),"
            " old(packing[i1, IDX_TOP_Y])) and packing[i1, IDX_LEFT_X] == packing[k, IDX_RIGHT_X])"),
    ],
    must_fail=["packing[i1, IDX_LEFT_X] == old(packing[i1, IDX_LEFT_X])"],
)

_outer_inv_2 = [
    tag("C01 C13 C14", "scalars", "bin_id >= 1 and implies(i == 0, bin_id == 1) and implies(i > 0, bin_id <= i)"
        " and len(bin_starts) == n and len(bin_ends) == n"),
    tag("C01 C14", "rowok", "forall(k, 0, i, rowok(y, k, x, instance, bin_width, bin_height, bin_id))"),
    tag("C01 C13 C14", "windows", "forall(b, 1, bin_id + 1, 0 <= bin_starts[b - 1] and bin_starts[b - 1] <= bin_ends[b - 1]"
        " and bin_ends[b - 1] <= i and implies(i > 0, bin_starts[b - 1] < bin_ends[b - 1]"
        " and y[bin_starts[b - 1], IDX_BIN] == b))"),
    tag("C01 C14", "inwin", "forall(k, 0, i, bin_starts[y[k, IDX_BIN] - 1] <= k and k < bin_ends[y[k, IDX_BIN] - 1])"),
    tag("C01", "nov", "forall(r, 0, i, forall(s, 0, i, implies(r != s and y[r, IDX_BIN] == y[s, IDX_BIN], novrows(y, r, s))))"),
    tag("C01 C14", "written", "forall(k, 0, i, rowwritten(y, k))"),
    tag("C01 C14", "written-windows", "forall(b, 0, bin_id, written(bin_starts, b) and written(bin_ends, b))"),
]
# bins loop (for item_bin in range(1, bin_id + 1))
_bins_inv_2 = [
    tag("C01 C13 C14", "bins-range", "1 <= item_bin and y[i, IDX_ID] == use_id + 1 and written(y, i, 0) and not_found"),
    # the first item always fits the (empty) first bin: for i == 0 the loop cannot get past its first iteration
    tag("C01 C13 C14", "first-item-fits", "implies(i == 0, item_bin == 1)"),
    tag("C01 C14", "bins-frame", "forall(k, 0, n, implies(k != i, rowsame(y, at_loop(y), k)))"),
    tag("C01 C14", "bins-frame-se", "same_array(bin_starts, at_loop(bin_starts)) and same_array(bin_ends, at_loop(bin_ends))"),
    tag("C01 C14", "bins-written", "forall(k, 0, i, rowwritten(y, k)) and forall(b, 0, bin_id, written(bin_starts, b) and written(bin_ends, b))"),
]
_while_inv_2 = [
    tag("C01 C13 C14", "geometry", "y[i, IDX_RIGHT_X] - y[i, IDX_LEFT_X] == w and y[i, IDX_TOP_Y] - y[i, IDX_BOTTOM_Y] == h"
        " and 0 <= y[i, IDX_LEFT_X] and y[i, IDX_RIGHT_X] <= bin_width and 0 <= y[i, IDX_BOTTOM_Y]"
        " and y[i, IDX_BOTTOM_Y] <= bin_height and y[i, IDX_ID] == use_id + 1"),
    tag("C01 C14", "frame", "forall(k, 0, n, implies(k != i, rowsame(y, at_loop(y), k)))"),
    tag("C01 C14", "nov-window", "forall(k, bin_start, bin_end, implies(y[k, IDX_BIN] == item_bin, novrows(y, k, i)))"),
    tag("C01 C14", "written-i", "written(y, i, 0) and written(y, i, 2) and written(y, i, 3) and written(y, i, 4) and written(y, i, 5)"),
    tag("C01 C14", "written-rows", "forall(k, 0, i, rowwritten(y, k))"),
]

contract(
    E2 + ":_decode",
    props="C01 C14",
    params={"x": A1("X"), "y": A2("D", cols=6, uninit=True), "instance": A2("I", cols=3),
            "bin_width": INT, "bin_height": INT, "bin_starts": A1("D", uninit=True), "bin_ends": A1("D", uninit=True)},
    ghosts={"n": INT, "nd": INT},
    returns=INT,
    requires=_decode_pre + ["len(bin_starts) == n and len(bin_ends) == n"],
    modifies=["y", "bin_starts", "bin_ends"],
    calls={"__move_down": {"W": "bin_width", "H": "bin_height"}, "__move_left": {"W": "bin_width", "H": "bin_height"}},
    loops={
        "0": Loop(inv=_outer_inv_2),
        "0.0": Loop(inv=_bins_inv_2, range_is=("1", "bin_id + 1")),     # R7: all open bins, starting with the first
        "0.0.0": Loop(inv=_while_inv_2, variant="y[i, IDX_BOTTOM_Y] + y[i, IDX_LEFT_X]",
                      iter=[tag("C14", "R5-down-first", "implies(can_down2(at_iter(y), item_bin, bin_start, bin_end, i),"
                                " y[i, IDX_BOTTOM_Y] < at_iter(y)[i, IDX_BOTTOM_Y] and y[i, IDX_LEFT_X] == at_iter(y)[i, IDX_LEFT_X])"),
                            tag("C14", "R5-left-only-when-no-down", "implies(not can_down2(at_iter(y), item_bin, bin_start, bin_end, i),"
                                " y[i, IDX_BOTTOM_Y] == at_iter(y)[i, IDX_BOTTOM_Y] and y[i, IDX_LEFT_X] < at_iter(y)[i, IDX_LEFT_X])")],
                      exit=[tag("C14", "R6-stable", "not can_down2(y, item_bin, bin_start, bin_end, i)"
                                " and not can_left2(y, item_bin, bin_start, bin_end, i)"),
                            tag("C14", "R6-unchanged-on-exit", "rowsame(y, at_iter(y), i)")]),
    },
    asserts={
        "after if #1": [tag("C14", "R2-orientation", "use_id == abs(x[i]) - 1 and item_id == x[i]"
                            " and orient_ok(instance, x[i], bin_width, bin_height, w, h)")],
        "after assign bin_end #0": [tag("C14", "R7-window-of-bin", "bin_start == bin_starts[item_bin - 1]"
                                        " and bin_end == bin_ends[item_bin - 1]")],
        "after assign y[i,IDX_TOP_Y] #0": [tag("C14", "R1-start", "y[i, IDX_LEFT_X] == bin_width - w and y[i, IDX_BOTTOM_Y] == bin_height"
                                               " and y[i, IDX_RIGHT_X] == bin_width and y[i, IDX_TOP_Y] == bin_height + h"
                                               " and y[i, IDX_ID] == abs(x[i])")],
        "after assign y[i,IDX_BIN] #0": [tag("C14", "R7-first-fit", "y[i, IDX_BIN] == item_bin")],
        "after assign y[i,IDX_BIN] #1": [tag("C14", "R8-new-bin", "y[i, IDX_LEFT_X] == 0 and y[i, IDX_BOTTOM_Y] == 0"
                                             " and y[i, IDX_RIGHT_X] == w and y[i, IDX_TOP_Y] == h"
                                             " and bin_id == at_iter(bin_id) + 1 and y[i, IDX_BIN] == bin_id")],
    },
    branch_iff={"if#2": tag("C14", "R7-take-bin-iff-inside", "y[i, IDX_RIGHT_X] <= bin_width and y[i, IDX_TOP_Y] <= bin_height"),
                "if#3": tag("C14", "R7-new-bin-iff-none-fits", "not_found")},
    ensures=[
        tag("C01", "bin-count", "1 <= result and result <= n"),
        tag("C01", "rows-feasible", "forall(k, 0, n, rowok(y, k, x, instance, bin_width, bin_height, result))"),
        tag("C01", "no-overlap", "forall(r, 0, n, forall(s, 0, n, implies(r != s and y[r, IDX_BIN] == y[s, IDX_BIN], novrows(y, r, s))))"),
        tag("C01", "bins-gap-free", "forall(b, 1, result + 1, 0 <= bin_starts[b - 1] and bin_starts[b - 1] < n"
            " and y[bin_starts[b - 1], IDX_BIN] == b)"),
        tag("C14", "all-written", "forall(k, 0, n, rowwritten(y, k))"),
    ],
    must_fail=["result == 1"],
)


def _gen_decode2(rng):
    d = _gen_decode1(rng)
    d.pop("first_row")
    n = d["n"]
    d["bin_starts"] = garbage(rng, (n,), d["y"].dtype)
    d["bin_ends"] = garbage(rng, (n,), d["y"].dtype)
    return d


def _call_decode2(inp):
    from moptipyapps.binpacking2d.encodings.ibl_encoding_2 import _decode
    return int(_decode(inp["x"], inp["y"], inp["instance"], inp["bin_width"], inp["bin_height"],
                       inp["bin_starts"], inp["bin_ends"]))


def _gen_move2(rng):
    import moptipyapps.binpacking2d.encodings.ibl_encoding_2 as m
    d = _gen_decode2(rng)
    n, y = d["n"], d["y"]
    nb = m._decode(d["x"], y, d["instance"], d["bin_width"], d["bin_height"], d["bin_starts"], d["bin_ends"])
    i1 = rng.randrange(n)
    # the window of some bin as it looked when item i1 was tried: rows < i1 of that bin
    bins = sorted({int(y[k, 1]) for k in range(i1)}) or [1]
    b = rng.choice(bins)
    rows = [k for k in range(i1) if y[k, 1] == b]
    bin_start, bin_end = (rows[0], rows[-1] + 1) if rows else (0, 0)
    w, h = int(y[i1, 4] - y[i1, 2]), int(y[i1, 5] - y[i1, 3])
    W, H = d["bin_width"], d["bin_height"]
    y[i1, 2:6] = [W - w, H, W, H + h]
    md, ml = m.__dict__["__move_down"], m.__dict__["__move_left"]
    for _ in range(rng.randint(0, 3)):
        (md if rng.random() < 0.6 else ml)(y, b, bin_start, bin_end, i1)
    for k in range(i1 + 1, n):
        y[k, :] = garbage(rng, (6,), y.dtype)
    return {"packing": y, "bin_id": b, "bin_start": bin_start, "bin_end": bin_end, "i1": i1, "W": W, "H": H}


def _mk_call_move2(name):
    def call(inp):
        import moptipyapps.binpacking2d.encodings.ibl_encoding_2 as m
        return bool(m.__dict__[name](inp["packing"], inp["bin_id"], inp["bin_start"], inp["bin_end"], inp["i1"]))
    return call


CONTRACTS[E2 + ":_decode"].gen = _gen_decode2
CONTRACTS[E2 + ":_decode"].call = _call_decode2
for _nm in ("__move_down", "__move_left"):
    CONTRACTS[E2 + ":" + _nm].gen = _gen_move2
    CONTRACTS[E2 + ":" + _nm].call = _mk_call_move2(_nm)


# ====================================================================== class wrappers: allocation sites and call sites (C13, C01)
from pyvc.spec import OBJ, PYINT, Summary  # noqa: E402

# what binpacking2d.Instance establishes (same clauses as _decode_pre, phrased over the encoder's field)
_ENC_FACTS = [
    "W >= 1 and H >= 1 and W <= 10**12 and H <= 10**12",
    "nd >= 1 and len(self.__instance) == nd and n >= nd",
    "forall(k, 0, nd, 1 <= self.__instance[k, IDX_WIDTH] and self.__instance[k, IDX_WIDTH] <= max(W, H)"
    " and 1 <= self.__instance[k, IDX_HEIGHT] and self.__instance[k, IDX_HEIGHT] <= max(W, H)"
    " and not (self.__instance[k, IDX_WIDTH] > min(W, H) and self.__instance[k, IDX_HEIGHT] > min(W, H)))",
    "forall(k, 0, nd, max(W, H) + self.__instance[k, IDX_WIDTH] + 1 <= ID_hi and max(W, H) + self.__instance[k, IDX_HEIGHT] + 1 <= ID_hi)",
    "n + 1 <= ID_hi and ID_lo < 0 and ID_hi <= 2**63 - 1",
]
# what the (signed) permutation space and PackingSpace.create establish about the arguments of decode
_DEC_ARGS = ["len(x) == n and len(y) == n", "forall(k, 0, n, x[k] != 0 and -nd <= x[k] and x[k] <= nd)",
             "X_hi <= 2**63 - 1 and X_lo < 0", "D_lo == ID_lo and D_hi == ID_hi"]

contract(
    E2 + ":ImprovedBottomLeftEncoding2.__init__",
    props="C13 C01",
    params={"instance": A2("ID", cols=3)},
    ghosts={"n": PYINT},
    i64=False,
    attrs={"instance.n_items": "n", "instance.dtype": "(ID_lo, ID_hi)"},
    requires=["n >= 1"],
    summaries={"if #0": Summary({}, [], "isinstance check")},
    ensures=[tag("C13 C01", "scratch-sizes", "len(self.__bin_starts) == n and len(self.__bin_ends) == n"),
             tag("C13 C01", "scratch-dtype", "dtype_lo(self.__bin_starts) == ID_lo and dtype_hi(self.__bin_starts) == ID_hi"
                 " and dtype_lo(self.__bin_ends) == ID_lo and dtype_hi(self.__bin_ends) == ID_hi"),
             tag("C13 C01", "instance-kept", "same_array(self.__instance, instance)")],
)

contract(
    E2 + ":ImprovedBottomLeftEncoding2.decode",
    props="C13 C01 C14",
    params={"x": A1("X"), "y": A2("D", cols=6, uninit=True)},
    ghosts={"n": PYINT, "nd": PYINT, "W": PYINT, "H": PYINT},
    fields={"self.__instance": A2("ID", cols=3), "self.__bin_starts": A1("ID", uninit=True), "self.__bin_ends": A1("ID", uninit=True)},
    i64=False,
    attrs={"self.__instance.bin_width": "W", "self.__instance.bin_height": "H"},
    requires=_ENC_FACTS + _DEC_ARGS + ["len(self.__bin_starts) == n and len(self.__bin_ends) == n"],
    calls={"_decode": {"n": "n", "nd": "nd"}},
    modifies=["y"],
    ensures=[tag("C01", "reported-bin-count", "1 <= y.n_bins and y.n_bins <= n and forall(k, 0, n, 1 <= y[k, IDX_BIN] and y[k, IDX_BIN] <= y.n_bins)")],
)

contract(
    E1 + ":ImprovedBottomLeftEncoding1.decode",
    props="C13 C01 C14",
    params={"x": A1("X"), "y": A2("D", cols=6, uninit=True)},
    ghosts={"n": PYINT, "nd": PYINT, "W": PYINT, "H": PYINT, "first_row": A1()},
    fields={"self.__instance": A2("ID", cols=3)},
    i64=False,
    attrs={"self.__instance.bin_width": "W", "self.__instance.bin_height": "H"},
    requires=_ENC_FACTS + _DEC_ARGS,
    calls={"_decode": {"n": "n", "nd": "nd", "first_row": "first_row"}},
    modifies=["y", "first_row"],
    ensures=[tag("C01", "reported-bin-count", "1 <= y.n_bins and y.n_bins <= n and forall(k, 0, n, 1 <= y[k, IDX_BIN] and y[k, IDX_BIN] <= y.n_bins)")],
)
