"""C18: the coordinate distance functions of moptipyapps.tsp.instance against the TSPLIB95 definitions.
The operation DAG of the real function (symbolic evaluation, `int` = truncation, sqrt/cos/acos uninterpreted
real functions) must be identical to the published formula."""
import ast

import sympy as sp

from pyvc import floatsym as F
from pyvc.extract import get_function
from pyvc.floatsym import Kernel, Res, TRUNC

TI = "moptipyapps.tsp.instance"
P18 = frozenset(["C18"])


def _nint(v):
    return TRUNC(sp.Rational(1, 2) + v)


def _rad(x):
    deg = TRUNC(x)
    return (F._exact(3.141592) * (deg + (5 * (x - deg)) / 3)) / 180


def _kernel(name, helpers):
    k = Kernel(f"{TI}:{name}", helpers=helpers)
    k.plain_math = True
    k.int_is_trunc = True
    return k


def prove_c18(tier, seed):
    res = []
    # __nint: for floats the TSPLIB nint is (int)(x + 0.5); for ints the identity
    fs = get_function(f"{TI}:__nint")
    ok = False
    for n in ast.walk(fs.node):
        if isinstance(n, ast.If) and isinstance(n.test, ast.Call) and getattr(n.test.func, "id", "") == "isinstance" \
                and getattr(n.test.args[1], "id", "") == "float" and isinstance(n.body[0], ast.Return):
            k = Kernel(f"{TI}:__nint")
            k.int_is_trunc = True
            v = sp.Symbol("v", real=True)
            got = k._ev(n.body[0].value, {"v": v}, {})
            ok = F.zero(got - _nint(v))
    res.append(Res(f"{TI}:__nint", "post", "nint(x)=(int)(x+0.5)", P18, "proved" if ok else "refuted"))
    # __coord_to_rad
    k = _kernel("__coord_to_rad", {})
    paths = k.run(scalars=("x",))
    x = sp.Symbol("x", real=True)
    ok = len(paths) == 1 and F.zero(paths[0][1][("return", 0)] - _rad(x))
    res.append(Res(f"{TI}:__coord_to_rad", "post", "GEO-radians(PI=3.141592, truncated degrees)", P18, "proved" if ok else "refuted"))
    helpers = {"__nint": _nint, "__coord_to_rad": _rad}
    a0, a1, b0, b1 = (sp.Symbol(f"{n}_{i}", real=True) for n in "ab" for i in (0, 1))
    euc = sp.sqrt((a0 - b0) ** 2 + (a1 - b1) ** 2)
    rij = sp.sqrt(((a0 - b0) * (a0 - b0) + (a1 - b1) * (a1 - b1)) / 10)
    q1 = sp.cos(_rad(a1) - _rad(b1))
    q2 = sp.cos(_rad(a0) - _rad(b0))
    q3 = sp.cos(_rad(a0) + _rad(b0))
    specs = {
        "__dist_2deuc": _nint(euc),
        "__dist_2dceil": sp.Piecewise((TRUNC(euc), sp.Eq(euc, TRUNC(euc))), (TRUNC(euc) + 1, True)),
        "__dist_att": sp.Piecewise((_nint(rij) + 1, _nint(rij) < rij), (_nint(rij), True)),
        "__dist_loglat": TRUNC(F._exact(6378.388) * sp.acos(sp.Rational(1, 2) * ((1 + q1) * q2 - (1 - q1) * q3)) + 1),
    }
    for name, want in specs.items():
        k = _kernel(name, helpers)
        try:
            paths = k.run()
            got = paths[0][1].get(("return", 0)) if len(paths) == 1 else None
            good = got is not None and (got == want or sp.simplify(got - want) == 0)
        except F.FloatOutOfSubset as ex:
            res.append(Res(f"{TI}:{name}", "post", "TSPLIB95-formula", P18, "undecided", reason=str(ex)))
            continue
        wit = None
        if not good:
            wit = {"code": str(got)[:400], "tsplib95": str(want)[:400]}
        res.append(Res(f"{TI}:{name}", "post", "TSPLIB95-formula", P18, "proved" if good else "refuted", witness=wit,
                       reason="operation sequence of the real function vs published definition (int = truncation)"))
    return res
