"""C18: the coordinate distance functions of moptipyapps.tsp.instance against the TSPLIB95 definitions.
The operation DAG of the real function (symbolic evaluation, `int` = truncation, sqrt/cos/acos uninterpreted
real functions) must be identical to the published formula."""
import ast

import sympy as sp

from pyvc import floatsym as F
from pyvc.extract import get_function
from pyvc.floatsym import Kernel, Res, TRUNC

TI = "moptipyapps.tsp.instance"
P18 = frozenset(["C18"])


def _nint(v):
    return TRUNC(sp.Rational(1, 2) + v)


def _rad(x):
    deg = TRUNC(x)
    return (F._exact(3.141592) * (deg + (5 * (x - deg)) / 3)) / 180


def _kernel(name, helpers):
    k = Kernel(f"{TI}:{name}", helpers=helpers)
    k.plain_math = True
    k.int_is_trunc = True
    return k


def prove_c18(tier, seed):
    res = []
    # __nint: for floats the TSPLIB nint is (int)(x + 0.5); for ints the identity
    fs = get_function(f"{TI}:__nint")
    ok = False
    for n in ast.walk(fs.node):
        if isinstance(n, ast.If) and isinstance(n.test, ast.Call) and getattr(n.test.func, "id", "") == "isinstance" \
                and getattr(n.test.args[1], "id", "") == "float" and isinstance(n.body[0], ast.Return):
            k = Kernel(f"{TI}:__nint")
            k.int_is_trunc = True
            v = sp.Symbol("v", real=True)
            got = k._ev(n.body[0].value, {"v": v}, {})
            ok = F.zero(got - _nint(v))
    res.append(Res(f"{TI}:__nint", "post", "nint(x)=(int)(x+0.5)", P18, "proved" if ok else "refuted"))
    # __coord_to_rad
    k = _kernel("__coord_to_rad", {})
    paths = k.run(scalars=("x",))
    x = sp.Symbol("x", real=True)
    ok = len(paths) == 1 and F.zero(paths[0][1][("return", 0)] - _rad(x))
    res.append(Res(f"{TI}:__coord_to_rad", "post", "GEO-radians(PI=3.141592, truncated degrees)", P18, "proved" if ok else "refuted"))
    helpers = {"__nint": _nint, "__coord_to_rad": _rad}
    a0, a1, b0, b1 = (sp.Symbol(f"{n}_{i}", real=True) for n in "ab" for i in (0, 1))
    euc = sp.sqrt((a0 - b0) ** 2 + (a1 - b1) ** 2)
    rij = sp.sqrt(((a0 - b0) * (a0 - b0) + (a1 - b1) * (a1 - b1)) / 10)
    q1 = sp.cos(_rad(a1) - _rad(b1))
    q2 = sp.cos(_rad(a0) - _rad(b0))
    q3 = sp.cos(_rad(a0) + _rad(b0))
    specs = {
        "__dist_2deuc": _nint(euc),
        "__dist_2dceil": sp.Piecewise((TRUNC(euc), sp.Eq(euc, TRUNC(euc))), (TRUNC(euc) + 1, True)),
        "__dist_att": sp.Piecewise((_nint(rij) + 1, _nint(rij) < rij), (_nint(rij), True)),
        "__dist_loglat": TRUNC(F._exact(6378.388) * sp.acos(sp.Rational(1, 2) * ((1 + q1) * q2 - (1 - q1) * q3)) + 1),
    }
    for name, want in specs.items():
        k = _kernel(name, helpers)
        try:
            paths = k.run()
            got = paths[0][1].get(("return", 0)) if len(paths) == 1 else None
            good = got is not None and (got == want or sp.simplify(got - want) == 0)
        except F.FloatOutOfSubset as ex:
            res.append(Res(f"{TI}:{name}", "post", "TSPLIB95-formula", P18, "undecided", reason=str(ex)))
            continue
        wit = None
        if not good:
            wit = {"code": str(got)[:400], "tsplib95": str(want)[:400]}
        res.append(Res(f"{TI}:{name}", "post", "TSPLIB95-formula", P18, "proved" if good else "refuted", witness=wit,
                       reason="operation sequence of the real function vs published definition (int = truncation)"))
    return res


# ====================================================================== explicit edge-weight formats: index walkers (block of real code per format)
from pyvc.spec import A1, A2, CONST, OBJ, PYINT, Loop, contract, lemma, spec, tag  # noqa: E402

# Off(a): number of entries of the strict upper triangle in rows < a  (TSPLIB95 UPPER_ROW layout, row-wise)
spec("uoff(a, n)", "0 if a <= 0 else uoff(a - 1, n) + n - a", ptypes=["int", "int"], qdef=True)
lemma("uoff_closed", {"a": "int", "n": "int"}, ["a >= 0"], "2 * uoff(a, n) == a * (2 * n - a - 1)", induct="a", base="0")

_read_n_ints = contract("<opaque>:__read_n_ints", params={"k": PYINT, "stream": OBJ}, returns=A1(),
                        ensures=["len(result) == k", "forall(q, 0, k, -10**12 <= result[q] and result[q] <= 10**12)"],
                        assumptions=["__read_n_ints(k, stream) returns exactly k integers (it raises otherwise): bounded harness"])
_cir = contract("<opaque>:check_int_range_t", params={"v": PYINT, "name": OBJ, "lo": PYINT, "hi": PYINT}, returns=PYINT,
                ensures=["result == v and lo <= v and v <= hi"])

contract(
    TI + ":_matrix_from_edge_weights#UPPER_ROW",
    props="C18",
    params={"n_cities": PYINT, "edge_weight_type": CONST("EXPLICIT"), "edge_weight_format": CONST("UPPER_ROW"), "stream": OBJ},
    i64=False,
    requires=["n_cities >= 2"],
    opaque={"__read_n_ints": _read_n_ints, "check_int_range": _cir},
    lemmas_at={"entry": ["uoff_closed(n_cities - 1, n_cities)"]},
    loops={"0": Loop(index="k", inv=[
        tag("C18", "cursor", "0 <= j and j + 1 <= i and i <= n_cities and implies(i == n_cities, j == n_cities - 1)"
            " and k == uoff(j, n_cities) + i - j - 1 and shape(res, 0) == n_cities and shape(res, 1) == n_cities"),
        tag("C18", "filled", "forall(a, 0, n_cities, forall(b, a + 1, n_cities, implies(a < j or (a == j and b < i),"
            " res[a, b] == ints[uoff(a, n_cities) + b - a - 1] and res[b, a] == ints[uoff(a, n_cities) + b - a - 1])))"),
        tag("C18", "diagonal", "forall(a, 0, n_cities, res[a, a] == 0)"),
    ], lemmas=["uoff_closed(j, n_cities)"])},
    ensures=[
        tag("C18", "upper-row-layout", "forall(a, 0, n_cities, forall(b, a + 1, n_cities,"
            " result[a, b] == ints[uoff(a, n_cities) + b - a - 1] and result[b, a] == result[a, b]))"),
        tag("C18", "zero-diagonal", "forall(a, 0, n_cities, result[a, a] == 0)"),
    ],
)

spec("loff(a)", "0 if a <= 0 else loff(a - 1) + a", ptypes=["int"], qdef=True)                       # entries in rows < a of the lower triangle with diagonal
lemma("loff_closed", {"a": "int"}, ["a >= 0"], "2 * loff(a) == a * (a + 1)", induct="a", base="0")
spec("udoff(a, n)", "0 if a <= 0 else udoff(a - 1, n) + n - a + 1", ptypes=["int", "int"], qdef=True)  # rows < a of the upper triangle with diagonal
lemma("udoff_closed", {"a": "int", "n": "int"}, ["a >= 0"], "2 * udoff(a, n) == a * (2 * n - a + 1)", induct="a", base="0")

contract(
    TI + ":_matrix_from_edge_weights#LOWER_DIAG_ROW",
    props="C18",
    params={"n_cities": PYINT, "edge_weight_type": CONST("EXPLICIT"), "edge_weight_format": CONST("LOWER_DIAG_ROW"), "stream": OBJ},
    i64=False,
    requires=["n_cities >= 2"],
    opaque={"__read_n_ints": _read_n_ints, "check_int_range": _cir},
    lemmas_at={"entry": ["loff_closed(n_cities)", "mul_even(n_cities)"]},
    loops={"1": Loop(index="k", inv=[
        tag("C18", "cursor", "0 <= i and i <= j and j <= n_cities and implies(j == n_cities, i == 0)"
            " and k == loff(j) + i and shape(res, 0) == n_cities and shape(res, 1) == n_cities"),
        tag("C18", "filled", "forall(a, 0, n_cities, forall(b, 0, a, implies(a < j or (a == j and b < i),"
            " res[a, b] == ints[loff(a) + b] and res[b, a] == ints[loff(a) + b])))"),
        tag("C18", "diagonal", "forall(a, 0, n_cities, res[a, a] == 0)"),
    ], lemmas=["loff_closed(j)"])},
    ensures=[
        tag("C18", "lower-diag-row-layout", "forall(a, 0, n_cities, forall(b, 0, a, result[a, b] == ints[loff(a) + b] and result[b, a] == result[a, b]))"),
        tag("C18", "zero-diagonal", "forall(a, 0, n_cities, result[a, a] == 0)"),
    ],
)

contract(
    TI + ":_matrix_from_edge_weights#UPPER_DIAG_ROW",
    props="C18",
    params={"n_cities": PYINT, "edge_weight_type": CONST("EXPLICIT"), "edge_weight_format": CONST("UPPER_DIAG_ROW"), "stream": OBJ},
    i64=False,
    requires=["n_cities >= 2"],
    opaque={"__read_n_ints": _read_n_ints, "check_int_range": _cir},
    lemmas_at={"entry": ["udoff_closed(n_cities, n_cities)", "mul_even(n_cities)"]},
    loops={"2": Loop(index="k", inv=[
        tag("C18", "cursor", "0 <= j and j <= i and i <= n_cities and implies(i == n_cities, j == n_cities)"
            " and k == udoff(j, n_cities) + i - j and shape(res, 0) == n_cities and shape(res, 1) == n_cities"),
        tag("C18", "filled", "forall(a, 0, n_cities, forall(b, a + 1, n_cities, implies(a < j or (a == j and b < i),"
            " res[a, b] == ints[udoff(a, n_cities) + b - a] and res[b, a] == ints[udoff(a, n_cities) + b - a])))"),
        tag("C18", "diagonal", "forall(a, 0, n_cities, res[a, a] == 0)"),
    ], lemmas=["udoff_closed(j, n_cities)"])},
    ensures=[
        tag("C18", "upper-diag-row-layout", "forall(a, 0, n_cities, forall(b, a + 1, n_cities,"
            " result[a, b] == ints[udoff(a, n_cities) + b - a] and result[b, a] == result[a, b]))"),
        tag("C18", "zero-diagonal", "forall(a, 0, n_cities, result[a, a] == 0)"),
    ],
)
lemma("mul_even", {"n": "int"}, ["n >= 0"], "(n * (n - 1)) % 2 == 0", induct="n", base="0")
