"""Contracts on blocks of binpacking2d.instgen.inst_decoding.InstanceDecoder.decode (C17).

decode works on Python lists of [width, height] pairs selected by float-to-int arithmetic; the whole method is outside
the generator's subset.  The arithmetic that carries the property - a cut must leave both parts positive, and in the
slack phase the area taken away must be accounted for and must never push the total below the smallest area that still
needs min_bins bins - sits in two short statement sequences that are inside the subset once the selected item is seen
as a two-cell integer array.  They are verified as Hoare triples on the real statements (nested block contracts)."""
from pyvc.spec import A1, PYINT, REAL, contract, tag

DEC = "moptipyapps.binpacking2d.instgen.inst_decoding"

# ---- phase 2 (slack cuts): from `item_size_in_dim = cur_item[cut_dimension]` to the `if cut_modulus > 0:` statement
contract(
    DEC + ":InstanceDecoder.decode#slack-cut",
    props="C17",
    block=("assign item_size_in_dim #1", "if #3"),
    params={"cur_item": A1(), "cut_dimension": PYINT, "current_area": PYINT, "min_area": PYINT, "cutter": REAL},
    modifies=["cur_item"],
    i64=False,
    requires=["len(cur_item) == 2 and cur_item[0] >= 1 and cur_item[1] >= 1",
              "cut_dimension == 0 or cut_dimension == 1",
              "current_area > min_area",            # loop condition of the enclosing while; unchanged by failed attempts
              "-1 <= cutter and cutter <= 1"],
    ensures=[
        tag("C17", "area-accounting",
            "current_area == old(current_area) - (old(cur_item)[cut_dimension] - cur_item[cut_dimension]) * cur_item[1 - cut_dimension]"),
        # strictly above the floor: the invariant `current_area > min_area` of the slack loop (its own loop condition) is kept,
        # and the floor is at least (min_bins - 1) * bin area (block #area-floor), so the items never fit into fewer bins
        tag("C17", "total-area-stays-strictly-above-the-floor", "current_area > min_area"),
        tag("C17", "item-stays-an-item", "cur_item[cut_dimension] >= 1 and cur_item[1 - cut_dimension] == old(cur_item)[1 - cut_dimension]"
            " and cur_item[cut_dimension] <= old(cur_item)[cut_dimension]"),
    ],
)

# ---- the area floor of the slack phase: `bin_area = ...; current_area = ...; min_area = ...`
contract(
    DEC + ":InstanceDecoder.decode#area-floor",
    props="C17",
    block=("assign bin_area #0", "assign min_area #0"),
    params={"bin_width": PYINT, "bin_height": PYINT, "n_bins": PYINT},
    ghosts={"TA": PYINT},
    attrs={"self.space.total_item_area": "TA", "self.space.bin_width": "bin_width", "self.space.bin_height": "bin_height",
           "self.space.min_bins": "n_bins"},
    i64=False,
    requires=["bin_width >= 1 and bin_height >= 1 and n_bins >= 1 and TA >= 1"],
    ensures=[
        # after phase 1 the items are a guillotine partition of n_bins full bins
        tag("C17", "phase-1-covers-the-bins-exactly", "current_area == n_bins * (bin_width * bin_height)"),
        # an item set whose total area exceeds min_area cannot fit into n_bins - 1 bins
        tag("C17", "floor-still-needs-min-bins", "min_area >= (n_bins - 1) * (bin_width * bin_height)"),
        tag("C17", "floor-leaves-room-for-slack", "min_area <= current_area"),
    ],
)

# ---- phase 1 (splitting cuts): from `item_size_in_dim = cur_item[cut_dimension]` to the `if cut_modulus > 0:` statement
from pyvc.spec import Summary  # noqa: E402

contract(
    DEC + ":InstanceDecoder.decode#split-cut",
    props="C17",
    block=("assign item_size_in_dim #0", "if #0"),
    params={"cur_item": A1(), "cut_dimension": PYINT, "cutter": REAL},
    ghosts={"first_part": PYINT, "n_new": PYINT},
    modifies=["cur_item"],
    i64=False,
    requires=["len(cur_item) == 2 and cur_item[0] >= 1 and cur_item[1] >= 1",
              "cut_dimension == 0 or cut_dimension == 1", "-1 <= cutter and cutter <= 1", "first_part == 0 and n_new == 0"],
    # after `cur_item[cut_dimension] = cut_position` the list element holds the first part; the name is then re-bound to a copy
    ghost_code={"after assign cur_item[cut_dimension] #0": ["first_part = cur_item[cut_dimension]"]},
    summaries={"call items.append #0": Summary({"n_new": PYINT}, ["n_new == prev(n_new) + 1"], "items.append(cur_item): one more item")},
    ensures=[
        tag("C17", "a-cut-splits-one-item-into-two-positive-parts-of-the-same-total",
            "(n_new == 0 and first_part == 0 and cur_item[0] == old(cur_item)[0] and cur_item[1] == old(cur_item)[1]) or "
            "(n_new == 1 and first_part >= 1 and cur_item[cut_dimension] >= 1 and "
            "first_part + cur_item[cut_dimension] == old(cur_item)[cut_dimension] and "
            "cur_item[1 - cut_dimension] == old(cur_item)[1 - cut_dimension])"),
    ],
)
