"""Bounded stand-in for C05 (replay vehicle for the instance clauses): tsp.Instance built through its constructor from
generated matrices (symmetric, asymmetric, asymmetric by a single unit at values up to 10^12, narrow and wide value
ranges): stored matrix == given, symmetry flag true exactly for symmetric input, bounds = sums of row minima / maxima,
tour_length == cyclic edge sum and within the bounds for all permutations (n <= 6)."""
import itertools
import random

import numpy as np


def harness(tier, seed):
    from moptipyapps.tsp.instance import Instance
    from moptipyapps.tsp.tour_length import TourLength, tour_length
    rng = random.Random(seed + 5)
    viol, samples = [], []
    evals, distinct = 0, set()
    reps = 60 if tier == "quick" else 800
    big = [127, 128, 129, 256, 257] if tier == "quick" else [127, 128, 129, 130, 255, 256, 257, 300]
    for rep in range(reps + len(big)):
        # the last few instances have a number of cities at the boundaries of the integer storage types; they get sampled
        # tours instead of all n! ones
        n = rng.randint(2, 6) if rep < reps else big[rep - reps]
        mx = rng.choice([1, 7, 300, 250001, 10 ** 9, 10 ** 12] if n <= 6 else [1, 7, 300, 10 ** 9])
        mode = rng.choice(["sym", "asym", "nearly"])
        m = np.zeros((n, n), np.int64)
        for i in range(n):
            for j in range(n):
                if i != j and (mode == "asym" or j < i):
                    m[i, j] = rng.randint(max(1, mx // 2), mx)
                    if mode != "asym":
                        m[j, i] = m[i, j]
        if rep % 4 == 3 and n >= 3:
            # different cities at distance zero (as in br17, rbg*): a tour may be shorter than its number of cities
            for _z in range(n):
                a = rng.randrange(n)
                b = (a + 1 + rng.randrange(n - 1)) % n
                m[a, b] = 0
                if mode != "asym":
                    m[b, a] = 0
            for i in range(n):          # every row keeps a positive entry
                if m[i].max() == 0:
                    j = (i + 1) % n
                    m[i, j] = 1
                    if mode != "asym":
                        m[j, i] = 1
            if mx > 1 and rng.random() < 0.5:
                m = np.minimum(m, 1)     # only zeros and ones
        if mode == "nearly":      # asymmetric in one pair by one unit (relative difference far below 1e-5 for large values)
            a = rng.randrange(n)
            b = (a + 1 + rng.randrange(n - 1)) % n
            m[a, b] += 1
        info = {"matrix": m.tolist() if n <= 6 else f"{n} x {n}, rng seed {seed}, instance {rep}", "kind": mode}
        try:
            inst = Instance("g", 0, m)
        except Exception as ex:
            viol.append(("constructor-raises", info, repr(ex)))
            continue
        evals += 1
        distinct.add((mode, m.tobytes()))
        sym = bool((m == m.T).all())
        if not np.array_equal(np.array(inst), m):
            viol.append(("stored-differs", info, str(np.array(inst).tolist())))
        # "the stored matrix equals the given one": also after the caller goes on using its own array
        keep = m.copy()
        m[0, 1] += 1
        m[1, 0] += 1
        if not np.array_equal(np.array(inst), keep):
            viol.append(("stored-shares-memory-with-the-given-matrix", info,
                         "writing into the caller's array afterwards changed the instance"))
        m = keep
        if bool(inst.is_symmetric) != sym:
            viol.append(("symmetry-flag", info, f"is_symmetric={inst.is_symmetric}, matrix symmetric={sym}"))
        ub = sum(max(int(m[i, j]) for j in range(n) if j != i) for i in range(n))
        lb = sum(min(int(m[i, j]) for j in range(n) if j != i) for i in range(n))
        # (the property asks that every tour lies within the instance's bounds - checked for all n! tours below -, not that
        # the bounds are the sums of row minima / maxima; comparing them with lb / ub here would flag valid weaker bounds)
        obj = TourLength(inst)
        def tours():
            if n <= 6:
                yield from itertools.permutations(range(n))
            else:
                for _k in range(12):
                    q = list(range(n))
                    rng.shuffle(q)
                    yield tuple(q)
        for p in tours():
            x = np.array(p)
            want = sum(int(m[p[k - 1], p[k]]) for k in range(n))
            got = int(obj.evaluate(x))
            evals += 1
            if got != want or got != int(tour_length(inst, x)):
                viol.append(("tour-length", {**info, "x": list(p)}, f"evaluate={got}, cyclic edge sum={want}"))
                break
            if not (inst.tour_length_lower_bound <= got <= inst.tour_length_upper_bound):
                viol.append(("tour-outside-bounds", {**info, "x": list(p)}, f"{got}"))
                break
            if not (obj.lower_bound() <= got <= obj.upper_bound()):
                viol.append(("tour-outside-declared-objective-bounds", {**info, "x": list(p)},
                             f"{got} not in [{obj.lower_bound()}, {obj.upper_bound()}]"))
                break
        if len(samples) < 2:
            samples.append({"kind": mode, "n": n, "dtype": str(inst.dtype), "bounds": [lb, ub]})
    seen = set()
    viol = [v for v in viol if not (v[0] in seen or seen.add(v[0]))]
    return {"name": "tsp_instance", "evaluations": evals, "distinct_nontrivial": len(distinct),
            "rule": "generated matrices n <= 6 (symmetric / asymmetric / asymmetric by one unit, values up to 10^12) through the "
                    "Instance constructor; all n! tours; plus matrices with 127..257 cities (storage-type boundaries) with 12 sampled "
                    "tours each; distinct = distinct matrices",
            "samples": samples, "violations": viol, "exhaustive": False}
