"""Bounded stand-in for C17: InstanceDecoder.decode on templates x vectors (extreme values -1, 0, 1, their float
neighbours, random) x slack: valid instance with the template's suffixed name, bin size and item count, total item
area still requiring min_bins bins (area > (min_bins - 1) * bin area, hence lower bound == min_bins), repeatable;
instgen.Errors in [0, 1] and 0 for the template itself; Hardness and ErrorsAndHardness in [0, 1] and Hardness identical
for repeated evaluations (a few decoded instances, tiny budgets)."""
from bounded.util import RealCodeTimeout, time_limit
import random

import numpy as np


def harness(tier, seed):
    from moptipyapps.binpacking2d.instance import Instance
    from moptipyapps.binpacking2d.instgen.errors import Errors
    from moptipyapps.binpacking2d.instgen.errors_and_hardness import ErrorsAndHardness
    from moptipyapps.binpacking2d.instgen.hardness import Hardness
    from moptipyapps.binpacking2d.instgen.inst_decoding import InstanceDecoder
    from moptipyapps.binpacking2d.instgen.instance_space import InstanceSpace
    rng = random.Random(seed + 17)
    viol, samples = [], []
    evals, distinct = 0, set()
    templates = [Instance.from_resource(n) for n in ("a01", "a04", "a10", "beng01", "cl01_020_01")]
    small = [Instance("s1", 10, 8, [[3, 2, 4], [5, 4, 2], [2, 2, 3]]), Instance("s2", 6, 6, [[3, 3, 5], [2, 6, 1]]),
             Instance("s3", 5, 9, [[1, 1, 12], [5, 3, 2]]), Instance("s4", 7, 3, [[7, 3, 2], [1, 1, 1]]),
             Instance("plan", 9, 6, [[3, 2, 3], [4, 3, 2], [9, 1, 1]]),      # (a template name that already ends in "n")
             # portrait bins whose items are all taller than the bin is wide
             Instance("s6", 6, 40, [[6, 20, 1], [3, 20, 2], [6, 10, 2], [6, 8, 1]]),
             Instance("s7", 3, 50, [[3, 25, 1], [1, 25, 3], [2, 10, 2], [3, 7, 4]])]
    # templates whose lower bound exceeds the area bound (the decoder must keep the *lower bound*, not only the area)
    tight = [Instance.from_resource(n) for n in ("a02", "cl05_020_01")]
    tight = [t for t in tight if t.lower_bound_bins * t.bin_width * t.bin_height - t.total_item_area
             >= t.bin_width * t.bin_height] or tight
    pool = small + tight + (templates if tier == "thorough" else templates[:2])
    reps = 12 if tier == "quick" else 150
    eps = np.nextafter(0.0, 1.0)
    specials = [-1.0, 1.0, 0.0, eps, -eps, np.nextafter(1.0, 0.0), np.nextafter(-1.0, 0.0), 0.5, -0.5]
    class _Stop(Exception):
        pass
    hung = 0
    hard_left = 3 if tier == "quick" else 24
    try:
        for src in pool:
            space = InstanceSpace(src)
            dec = InstanceDecoder(space)
            if space.n_items - space.min_bins < 1:
                continue
            err = Errors(space)
            e0 = float(err.evaluate(src))
            evals += 1
            if e0 != 0.0:
                viol.append(("errors/template-not-zero", {"template": src.name}, f"Errors(template)={e0}"))
            for slack in (0, 1, 5):
                dim = dec.get_x_dim(slack)
                for r in range(reps):
                    mode = r % 4
                    if mode == 0 and slack > 0 and r % 8 == 0:
                        # base variables 0, slack pairs with maximal cuts
                        x = np.zeros(dim)
                        nb_ = 2 * (space.n_items - space.min_bins)
                        x[nb_:] = [1.0, 0.25, -0.75, np.nextafter(1.0, 0.0)][: dim - nb_] + [0.5] * max(0, dim - nb_ - 4)
                    elif mode == 0:
                        x = np.full(dim, specials[(r // 4) % len(specials)])
                    elif mode == 1:
                        x = np.array([rng.choice(specials) for _ in range(dim)])
                    else:
                        x = np.array([rng.uniform(-1, 1) for _ in range(dim)])
                    info = {"template": src.name, "slack": slack, "x": x.tolist()[:60], "dim": dim}
                    y = []
                    try:
                        with time_limit(60.0):       # pure Python, milliseconds for these templates on the unchanged tree
                            dec.decode(x, y)
                            y2 = []
                            dec.decode(x.copy(), y2)
                    except RealCodeTimeout:
                        # "the decoder produces a valid instance": not returning at all is a violation of that clause
                        viol.append(("decode/does-not-return", info, "decode did not return within 60 s (unchanged tree: milliseconds)"))
                        hung += 1
                        if hung >= 2:       # every further vector of this kind would cost another minute
                            raise _Stop() from None
                        continue
                    except Exception as ex:
                        viol.append(("decode/raises", info, repr(ex)))
                        continue
                    evals += 1
                    distinct.add((src.name, slack, x.tobytes()))
                    g = y[0]
                    bin_area = space.bin_width * space.bin_height
                    if g.name != src.name.strip() + "n" or g.bin_width != space.bin_width or g.bin_height != space.bin_height:
                        viol.append(("decode/name-or-bin", info, f"{g.name} {g.bin_width}x{g.bin_height}"))
                    if g.n_items != space.n_items:
                        viol.append(("decode/item-count", info, f"n_items={g.n_items}, template {space.n_items}"))
                    mb = int(src.lower_bound_bins)      # the template's own bin need (not what the space object says it is)
                    if g.total_item_area <= (mb - 1) * bin_area or g.total_item_area > mb * bin_area:
                        viol.append(("decode/area-no-longer-needs-min-bins", info,
                                     f"total item area {g.total_item_area}, template needs {mb} bins, bin area {bin_area}"))
                    elif g.lower_bound_bins != mb:
                        viol.append(("decode/lower-bound-differs-from-min-bins", info,
                                     f"lower_bound_bins={g.lower_bound_bins}, the template needs {mb} bins"))
                    if not (np.array_equal(np.array(g), np.array(y2[0])) and g.n_items == y2[0].n_items):
                        viol.append(("decode/not-repeatable", info, "second decoding differs"))
                    try:
                        e = float(err.evaluate(g))
                    except Exception as ex:     # noqa: BLE001  (the real code refuses the instance its own decoder produced)
                        viol.append(("errors/raises-on-decoded-instance", info, repr(ex)))
                        continue
                    if not (0.0 <= e <= 1.0):
                        viol.append(("errors/range", info, f"Errors={e}"))
                    if hard_left > 0 and mode >= 2 and slack == 1:
                        # the hardness objectives run inner optimisers: a few decoded instances only, tiny budgets
                        hard_left -= 1
                        try:
                            with time_limit(120.0):
                                hd = Hardness(max_fes=40, n_runs=2)
                                h1, h2 = float(hd.evaluate(g)), float(hd.evaluate(y))
                                h3 = float(Hardness(max_fes=40, n_runs=2).evaluate(y2[0]))
                                # another instance of the same template (same name!) through the object that has just
                                # evaluated g, against a fresh object
                                x_o = np.array([rng.uniform(-1, 1) for _ in range(dim)])
                                y_o = []
                                dec.decode(x_o, y_o)
                                ho_shared = float(hd.evaluate(y_o[0]))
                                ho_fresh = float(Hardness(max_fes=40, n_runs=2).evaluate(y_o[0]))
                                h1_again = float(hd.evaluate(g))
                                eh = float(ErrorsAndHardness(space, max_fes=40, n_runs=2).evaluate(g))
                            evals += 7
                            if not (0.0 <= h1 <= 1.0 and 0.0 <= eh <= 1.0):
                                viol.append(("hardness/range", info, f"Hardness={h1}, ErrorsAndHardness={eh}"))
                            if not (h1 == h2 == h3 == h1_again):
                                viol.append(("hardness/not-repeatable", info,
                                             f"four evaluations of the same instance: {h1}, {h2}, {h3}, {h1_again}"))
                            if ho_shared != ho_fresh:
                                viol.append(("hardness/depends-on-earlier-evaluations", {**info, "x_other": x_o.tolist()[:60]},
                                             f"another instance of the template: {ho_shared} after evaluating the first one, "
                                             f"{ho_fresh} by a fresh objective"))
                        except RealCodeTimeout:
                            viol.append(("hardness/does-not-return", info, "no result within 120 s (unchanged tree: below a second)"))
                            hard_left = 0
                        except Exception as ex:     # noqa: BLE001
                            viol.append(("hardness/raises-on-decoded-instance", info, repr(ex)))
                    if len(samples) < 2 and slack > 0:
                        samples.append({"template": src.name, "slack": slack, "n_items": int(g.n_items), "area": int(g.total_item_area),
                                        "lower_bound": int(g.lower_bound_bins), "errors": e})
    except _Stop:
        pass
    seen = set()
    viol = [v for v in viol if not (v[0] in seen or seen.add(v[0]))]
    return {"name": "instgen", "evaluations": evals, "distinct_nontrivial": len(distinct),
            "rule": "templates (4 hand-made small + bundled a01, a04[, a10, beng01, cl01_020_01]) x slack in {0,1,5} x vectors "
                    "(constant special values -1,0,1,+-eps,+-1-+eps,+-0.5; mixed specials; uniform random); decode twice; "
                    "Hardness / ErrorsAndHardness (max_fes 40, 2 runs) on a few decoded instances: range and three evaluations equal; "
                    "distinct = distinct (template, slack, vector)",
            "samples": samples, "violations": viol, "exhaustive": False}
