"""Bounded stand-ins: run-time contract monitors on the real functions over stated finite scopes.
Never counted as proved."""
