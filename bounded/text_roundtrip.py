"""Bounded stand-in for C19 (exploration only): text forms round-trip.

from_X(to_X(o)) == o (data, storage type, bounds, derived attributes) for generated objects: bin-packing instances
(boundary sizes, multi-digit, repetitions) via the compact string and the instance-space text; packings, game plans and
orderings via their log text; heterogeneous PackingResult and PackingStatistics tables (different algorithms, optimised
objectives, encodings, optional budget / goal columns) via CSV files in a scratch directory."""
import os
import random
import shutil
import tempfile

import numpy as np


def _same_instance(a, b):
    return (a.name == b.name and a.bin_width == b.bin_width and a.bin_height == b.bin_height and a.n_items == b.n_items
            and a.n_different_items == b.n_different_items and a.total_item_area == b.total_item_area
            and a.lower_bound_bins == b.lower_bound_bins and a.dtype == b.dtype and np.array_equal(np.array(a), np.array(b)))


def harness(tier, seed):
    import contextlib
    import io
    with contextlib.redirect_stdout(io.StringIO()):      # moptipy's CSV helpers log to stdout
        return _harness(tier, seed)


def _harness(tier, seed):
    from contracts.binpacking import rand_instance, rand_signed_perm
    from moptipy.evaluation.end_results import EndResult
    from moptipyapps.binpacking2d import packing_result as pr_
    from moptipyapps.binpacking2d import packing_statistics as ps_
    from moptipyapps.binpacking2d.encodings.ibl_encoding_1 import ImprovedBottomLeftEncoding1
    from moptipyapps.binpacking2d.encodings.ibl_encoding_2 import ImprovedBottomLeftEncoding2
    from moptipyapps.binpacking2d.instance import Instance
    from moptipyapps.binpacking2d.instgen.instance_space import InstanceSpace
    from moptipyapps.binpacking2d.packing_space import PackingSpace
    from moptipyapps.order1d.instance import Instance as OInstance
    from moptipyapps.order1d.space import OrderingSpace
    from moptipyapps.ttp.game_plan_space import GamePlanSpace
    from moptipyapps.ttp.instance import Instance as TInstance
    rng = random.Random(seed + 19)
    viol, samples = [], []
    evals, distinct = 0, set()
    reps = 60 if tier == "quick" else 800
    scratch = tempfile.mkdtemp(prefix="verif_c19_")
    try:
        for it in range(reps):
            # ---- instances
            if it % 15 == 5:
                # a bin side near the admissible maximum 10^12 (the other side and the items stay small: the constructor
                # cuts every item into squares and scans q up to half the smaller side)
                W, H = 10 ** 12 - rng.randint(0, 999), rng.choice([999, 1000, 1001])
                try:
                    inst = Instance(f"Wide{it}", W, H, [[rng.randint(H // 2, H), rng.randint(H // 2, H), rng.choice([1, 2, 11])]
                                                       for _ in range(rng.randint(1, 3))])
                except ValueError:
                    inst = rand_instance(rng)
            elif it % 5 == 0:
                W, H = rng.choice([1, 9, 10, 99, 100, 32767, 10 ** 6]), rng.choice([1, 10, 127, 128, 1000])
                items = []
                for _ in range(rng.randint(1, 4)):
                    w, h = rng.randint(1, max(W, H)), rng.randint(1, min(W, H))
                    if w > W:
                        w, h = h, w if w <= H else min(W, H)
                    if not (w > min(W, H) and h > min(W, H)) and w <= max(W, H) and h <= max(W, H):
                        items.append([w, h, rng.choice([1, 2, 10, 11, 100])])
                if not items:
                    items = [[1, 1, 1]]
                try:
                    inst = Instance(f"Inst_{it}b" if it % 10 else f"gen{it}", W, H, items)   # names are case-sensitive
                except (ValueError, MemoryError):
                    inst = rand_instance(rng)
            else:
                inst = rand_instance(rng)
            try:
                s = inst.to_compact_str()
                back = Instance.from_compact_str(s)
                evals += 1
                distinct.add(("inst", s))
                if not _same_instance(inst, back) or back.to_compact_str() != s:
                    viol.append(("instance/compact-string", {"text": s}, "instance parsed from its compact string differs"))
                try:
                    sp = InstanceSpace(inst)     # only templates whose items fit un-rotated are admissible here
                except ValueError:
                    sp = None
                if sp is not None:
                    t2 = sp.to_str([inst])
                    b2 = sp.from_str(t2)
                    evals += 1
                    if not (np.array_equal(np.array(b2[0]), np.array(inst)) and b2[0].bin_width == inst.bin_width
                            and b2[0].n_items == inst.n_items):
                        viol.append(("instance/instance-space-text", {"text": t2}, "differs"))
            except Exception as ex:
                viol.append(("instance/raises", {"W": int(inst.bin_width), "H": int(inst.bin_height),
                                                 "items": np.array(inst).tolist()}, repr(ex)))
            # ---- packings
            space = PackingSpace(inst)
            y = space.create()
            (ImprovedBottomLeftEncoding1 if it % 2 else ImprovedBottomLeftEncoding2)(inst).decode(rand_signed_perm(rng, inst), y)
            try:
                t = space.to_str(y)
                z = space.from_str(t)
                evals += 1
                distinct.add(("pack", t))
                if not (np.array_equal(z, y) and z.dtype == y.dtype and z.n_bins == y.n_bins and space.to_str(z) == t):
                    viol.append(("packing/log-text", {"text": t}, "packing parsed from its text differs"))
            except Exception as ex:
                viol.append(("packing/raises", {"rows": np.array(y).tolist()}, repr(ex)))
            # the same packing with its rows in another order (bins then first appear in any order): still a feasible packing
            if it % 3 == 0 and y.shape[0] > 1:
                yp = space.create()
                order_ = list(range(y.shape[0]))
                rng.shuffle(order_)
                if it % 6 == 0:
                    order_ = order_[::-1] if order_ != sorted(order_) else list(reversed(order_))
                yp[:, :] = y[order_, :]
                yp.n_bins = y.n_bins
                try:
                    space.validate(yp)
                    tp = space.to_str(yp)
                    zp = space.from_str(tp)
                    evals += 1
                    if not (np.array_equal(zp, yp) and zp.n_bins == yp.n_bins):
                        viol.append(("packing/log-text", {"text": tp}, "row-permuted packing parsed from its text differs"))
                except Exception as ex:
                    viol.append(("packing/raises", {"rows": np.array(yp).tolist()}, repr(ex)))
        # ---- game plans
        def _gen_ttp(n):
            m = np.array([[0 if a == b else 1 + abs(a - b) for b in range(n)] for a in range(n)], dtype=np.int64)
            return TInstance(f"gen{n}", m, [f"T{k + 1}" for k in range(n)], 2, 1, 3, 1, 3, 1, n)
        for name in ("circ4", "gal4", "con6", "circ8", "nl10", 126, 128, 130):
            # the generated ones sit at the boundary of the plan's storage type (team ids -n..n: int8 up to 127 teams)
            ti = TInstance.from_resource(name) if isinstance(name, str) else _gen_ttp(name)
            gs = GamePlanSpace(ti)
            for _ in range((10 if tier == "quick" else 100) if isinstance(name, str) else 2):
                p = gs.create()
                n = ti.n_cities
                for d in range(p.shape[0]):
                    for t_ in range(n):
                        p[d, t_] = rng.randint(-n, n)
                try:
                    txt = gs.to_str(p)
                    q = gs.from_str(txt)
                    evals += 1
                    distinct.add(("plan", txt[:200]))
                    if not (np.array_equal(p, q) and q.dtype == p.dtype and q.instance is ti):
                        viol.append(("game-plan/log-text", {"instance": name, "plan": np.array(p).tolist()}, "differs"))
                except Exception as ex:
                    viol.append(("game-plan/raises", {"instance": name, "plan": np.array(p).tolist()}, repr(ex)))
        # ---- orderings
        osizes = [rng.randint(3, 12) for _ in range(10 if tier == "quick" else 100)] + [127, 128, 129, 255, 256, 257]
        for k in osizes:
            data = rng.sample(range(-50 * k, 50 * k), k)
            oi = OInstance.from_sequence_and_distance(data, lambda a, b: abs(a - b), 2, 10, ("tag", "other"),
                                                      lambda o: (f"t{o}", f"u{o * o}"))
            os_ = OrderingSpace(oi)
            x = os_.create()
            perm = list(range(oi.n))
            rng.shuffle(perm)
            x[:] = perm
            try:
                txt = os_.to_str(x)
                x2 = os_.from_str(txt)
                evals += 1
                distinct.add(("order", txt[:200]))
                if not (np.array_equal(x, x2) and x2.dtype == x.dtype):
                    viol.append(("ordering/log-text", {"x": perm, "text": txt}, "differs"))
            except Exception as ex:
                viol.append(("ordering/raises", {"x": perm}, repr(ex)))
        # ---- result tables and statistics
        for tab in range(9 if tier == "quick" else 63):
            records = []
            insts = [Instance.from_resource(nm) for nm in rng.sample(["a01", "a04", "a10", "beng01", "beng05"], 2)]
            if tab % 2 == 0:
                # a generated instance whose bin area is odd and above 2^53 (bin sides up to 10^12 are admissible): its
                # area-based objective values and bounds are integers no double represents.  (Square items and a low bin:
                # the instance constructor cuts items into squares and scans q up to half the smaller bin side.)
                bw, bh = 999_999_999_001 + 2 * rng.randint(0, 400), 10_007
                insts.append(Instance(f"Huge{tab}", bw, bh, [[10_000, 10_000, 2], [5_000, 5_000, 2], [4, 4, 1]]))
            twins = []
            if tab % 3 == 1:
                # two different instances that carry the same name (every instance the generator derives from one template
                # is named <template>n): the records of a table are told apart by more than the instance name
                twins = [Instance("tw01n", 20, 10, [[10, 5, 3], [4, 4, 2]]), Instance("tw01n", 30, 12, [[7, 3, 5], [12, 6, 1], [2, 2, 4]])]
                insts = insts + twins
            algos = rng.sample(["rls", "ea_1p1", "Rs2", "hc2"], rng.randint(1, 3))
            # the table shapes are enumerated, not drawn: every run sees each combination of the optional columns
            goal_mode = ("none", "all", "mixed")[tab % 3]
            budget_mode = ("all", "none", "mixed")[(tab // 3) % 3]
            with_budget = budget_mode != "none"
            if "mixed" in (goal_mode, budget_mode) and len(algos) < 2:
                algos = rng.sample(["rls", "ea_1p1", "Rs2", "hc2"], rng.randint(2, 3))
            for ai, algo in enumerate(algos):
                objn = rng.choice(["binCount", "binCountAndLastEmpty", "binCountAndSmall"])
                enc = rng.choice(["ibf1", "ibf2"])
                for inst in insts:
                    for sd in range(rng.randint(1, 3)):
                        sp = PackingSpace(inst)
                        y = sp.create()
                        (ImprovedBottomLeftEncoding1 if enc == "ibf1" else ImprovedBottomLeftEncoding2)(inst).decode(
                            rand_signed_perm(rng, inst), y)
                        goal = None
                        if goal_mode == "all" or (goal_mode == "mixed" and ai == 0):
                            goal = 1
                        fes = rng.randint(10, 10 ** 6)
                        objv = [o for o in (mk(inst) for mk in pr_.DEFAULT_OBJECTIVES) if str(o) == objn][0]
                        er = EndResult(algo, inst.name, objn, enc, rng.randint(0, 2 ** 62), int(objv.evaluate(y)),
                                       rng.randint(1, fes), rng.randint(0, 1000), fes, rng.randint(1000, 10 ** 6), goal,
                                       fes if (budget_mode == "all" or (budget_mode == "mixed" and ai != 0)) else None, None)
                        rec_ = pr_.from_packing_and_end_result(er, y)
                        if tab % 3 == 0:
                            # further evaluated objectives whose value or bounds are zero / negative / non-integral (the
                            # seven bundled ones are all positive integers): one common set for the whole table
                            ob_ = dict(rec_.objectives)
                            bd_ = dict(rec_.objective_bounds)
                            ob_["balance"], bd_["balance.lowerBound"], bd_["balance.upperBound"] = 0, -10, 10
                            ob_["wastedArea"], bd_["wastedArea.lowerBound"], bd_["wastedArea.upperBound"] = 0.0, 0, 7.5
                            ob_["slack"], bd_["slack.lowerBound"], bd_["slack.upperBound"] = -3, -3, 0
                            rec_ = pr_.PackingResult(rec_.end_result, rec_.n_items, rec_.n_different_items, rec_.bin_width,
                                                     rec_.bin_height, ob_, bd_, dict(rec_.bin_bounds))
                        records.append(rec_)
            f = os.path.join(scratch, f"res{tab}.csv")
            info = {"algorithms": algos, "instances": [i.name for i in insts], "budget_column": budget_mode, "goal": goal_mode,
                    "records": len(records)}
            try:
                pr_.to_csv(records, f)
                back = list(pr_.from_csv(f))
                evals += 1
                distinct.add(("results", tab, goal_mode, with_budget, tuple(algos)))
                key = lambda r: (r.end_result.algorithm, r.end_result.instance, r.end_result.rand_seed)
                a, b = sorted(records, key=key), sorted(back, key=key)
                if len(a) != len(b):
                    viol.append(("packing-results/csv", info, f"{len(a)} records written, {len(b)} read"))
                else:
                    for ra, rb in zip(a, b):
                        if not (ra.end_result == rb.end_result and ra.n_items == rb.n_items and ra.n_different_items == rb.n_different_items
                                and ra.bin_width == rb.bin_width and ra.bin_height == rb.bin_height
                                and dict(ra.objectives) == dict(rb.objectives)
                                and dict(ra.objective_bounds) == dict(rb.objective_bounds)):
                            viol.append(("packing-results/csv", info, "record differs after round trip"))
                            break
                        if dict(ra.bin_bounds) != dict(rb.bin_bounds):
                            viol.append(("packing-results/csv-bin-bounds", info,
                                         f"bin_bounds written {dict(ra.bin_bounds)} read {dict(rb.bin_bounds)}"))
                            break
            except Exception as ex:
                viol.append(("packing-results/raises", info, repr(ex)))
                continue
            # statistics over the same records
            try:
                stats = []
                # (statistics aggregate the records of one instance *name*; the same-name twins are left out here)
                ps_.from_packing_results([r_ for r_ in records if r_.end_result.instance != "tw01n"], stats.append)
                f2 = os.path.join(scratch, f"stat{tab}.csv")
                ps_.to_csv(stats, f2)
                sback = list(ps_.from_csv(f2))
                evals += 1
                k2 = lambda r: (r.end_statistics.algorithm, r.end_statistics.instance)
                a, b = sorted(stats, key=k2), sorted(sback, key=k2)
                if len(a) != len(b):
                    viol.append(("packing-statistics/csv", info, f"{len(a)} written, {len(b)} read"))
                else:
                    for ra, rb in zip(a, b):
                        if not (ra.end_statistics == rb.end_statistics and ra.n_items == rb.n_items and ra.bin_width == rb.bin_width
                                and ra.bin_height == rb.bin_height and dict(ra.objectives) == dict(rb.objectives)
                                and dict(ra.objective_bounds) == dict(rb.objective_bounds)):
                            viol.append(("packing-statistics/csv", info, "record differs after round trip"))
                            break
                        if dict(ra.bin_bounds) != dict(rb.bin_bounds):
                            viol.append(("packing-statistics/csv-bin-bounds", info,
                                         f"bin_bounds written {dict(ra.bin_bounds)} read {dict(rb.bin_bounds)}"))
                            break
            except Exception as ex:
                # the recorded finding F11: moptipy writes the text 'None' into successN for set-ups without goal when another
                # set-up has one, and cannot read it back.  Only that failure carries the label of the finding.
                cls = "mixed-goal" if (goal_mode == "mixed" and "None" in repr(ex)) else "other"
                viol.append((f"packing-statistics/raises/{cls}", info, repr(ex)))
            if len(samples) < 2:
                samples.append(info)
    finally:
        shutil.rmtree(scratch, ignore_errors=True)
    seen = set()
    viol = [v for v in viol if not (v[0] in seen or seen.add(v[0]))]
    return {"name": "text_roundtrip", "evaluations": evals, "distinct_nontrivial": len(distinct),
            "rule": "generated instances (boundary sizes 1, 9/10, 99/100, 127/128, 32767, 10^6; multi-digit repetitions), packings "
                    "from both decoders (also a bin side near 10^12), random game plans of 5 bundled and 3 generated instances (126-130 teams), "
                    "orderings (also 127-257 objects), and heterogeneous result/statistics tables "
                    "(1-3 algorithms, different objectives/encodings, budget and goal columns none/all/mixed, bounds above 2^53) written "
                    "to a scratch directory; distinct = distinct texts / table configurations",
            "samples": samples, "violations": viol, "exhaustive": False}
