"""Bounded stand-in for C10: post-condition of run_ode and j_from_ode monitored on a fixed family of
(system, controller) programs: bundled systems x bundled controllers with random parameters, 2-D linear systems with
closed-form solutions (tolerance stated), controllers that diverge immediately / late / return NaN / inf.
Wall-clock guard per call.  Termination and accuracy of scipy's RK45 are not decided by this (or any) check here."""
import math
import random
import time

import numpy as np


def post_run_ode(ode, start, controller, params, cd, steps, max_time):
    """-> None or the violated clause"""
    n = len(start)
    dim = n + cd + 1
    if ode.ndim != 2 or ode.shape[1] != dim:
        return f"shape {ode.shape}"
    if ode.shape[0] == 1:          # the single failure row
        if not (np.array_equal(ode[0, :n], start) and np.all(ode[0, n:-1] == 1e100) and ode[0, -1] == 0.0):
            return "malformed failure row"
        return None
    if ode.shape[0] != steps:
        return f"{ode.shape[0]} rows instead of {steps} or 1"
    if not np.array_equal(ode[0, :n], start) or ode[0, -1] != 0.0:
        return "first row is not the starting state at time 0"
    t = ode[:, -1]
    if not np.all(np.diff(t) > 0) or t[-1] > max_time:
        return "times not strictly increasing within [0, max_time]"
    if not np.all(np.isfinite(ode)) or not np.all(np.abs(ode) < 1e10):
        return "non-finite or |value| >= 1e10"
    out = np.empty(cd)
    for r in (0, 1, steps // 2, steps - 1):
        controller(ode[r, :n].copy(), float(ode[r, -1]), params, out)
        if not np.array_equal(out, ode[r, n:-1]):
            return f"control entries of row {r} differ from the controller output"
    return None


def j_reference(ode, sd, usd, gamma):
    if len(ode) <= 1:
        return 1e200
    if usd <= 0:
        usd = sd
    terms = []
    for i in range(1, len(ode)):
        w = ode[i, -1] - ode[i - 1, -1]
        for c in range(ode.shape[1] - 2, sd - 1, -1):
            v = ode[i - 1, c]
            terms.append(v * v * w * gamma if -1e100 < v < 1e100 else 1e100)
        if i > 1:
            for c in range(usd - 1, -1, -1):
                v = ode[i - 1, c]
                terms.append(v * v * w if -1e100 < v < 1e100 else 1e100)
    return math.fsum(terms) / ode[-1, -1]


def harness(tier, seed):
    from moptipyapps.dynamic_control.controllers.ann import anns
    from moptipyapps.dynamic_control.controllers.cubic import cubic
    from moptipyapps.dynamic_control.controllers.linear import linear
    from moptipyapps.dynamic_control.controllers.quadratic import quadratic
    from moptipyapps.dynamic_control.ode import j_from_ode, run_ode
    from moptipyapps.dynamic_control.systems.lorenz import LORENZ_4
    from moptipyapps.dynamic_control.systems.stuart_landau import STUART_LANDAU_4
    rng = random.Random(seed + 10)
    viol, samples = [], []
    evals, distinct = 0, set()
    steps = 200 if tier == "quick" else 1000
    programs = []
    for system in (STUART_LANDAU_4, LORENZ_4):
        ctrls = [linear(system), quadratic(system), cubic(system)] + list(anns(system))[:2]
        for c in ctrls:
            for _ in range(2 if tier == "quick" else 10):
                params = np.array([rng.uniform(-2, 2) for _ in range(c.param_dims)])
                start = np.array(system.training_starting_states[rng.randrange(len(system.training_starting_states))])
                programs.append((f"{system.name}/{c.name}", system.equations, c.controller, params, start, 1, rng.choice([10.0, 50.0])))

    def lin_eq(state, _, control, out):          # dx/dt = -x, dy/dt = -2y  (closed form: exp decay), control ignored
        out[0] = -state[0]
        out[1] = -2.0 * state[1]

    def zero_ctrl(state, _, p, out):
        out[0] = 0.0

    def ctrl_eq(state, _, control, out):          # dx/dt = u, dy/dt = -y
        out[0] = control[0]
        out[1] = -state[1]

    def blow_now(state, _, p, out):
        out[0] = 1e30

    def blow_late(state, t, p, out):
        out[0] = math.exp(min(40.0 * t, 700.0))

    def nan_ctrl(state, t, p, out):
        out[0] = float("nan") if t > 0.5 else 0.0

    def nan_now(state, t, p, out):
        out[0] = float("nan")

    def nan_second(state, t, p, out):             # two control entries, the equations use the first only
        out[0] = 0.25
        out[1] = float("nan") if (t > 1.0 or state[1] < 0.5) else 0.0

    def inf_ctrl(state, t, p, out):
        out[0] = float("inf")

    def const_ctrl(state, t, p, out):
        out[0] = p[0]
    def drift_eq(state, _, control, out):         # constant drift 5e8: the state passes 1e10 at t = 20 while dx/dt stays small
        out[0] = 5e8
        out[1] = -state[1]

    def grow_eq(state, _, control, out):          # x' = 0.5 x: crosses 1e10 at t ~ 46 with dx/dt = 5e9
        out[0] = 0.5 * state[0]
        out[1] = -state[1]
    p0 = np.zeros(1)
    programs += [("drift/zero", drift_eq, zero_ctrl, np.zeros(1), np.array([0.0, 1.0]), 1, 50.0),
                 ("growth/zero", grow_eq, zero_ctrl, np.zeros(1), np.array([1.0, 1.0]), 1, 50.0)]
    programs += [("linear-decay/zero", lin_eq, zero_ctrl, p0, np.array([1.0, -2.0]), 1, 5.0),
                 ("integrator/const", ctrl_eq, const_ctrl, np.array([0.5]), np.array([0.0, 1.0]), 1, 4.0),
                 ("integrator/blow-now", ctrl_eq, blow_now, p0, np.array([0.0, 1.0]), 1, 5.0),
                 ("integrator/blow-late", ctrl_eq, blow_late, p0, np.array([0.0, 1.0]), 1, 5.0),
                 ("integrator/nan", ctrl_eq, nan_ctrl, p0, np.array([0.0, 1.0]), 1, 5.0),
                 ("integrator/inf", ctrl_eq, inf_ctrl, p0, np.array([0.0, 1.0]), 1, 5.0),
                 # a NaN the differential equations never look at (NaN compares false with everything: a range test
                 # written as "too small or too large" lets it through)
                 ("ignorednan/late", lin_eq, nan_ctrl, p0, np.array([1.0, -2.0]), 1, 5.0),
                 ("ignorednan/now", lin_eq, nan_now, p0, np.array([1.0, -2.0]), 1, 5.0),
                 ("ignorednan/second-entry", ctrl_eq, nan_second, p0, np.array([0.0, 1.0]), 2, 4.0)]
    # few output rows over a long time span: the output grid is much coarser than the integrator's steps, so several
    # integration segments lie between two rows (the default settings have it the other way round)
    for k_ in (2, 3, 5, 11, 23):
        programs.append((f"coarse-decay/{k_}-rows", lin_eq, zero_ctrl, p0, np.array([1.0, -2.0]), 1, 50.0, k_))
        programs.append((f"coarse-integrator/{k_}-rows", ctrl_eq, const_ctrl, np.array([0.5]), np.array([0.0, 1.0]), 1, 40.0, k_))
    # closed loops x' = x + u, u = -k x (state-dependent control, stiff enough for the integrator to reject steps):
    # x(t) = x0 exp((1 - k) t), compared at 0.5 % of |x0| (the unchanged tree stays below 0.05 %)
    def plant_eq(state, _, control, out):
        out[0] = state[0] + control[0]
        out[1] = -state[1]

    def prop_ctrl(state, t, p, out):
        out[0] = -p[0] * state[0]
    for k_ in (2.0, 5.0, 8.0, 12.0):
        programs.append((f"closed-loop/k={k_}", plant_eq, prop_ctrl, np.array([k_]), np.array([1.0, 0.5]), 1, 4.0))
        programs.append((f"closed-loop/k={k_}b", plant_eq, prop_ctrl, np.array([k_]), np.array([-3.0, 2.0]), 1, 4.0))
    default_steps = steps
    for prog in programs:
        (name, eq, ctrl, params, start, cd, max_time) = prog[:7]
        steps = prog[7] if len(prog) > 7 else default_steps
        t0 = time.time()
        s0 = start.copy()
        try:
            ode = run_ode(start, eq, ctrl, params, cd, steps, max_time)
        except Exception as ex:
            viol.append((f"run_ode/raises/{name.split('/')[0]}", {"program": name, "start": s0.tolist(), "params": params.tolist()}, repr(ex)))
            continue
        dt = time.time() - t0
        evals += 1
        distinct.add((name, tuple(params.tolist()), tuple(s0.tolist())))
        info = {"program": name, "start": s0.tolist(), "params": params.tolist(), "steps": steps, "max_time": max_time,
                "rows": int(ode.shape[0]), "seconds": round(dt, 2)}
        why = post_run_ode(ode, s0, ctrl, params, cd, steps, max_time)
        if why:
            viol.append((f"run_ode/post/{name.split('/')[0]}", info, why))
        if dt > 120:
            viol.append(("run_ode/wall-clock", info, f"{dt:.1f}s"))
        if not np.array_equal(start, s0):
            viol.append(("run_ode/modifies-start", info, "starting state changed"))
        # figure of merit
        sd = len(s0)
        j = j_from_ode(ode, sd)
        jr = j_reference(ode, sd, -1, 0.1)
        if not (j >= 0) or (abs(j - jr) > 1e-9 * max(1.0, abs(jr))):
            viol.append(("j_from_ode/documented-formula", info, f"j={j} reference={jr}"))
        j2, jr2 = j_from_ode(ode, sd, 1, 0.5), j_reference(ode, sd, 1, 0.5)
        if abs(j2 - jr2) > 1e-9 * max(1.0, abs(jr2)):
            viol.append(("j_from_ode/documented-formula-partial-state", info, f"j={j2} reference={jr2}"))
        # analytic solutions
        if (name == "linear-decay/zero" or name.startswith("coarse-decay/")) and ode.shape[0] == steps:
            t = ode[:, -1]
            err = max(np.max(np.abs(ode[:, 0] - s0[0] * np.exp(-t))), np.max(np.abs(ode[:, 1] - s0[1] * np.exp(-2 * t))))
            if err > 1e-2:
                viol.append(("run_ode/analytic-linear-decay", info, f"max abs error {err}"))
        if (name == "integrator/const" or name.startswith("coarse-integrator/")) and ode.shape[0] == steps:
            t = ode[:, -1]
            err = max(np.max(np.abs(ode[:, 0] - 0.5 * t)), np.max(np.abs(ode[:, 1] - np.exp(-t))))
            if err > 1e-2:
                viol.append(("run_ode/analytic-integrator", info, f"max abs error {err}"))
        if name.startswith("closed-loop/") and ode.shape[0] == steps:
            t = ode[:, -1]
            k_ = float(params[0])
            err = max(np.max(np.abs(ode[:, 0] - s0[0] * np.exp((1.0 - k_) * t))), np.max(np.abs(ode[:, 1] - s0[1] * np.exp(-t))))
            if err > 5e-3 * float(np.max(np.abs(s0))):
                viol.append(("run_ode/analytic-closed-loop", info, f"max abs error {err} (start {s0.tolist()})"))
        if len(samples) < 3:
            samples.append(info)
    # ---- multi_run_ode: test and training starting states get their own numbers of rows and time limits, every
    # collector gets (running index, the simulation, its figure of merit for the given dimensions and gamma, its end time)
    from moptipyapps.dynamic_control.ode import multi_run_ode, t_from_ode
    got_ = []
    tests_ = [np.array([1.0, -2.0]), np.array([0.5, 0.25])]
    train_ = [np.array([2.0, 1.0]), np.array([-1.0, 3.0]), np.array([0.1, 0.2])]
    cfg_ = {"test_steps": 30, "test_time": 3.0, "training_steps": 17, "training_time": 2.0, "use_state_dims": 1, "gamma": 0.6}
    try:
        multi_run_ode(tests_, train_, [lambda i, o, j, t: got_.append((i, o.copy(), j, t))], lin_eq, const_ctrl, np.array([0.5]), 1,
                      cfg_["test_steps"], cfg_["test_time"], cfg_["training_steps"], cfg_["training_time"],
                      cfg_["use_state_dims"], cfg_["gamma"])
        evals += 1
        info = {"program": "multi_run_ode/linear-decay", **cfg_, "test_states": 2, "training_states": 3}
        if [g[0] for g in got_] != list(range(5)):
            viol.append(("multi_run_ode/indices", info, f"collector indices {[g[0] for g in got_]}"))
        for k_, (i_, o_, j_, t_) in enumerate(got_):
            start_ = (tests_ + train_)[k_]
            st_, tm_ = (cfg_["test_steps"], cfg_["test_time"]) if k_ < 2 else (cfg_["training_steps"], cfg_["training_time"])
            why = post_run_ode(o_, start_, const_ctrl, np.array([0.5]), 1, st_, tm_)
            if why:
                viol.append(("multi_run_ode/post", info, f"simulation {k_} ({'test' if k_ < 2 else 'training'}): {why}"))
                break
            jr_ = j_reference(o_, 2, cfg_["use_state_dims"], cfg_["gamma"])
            if abs(j_ - jr_) > 1e-9 * max(1.0, abs(jr_)) or t_ != t_from_ode(o_) or t_ != o_[-1, -1]:
                viol.append(("multi_run_ode/figure-of-merit", info, f"simulation {k_}: j={j_} reference={jr_}, t={t_}"))
                break
    except Exception as ex:     # noqa: BLE001
        viol.append(("multi_run_ode/raises", cfg_, repr(ex)))
    seen = set()
    viol = [v for v in viol if not (v[0] in seen or seen.add(v[0]))]
    return {"name": "ode", "evaluations": evals, "distinct_nontrivial": len(distinct),
            "rule": "multi_run_ode with different row counts / time limits for test and training states; programs: {Stuart-Landau, Lorenz} x {linear, quadratic, cubic, 2 ANNs} x random parameters and training "
                    "starts; 2-D linear decay and integrator systems with closed-form solutions (tolerance 1e-2); controllers that "
                    "blow up immediately / exponentially / return NaN / inf; post-condition of run_ode, j_from_ode vs documented "
                    "formula (fsum reference); distinct = distinct (program, parameters, start)",
            "samples": samples, "violations": viol, "exhaustive": False}
