"""Bounded stand-in for C13 at the boundary between the public spaces and the compiled kernels: whatever a space's
`validate` lets through must be safe for the kernels (which are compiled without bounds checks).  The checks run with
NUMBA_BOUNDSCHECK=1 (set by ./check), so an out-of-range access inside a kernel raises IndexError.

 - TTP: game plans with extreme cell values (minimum / maximum of the plan's dtype, +-n, +-(n+1), 0, self-play) at the
   first / last day and team; every plan GamePlanSpace.validate accepts is evaluated by Errors and GamePlanLength.
 (For 2D bin packing the corresponding statement is the soundness contract of PackingSpace.validate, C04.)"""
import random

import numpy as np


def harness(tier, seed):
    from moptipyapps.ttp.errors import Errors
    from moptipyapps.ttp.game_plan_space import GamePlanSpace
    from moptipyapps.ttp.instance import Instance as TTP
    from moptipyapps.ttp.plan_length import GamePlanLength
    rng = random.Random(seed + 130)
    viol, samples = [], []
    evals, distinct = 0, set()
    for name in ("circ4", "circ6", "con8", "bra24") if tier == "quick" else ("circ4", "circ6", "circ8", "con8", "nl10", "bra24"):
        inst = TTP.from_resource(name)
        n = int(inst.n_cities)
        space = GamePlanSpace(inst)
        objs = [Errors(inst), GamePlanLength(inst)]
        days = (n - 1) * int(inst.rounds)
        info_t = np.iinfo(inst.game_plan_dtype)
        specials = [int(info_t.min), int(info_t.max), n, -n, n + 1, -(n + 1), 0, int(info_t.min) + 1, int(info_t.max) - 1]
        for rep in range(40 if tier == "quick" else 400):
            y = space.create()
            for d in range(days):
                for t in range(n):
                    y[d, t] = rng.randint(-n, n)
            cells = [(0, 0), (days - 1, n - 1), (0, n - 1), (days - 1, 0), (rng.randrange(days), rng.randrange(n))]
            d, t = cells[rep % len(cells)]
            v = specials[(rep // len(cells)) % len(specials)]
            if rep % 7 == 6:
                v = t + 1 if rng.random() < 0.5 else -(t + 1)      # a team scheduled against itself
            y[d, t] = v
            info = {"instance": name, "n": n, "cell": [d, t], "value": v, "dtype": str(inst.game_plan_dtype)}
            try:
                space.validate(y)
                accepted = True
            except (ValueError, TypeError):
                accepted = False
            evals += 1
            distinct.add((name, d, t, v))
            if not accepted:
                if -n <= v <= n:
                    viol.append(("ttp/space-rejects-an-in-range-plan", info, "validate raised for entries within -n..n"))
                continue
            for o in objs:
                try:
                    o.evaluate(y)
                except IndexError as ex:
                    viol.append((f"ttp/{o}/out-of-bounds-on-accepted-plan", info,
                                 f"GamePlanSpace.validate accepted the plan, {o} then accessed outside an array: {ex!r}"))
                except Exception as ex:     # noqa: BLE001
                    viol.append((f"ttp/{o}/raises-on-accepted-plan", info, repr(ex)))
            if len(samples) < 2:
                samples.append(info)
    seen = set()
    viol = [v for v in viol if not (v[0] in seen or seen.add(v[0]))]
    return {"name": "spaces_vs_kernels", "evaluations": evals, "distinct_nontrivial": len(distinct),
            "rule": "TTP instances circ4/circ6/con8/bra24 (thorough: + circ8, nl10): random plans in -n..n with one cell set to an "
                    "extreme value (dtype min/max and neighbours, +-n, +-(n+1), 0, self-play) at corner and random positions; "
                    "every plan accepted by GamePlanSpace.validate is evaluated by Errors and GamePlanLength under numba bounds "
                    "checking; distinct = distinct (instance, cell, value)",
            "samples": samples, "violations": viol, "exhaustive": False}
