"""Bounded stand-in for C13 at the boundary between the public spaces and the compiled kernels: whatever a space's
`validate` lets through must be safe for the kernels (which are compiled without bounds checks).  The checks run with
NUMBA_BOUNDSCHECK=1 (set by ./check), so an out-of-range access inside a kernel raises IndexError.

 - TTP: game plans with extreme cell values (minimum / maximum of the plan's dtype, +-n, +-(n+1), 0, self-play) at the
   first / last day and team; every plan GamePlanSpace.validate accepts is evaluated by Errors and GamePlanLength.
 (For 2D bin packing the corresponding statement is the soundness contract of PackingSpace.validate, C04.)"""
import random

import numpy as np


def harness(tier, seed):
    from moptipyapps.ttp.errors import Errors
    from moptipyapps.ttp.game_plan_space import GamePlanSpace
    from moptipyapps.ttp.instance import Instance as TTP
    from moptipyapps.ttp.plan_length import GamePlanLength
    rng = random.Random(seed + 130)
    viol, samples = [], []
    evals, distinct = 0, set()
    for name in ("circ4", "circ6", "con8", "bra24") if tier == "quick" else ("circ4", "circ6", "circ8", "con8", "nl10", "bra24"):
        inst = TTP.from_resource(name)
        n = int(inst.n_cities)
        space = GamePlanSpace(inst)
        objs = [Errors(inst), GamePlanLength(inst)]
        days = (n - 1) * int(inst.rounds)
        info_t = np.iinfo(inst.game_plan_dtype)
        specials = [int(info_t.min), int(info_t.max), n, -n, n + 1, -(n + 1), 0, int(info_t.min) + 1, int(info_t.max) - 1]
        for rep in range(40 if tier == "quick" else 400):
            y = space.create()
            for d in range(days):
                for t in range(n):
                    y[d, t] = rng.randint(-n, n)
            cells = [(0, 0), (days - 1, n - 1), (0, n - 1), (days - 1, 0), (rng.randrange(days), rng.randrange(n))]
            d, t = cells[rep % len(cells)]
            v = specials[(rep // len(cells)) % len(specials)]
            if rep % 7 == 6:
                v = t + 1 if rng.random() < 0.5 else -(t + 1)      # a team scheduled against itself
            y[d, t] = v
            info = {"instance": name, "n": n, "cell": [d, t], "value": v, "dtype": str(inst.game_plan_dtype)}
            try:
                space.validate(y)
                accepted = True
            except (ValueError, TypeError):
                accepted = False
            evals += 1
            distinct.add((name, d, t, v))
            if not accepted:
                if -n <= v <= n:
                    viol.append(("ttp/space-rejects-an-in-range-plan", info, "validate raised for entries within -n..n"))
                continue
            for o in objs:
                try:
                    o.evaluate(y)
                except IndexError as ex:
                    viol.append((f"ttp/{o}/out-of-bounds-on-accepted-plan", info,
                                 f"GamePlanSpace.validate accepted the plan, {o} then accessed outside an array: {ex!r}"))
                except Exception as ex:     # noqa: BLE001
                    viol.append((f"ttp/{o}/raises-on-accepted-plan", info, repr(ex)))
            if len(samples) < 2:
                samples.append(info)
    # ---- 2D bin packing: what the decoders store must fit the storage type the instance constructor picked - also for a
    # rotated wide item (bin side + item width).  Whatever both decoders produce for a generated instance (sizes around the
    # int8 / int16 limits) is accepted by PackingSpace.validate and has no negative coordinate.
    try:
        from contracts.binpacking import rand_instance, rand_signed_perm
        from moptipyapps.binpacking2d.encodings.ibl_encoding_1 import ImprovedBottomLeftEncoding1
        from moptipyapps.binpacking2d.encodings.ibl_encoding_2 import ImprovedBottomLeftEncoding2
        from moptipyapps.binpacking2d.packing_space import PackingSpace
        for k_ in range(60 if tier == "quick" else 800):
            bi = rand_instance(rng, max_items=rng.choice([3, 6]))
            sp_ = PackingSpace(bi)
            for cls in (ImprovedBottomLeftEncoding1, ImprovedBottomLeftEncoding2):
                x_ = rand_signed_perm(rng, bi)
                y_ = sp_.create()
                info = {"W": int(bi.bin_width), "H": int(bi.bin_height), "dtype": str(bi.dtype),
                        "items": [[int(v) for v in bi[i]] for i in range(bi.n_different_items)], "x": [int(v) for v in x_]}
                try:
                    cls(bi).decode(x_, y_)
                    evals += 1
                    if int(np.array(y_).min()) < 0:
                        viol.append(("binpacking/stored-value-wrapped", info, f"negative entry in the packing: {np.array(y_).tolist()}"))
                        break
                    sp_.validate(y_)
                except Exception as ex:     # noqa: BLE001
                    viol.append(("binpacking/decoded-packing-rejected-or-raises", info, repr(ex)))
                    break
    except Exception as ex:     # noqa: BLE001
        viol.append(("binpacking/raises", {}, repr(ex)))
    # ---- dynamic control: a system with TWO control values driven by a generated two-output network through the
    # figure-of-merit objectives (all bundled systems have one control value).  Every array a controller kernel gets
    # is sized by the caller from the controller's declared dimensions.
    try:
        from moptipyapps.dynamic_control.controllers.ann import make_ann
        from moptipyapps.dynamic_control.instance import Instance as DCI
        from moptipyapps.dynamic_control.objective import FigureOfMerit, FigureOfMeritLE
        from moptipyapps.dynamic_control.ode import j_from_ode, run_ode
        from moptipyapps.dynamic_control.system import System

        def eq2(state, _t, control, out):      # damped rotation pushed by both control values
            out[0] = -0.5 * state[0] - state[1] + 0.1 * control[0]
            out[1] = state[0] - 0.5 * state[1] + 0.1 * control[1]
        starts = np.array([[1.0, 0.5], [-0.5, 1.0]])
        sys2 = System("two_controls", 2, 2, 2, 2, 0.3, starts, starts, 40, 4.0, 40, 4.0)
        sys2.equations = eq2
        ctrl2 = make_ann(2, 2, [2])
        di = DCI(sys2, ctrl2)
        for cls in (FigureOfMerit, FigureOfMeritLE):
            for collect in (False, True):
                f = cls(di, collect)
                f.initialize()
                x = np.array([rng.uniform(-1, 1) for _ in range(ctrl2.param_dims)])
                v = float(f.evaluate(x.copy()))
                evals += 1
                js = [j_from_ode(run_ode(np.array(st), eq2, ctrl2.controller, x, 2, 40, 4.0), 2, 2, 0.3) for st in starts]
                want = float(np.mean(js)) if cls is FigureOfMerit else float(np.expm1(np.mean(np.log1p(js))))
                info = {"system": "2 states, 2 controls", "controller": ctrl2.name, "objective": cls.__name__, "x": x.tolist()}
                if not (v == want or abs(v - want) <= 1e-9 * max(1.0, abs(want))):
                    viol.append(("dynamic-control/two-control-values", info, f"evaluate={v}, recomputed with arrays of the declared sizes: {want}"))
                if collect:
                    sc, _df = f.get_differentials()
                    if sc.shape[1] != 4:
                        viol.append(("dynamic-control/collected-row-width", info, f"state+control rows have {sc.shape[1]} columns, expected 4"))
    except Exception as ex:     # noqa: BLE001  (IndexError under NUMBA_BOUNDSCHECK=1: a kernel left its arrays)
        import traceback
        viol.append(("dynamic-control/raises", {"system": "2 states, 2 controls"}, repr(ex) + " | " + traceback.format_exc(limit=3)[-400:]))
    seen = set()
    viol = [v for v in viol if not (v[0] in seen or seen.add(v[0]))]
    return {"name": "spaces_vs_kernels", "evaluations": evals, "distinct_nontrivial": len(distinct),
            "rule": "TTP instances circ4/circ6/con8/bra24 (thorough: + circ8, nl10): random plans in -n..n with one cell set to an "
                    "extreme value (dtype min/max and neighbours, +-n, +-(n+1), 0, self-play) at corner and random positions; "
                    "every plan accepted by GamePlanSpace.validate is evaluated by Errors and GamePlanLength under numba bounds "
                    "checking; distinct = distinct (instance, cell, value)",
            "samples": samples, "violations": viol, "exhaustive": False}
