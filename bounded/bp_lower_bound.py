"""Bounded stand-in for C03: the instance's lower bound never exceeds the bins of an achievable packing.

 - instances whose optimum is known by construction: k bins are cut into items by random guillotine cuts (items may then
   be stored rotated), so a feasible packing with k bins exists: lower_bound_bins <= k; when the cuts leave no waste the
   area bound gives lower_bound_bins == k;
 - random instances: lower_bound_bins <= n_bins of every packing produced by both decoders; >= area bound."""
import random

from bounded.util import RealCodeTimeout, time_limit

import numpy as np


def cut(rng, w, h, depth):
    if depth <= 0 or (w <= 1 and h <= 1) or rng.random() < 0.25:
        return [(w, h)]
    if (rng.random() < 0.5 and w > 1) or h <= 1:
        c = rng.randint(1, w - 1)
        return cut(rng, c, h, depth - 1) + cut(rng, w - c, h, depth - 1)
    c = rng.randint(1, h - 1)
    return cut(rng, w, c, depth - 1) + cut(rng, w, h - c, depth - 1)


def harness(tier, seed):
    from contracts.binpacking import rand_instance, rand_signed_perm
    from moptipyapps.binpacking2d.encodings.ibl_encoding_1 import ImprovedBottomLeftEncoding1
    from moptipyapps.binpacking2d.encodings.ibl_encoding_2 import ImprovedBottomLeftEncoding2
    from moptipyapps.binpacking2d.instance import Instance
    from moptipyapps.binpacking2d.packing import Packing
    rng = random.Random(seed + 3)
    viol, samples, slow = [], [], []
    evals, distinct = 0, set()
    reps = 300 if tier == "quick" else 6000
    n_decoys = 0
    for _ in range(reps):
        W, H = rng.randint(1, 40), rng.randint(1, 40)
        k = rng.randint(1, 5)
        pieces = []
        for _b in range(k):
            pieces += cut(rng, W, H, rng.randint(0, 4))
        if rng.random() < 0.3:          # all sides share a factor: the square-cutting of the bound loses nothing
            sc_ = rng.choice([2, 3])
            W, H = W * sc_, H * sc_
            pieces = [(w * sc_, h * sc_) for (w, h) in pieces]
        if rng.random() < 0.3:          # drop some pieces: waste, optimum may be smaller than k
            drop = rng.randint(0, len(pieces) - 1)
            pieces = pieces[drop:] if len(pieces) - drop >= 1 else pieces
            exact = False
        else:
            exact = True
        cnt = {}
        for (w, h) in pieces:
            if rng.random() < 0.5:
                w, h = h, w            # stored rotated
            if w > max(W, H) or h > max(W, H) or (w > min(W, H) and h > min(W, H)):
                w, h = h, w
            cnt[(w, h)] = cnt.get((w, h), 0) + 1
        items = [[w, h, c] for (w, h), c in cnt.items()]
        if W >= 4 and H >= 4 and n_decoys < 60:
            # a decoy built just before: same name, bin, number of items and total item area, but k + 1 items that are
            # larger than half the bin in both directions (so it needs more than k bins).  Whatever the constructor
            # remembers about earlier instances must not leak into the next one.
            n_tot = sum(c for _w, _h, c in items)
            area_ = sum(w * h * c for w, h, c in items)
            bw_, bh_ = W // 2 + 1, H // 2 + 1
            rest = area_ - (k + 1) * bw_ * bh_
            q_, r_ = (rest // W, rest % W) if rest > 0 else (0, 0)
            fill = ([[W, q_, 1]] if q_ > 0 else []) + ([[r_, 1, 1]] if r_ > 0 else [])
            ones = n_tot - (k + 1) - len(fill)
            if rest >= 0 and q_ <= H and ones >= 0:
                # move `ones` unit squares out of the filler area
                rest2 = rest - ones
                if rest2 >= 0:
                    q_, r_ = rest2 // W, rest2 % W
                    fill = ([[W, q_, 1]] if q_ > 0 else []) + ([[r_, 1, 1]] if r_ > 0 else [])
                    if len(fill) + ones + (k + 1) == n_tot and q_ <= H and (ones > 0 or rest2 == rest):
                        decoy = [[bw_, bh_, k + 1]] + fill + ([[1, 1, ones]] if ones > 0 else [])
                        try:
                            d_ = Instance("c", W, H, decoy)
                            if (d_.n_items, d_.total_item_area) == (n_tot, area_):
                                n_decoys += 1
                        except ValueError:
                            pass
        try:
            inst = Instance("c", W, H, items)
        except ValueError:
            continue
        evals += 1
        distinct.add((W, H, tuple(map(tuple, sorted(items)))))
        area = sum(w * h * c for w, h, c in items)
        geo = -(-area // (W * H))
        lb = int(inst.lower_bound_bins)
        info = {"W": W, "H": H, "items": items, "bins_cut": k}
        if lb > k:
            viol.append(("bound-exceeds-constructed-packing", info, f"lower_bound_bins={lb} but {k} bins suffice by construction"))
        if lb < geo:
            viol.append(("bound-below-area-bound", info, f"lower_bound_bins={lb} < ceil(area/bin area)={geo}"))
        if exact and lb != k:
            viol.append(("bound-not-tight-for-waste-free-cut", info, f"lower_bound_bins={lb}, area bound = {geo} = {k}"))
        if len(samples) < 2:
            samples.append({**info, "lower_bound_bins": lb, "area_bound": geo})
    for _ in range(reps // 3):
        inst = rand_instance(rng, max_items=rng.choice([3, 6, 10]))
        lb = int(inst.lower_bound_bins)
        for cls in (ImprovedBottomLeftEncoding1, ImprovedBottomLeftEncoding2):
            y = Packing(inst)
            cls(inst).decode(rand_signed_perm(rng, inst), y)
            evals += 1
            if int(y.n_bins) < lb:
                viol.append(("decoded-packing-below-bound", {"W": int(inst.bin_width), "H": int(inst.bin_height),
                                                              "items": np.array(inst).tolist(), "packing": np.array(y).tolist()},
                             f"packing uses {int(y.n_bins)} bins, lower bound {lb}"))
    # ---- areas beyond 2**53 (exact integer arithmetic is required): bin 10^12 x 10^4
    for (W, H, items, fits) in ((10 ** 12, 10 ** 4, [[10 ** 12, 1, 10 ** 4], [1, 1, 1]], 2),
                                (10 ** 12, 10 ** 4, [[10 ** 12, 1, 10 ** 4]], 1),
                                (10 ** 4, 10 ** 12, [[1, 10 ** 12, 2 * 10 ** 4], [1, 1, 1]], 3)):
        try:
            with time_limit(60.0):      # the unchanged constructor needs well under a second for these
                inst = Instance("huge", W, H, items)
        except RealCodeTimeout:
            slow.append({"W": W, "H": H, "items": items})
            continue
        area = sum(w * h * c for w, h, c in items)
        geo = -(-area // (W * H))
        evals += 1
        info = {"W": W, "H": H, "items": items}
        if int(inst.lower_bound_bins) < geo:
            viol.append(("bound-below-area-bound", info, f"lower_bound_bins={inst.lower_bound_bins} < exact ceil(area/bin area)={geo}"))
        if int(inst.lower_bound_bins) > fits:
            viol.append(("bound-exceeds-constructed-packing", info, f"lower_bound_bins={inst.lower_bound_bins}, {fits} bins suffice"))
    seen = set()
    viol = [v for v in viol if not (v[0] in seen or seen.add(v[0]))]
    return {"name": "bp_lower_bound", "evaluations": evals, "distinct_nontrivial": len(distinct),
            "rule": "instances built by guillotine-cutting k bins (bins 1..40, k <= 5, random rotations, optional waste): bound <= k, "
                    ">= area bound, == k when waste-free (up to 60 of them built right after a same-name decoy with equal bin, item count "
                    f"and area that needs more bins: {n_decoys} this run); random instances: bound <= bins of decoded packings; distinct = "
                    "distinct constructed instances",
            "samples": samples + [{"no-verdict-constructor-did-not-return-within-60s": x} for x in slow[:2]],
            "violations": viol, "exhaustive": False}
