"""Run-time monitor for C06: the real solve() methods driven by a monitoring process.

Every (x, y) pair handed to `register` is checked: x is a permutation, y == exact tour length;
EA: y never increases; FEA: a bounds-checking frequency table is impossible to inject (allocated
inside solve), so the table clause is checked through y in [0, upper bound].
Bounded: small random symmetric instances, a few thousand moves each."""
import random

import numpy as np


class _Stop(Exception):
    pass


class MonitorProcess:
    def __init__(self, inst, seed, max_fes, ea):
        self.inst, self.n = inst, inst.n_cities
        self.rng = np.random.default_rng(seed)
        self.fes, self.max_fes, self.ea = 0, max_fes, ea
        self.last = None
        self.violations = []
        self.pairs = 0
        self.distinct = set()
        self.polls = 0

    def get_random(self):
        return self.rng

    def create(self):
        return np.empty(self.n, np.int64)

    def exact(self, x):
        return sum(int(self.inst[int(x[k - 1]), int(x[k])]) for k in range(self.n))

    def evaluate(self, x):
        y = self.exact(x)
        self.last = y
        self.fes += 1
        return y

    def should_terminate(self):
        self.polls += 1
        return self.fes >= self.max_fes or self.polls > 50 * self.max_fes

    def register(self, x, y):
        self.fes += 1
        self.pairs += 1
        xs = [int(v) for v in x]
        self.distinct.add(tuple(xs))
        if sorted(xs) != list(range(self.n)):
            self.violations.append(("register:valid-permutation", xs, y))
        elif int(y) != self.exact(x):
            self.violations.append(("register:exact-tour-length", xs, (int(y), self.exact(x))))
        elif self.ea and self.last is not None and y > self.last:
            self.violations.append(("register:never-worse", xs, (self.last, int(y))))
        elif not (0 <= y <= self.inst.tour_length_upper_bound):
            self.violations.append(("register:table-range", xs, int(y)))
        self.last = int(y)


def harness(tier, seed):
    from moptipyapps.tsp.ea1p1_revn import TSPEA1p1revn
    from moptipyapps.tsp.fea1p1_revn import TSPFEA1p1revn
    from moptipyapps.tsp.instance import Instance
    rng = random.Random(seed)
    runs = 12 if tier == "quick" else 80
    fes = 400 if tier == "quick" else 3000
    viol, evals, distinct, samples = [], 0, 0, []
    big = [128, 129, 257] if tier == "quick" else [127, 128, 129, 130, 255, 256, 257]
    prev_n = 5
    for r in range(runs + len(big)):
        # the last runs: numbers of cities at the boundaries of the integer types a tour can be stored in
        n = rng.randint(4, 9) if r < runs else big[r - runs]
        if r in (1, 4):
            n = 2 if r == 1 else 3      # the smallest instances: no proper segment reversal exists, nothing may be registered wrongly
        if r in (7, 10) and r < runs:
            n = prev_n                  # two different instances of the same name and size directly after each other
        prev_n = n
        mx = rng.choice([1, 3, 20, 1000, 10 ** 9, 5 * 10 ** 9, 10 ** 12] if r < runs else [3, 20, 1000])
        m = np.zeros((n, n), np.int64)
        for i in range(n):
            for j in range(i):
                # large instances mix small and large distances (values beyond 2**31 need the int64 matrix)
                hi = mx if (mx < 10 ** 9 or rng.random() < 0.5) else 999
                m[i, j] = m[j, i] = rng.randint(1 if rng.random() < 0.5 else 0, hi)
        for i in range(n):       # every row needs a positive off-diagonal entry
            if m[i].max() == 0:
                j = (i + 1) % n
                m[i, j] = m[j, i] = 1
        inst = Instance("rnd", 0, m)      # one name for all: nothing may be keyed by the instance name
        for ea, cls in ((True, TSPEA1p1revn), (False, TSPFEA1p1revn)):
            if not ea and inst.tour_length_upper_bound > 10 ** 6:
                continue    # the FEA allocates a table of upper_bound + 1 counters
            # every third small instance gets a long run (whatever the algorithm does in batches or only after many steps)
            budget = fes * 8 if (r % 3 == 0 and r < runs) else fes
            p = MonitorProcess(inst, rng.randint(0, 2 ** 31), budget, ea)
            try:
                cls(inst).solve(p)
            except Exception as ex:   # with NUMBA_BOUNDSCHECK=1 an out-of-range access raises IndexError
                viol.append((f"{cls.__name__}.solve/raises", {"matrix": m if n <= 9 else f"{n} cities, run {r}, seed {seed}"}, repr(ex)))
                continue
            evals += p.pairs
            distinct += len(p.distinct)
            for (lab, xs, d) in p.violations[:1]:
                viol.append((f"{cls.__name__}.solve/{lab}", {"matrix": m if n <= 9 else f"{n} cities, run {r}, seed {seed}", "x": xs}, repr(d)))
            if len(samples) < 3:
                samples.append({"algo": cls.__name__, "n": n, "pairs_registered": p.pairs, "last_y": p.last})
    return {"name": "tsp_solve_monitor", "evaluations": evals, "distinct_nontrivial": distinct,
            "rule": "random symmetric matrices n in 4..9 (two runs: n = 2 and n = 3) and n in 127..257 (storage-type boundaries), both solve() methods, budgets of 400 and (every third small instance) 3200 FEs in quick, every register(x, y) call checked "
                    "(permutation, exact length, EA monotone, y within [0, upper bound]); distinct = distinct tours registered",
            "samples": samples, "violations": viol, "exhaustive": False}
