"""Bounded stand-ins for dynamic-control properties."""
import random

import numpy as np


def harness_min_ann(tier, seed):
    """C16, min_ann controllers (iterative bracket / golden-ratio search, out of deductive reach): on a grid of states and
    parameter vectors (zeros, ones, extreme, random) the result is finite, inside the search interval [-1000, 1000],
    deterministic, and neither state nor params are modified."""
    from moptipyapps.dynamic_control.controllers.min_ann import min_anns

    class S:
        def __init__(self, sd):
            self.state_dims, self.control_dims = sd, 1
    rng = random.Random(seed + 160)
    viol, samples = [], []
    evals, distinct = 0, set()
    reps = 40 if tier == "quick" else 600
    for sd in (2, 3):
        for ctrl in min_anns(S(sd)):
            pd = ctrl.param_dims
            for r in range(reps):
                mode = r % 5
                if mode == 0:
                    params = np.zeros(pd)
                elif mode == 1:
                    params = np.ones(pd) * rng.choice([1.0, -1.0, 1e-9, 1e6])
                else:
                    params = np.array([rng.uniform(-3, 3) * rng.choice([1, 1, 10, 1e-3]) for _ in range(pd)])
                state = np.array([rng.uniform(-5, 5) for _ in range(sd)]) if mode != 0 else np.zeros(sd)
                s0, p0 = state.copy(), params.copy()
                out = np.full(1, np.nan)
                out2 = np.full(1, np.nan)
                ctrl.controller(state, 0.0, params, out)
                ctrl.controller(state, 0.0, params, out2)
                evals += 1
                distinct.add((ctrl.name, sd, tuple(np.round(p0, 6)), tuple(np.round(s0, 6))))
                info = {"controller": ctrl.name, "state_dims": sd, "state": s0.tolist(), "params": p0.tolist()}
                if not np.isfinite(out[0]) or not (-1000.0 <= out[0] <= 1000.0):
                    viol.append((f"{ctrl.name}_{sd}d/finite-in-search-interval", info, f"out={out[0]}"))
                if out[0] != out2[0]:
                    viol.append((f"{ctrl.name}_{sd}d/deterministic", info, f"{out[0]} then {out2[0]}"))
                if not (np.array_equal(state, s0) and np.array_equal(params, p0)):
                    viol.append((f"{ctrl.name}_{sd}d/inputs-modified", info, "state or params changed"))
                if len(samples) < 2:
                    samples.append({**info, "out": float(out[0])})
    # ---- the three pre-defined laws (predefined.py), including their guarded divisions: a divisor of exactly zero is
    # replaced by the argument 1.0 of the surrounding function - the factor in front stays
    import math
    from moptipyapps.dynamic_control.controllers.predefined import predefined

    def th(v):
        return math.tanh(v)

    def ref_law(name, s_, p_):
        if name == "cornejo_maceda":
            z = th(s_[0] - s_[1])
            for b in p_[:3]:
                z = th(1.0 if b == 0 else z / b)
            return z
        if name == "table_3_1_ga":
            return s_[0] * p_[0] + s_[1] * p_[1]
        if name == "table_3_1_lgpc":
            a = s_[0] * p_[0] + p_[1]
            return p_[2] * math.sin((p_[3] / a) if a != 0.0 else 1.0)
        return None
    for sd in (2, 3):
        for ctrl in predefined(S(sd)):
            pd = ctrl.param_dims
            for r in range(60 if tier == "quick" else 2000):
                params = np.array([rng.uniform(-3, 3) for _ in range(pd)])
                state = np.array([rng.uniform(-5, 5) for _ in range(sd)])
                mode = r % 6
                if r < 2 ** pd:                       # every zero / non-zero pattern of the parameters once
                    for b_ in range(pd):
                        if (r >> b_) & 1:
                            params[b_] = 0.0
                    mode = 5
                if mode == 0:
                    params[:] = 0.0
                elif mode == 1:
                    params[rng.randrange(pd)] = 0.0
                elif mode == 2 and pd >= 2:           # exactly cancelling: s0 * p0 + p1 == 0 with small integers
                    state[0], params[0], params[1] = 2.0, 3.0, -6.0
                elif mode == 3:
                    state[:] = 0.0
                    if pd >= 2:
                        params[1] = 0.0
                want = ref_law(ctrl.name, state.tolist(), params.tolist())
                if want is None:
                    continue
                s0, p0 = state.copy(), params.copy()
                out = np.full(1, np.nan)
                info = {"controller": ctrl.name, "state": s0.tolist(), "params": p0.tolist()}
                try:
                    ctrl.controller(state, 0.0, params, out)
                except Exception as ex:     # noqa: BLE001  (e.g. ZeroDivisionError out of the compiled kernel)
                    viol.append((f"predefined/{ctrl.name}/raises", info, repr(ex)))
                    continue
                evals += 1
                if not (out[0] == want or abs(out[0] - want) <= 1e-9 * max(1.0, abs(want))):
                    viol.append((f"predefined/{ctrl.name}/documented-law", info, f"out={float(out[0])}, law gives {want}"))
                if not (np.array_equal(state, s0) and np.array_equal(params, p0)):
                    viol.append((f"predefined/{ctrl.name}/inputs-modified", info, "state or params changed"))
    seen = set()
    viol = [v for v in viol if not (v[0] in seen or seen.add(v[0]))]
    return {"name": "min_ann", "evaluations": evals, "distinct_nontrivial": len(distinct),
            "rule": "6 min_ann controllers x (zero / constant / random parameter vectors, random states): finite, within "
                    "[-1000, 1000], repeatable, inputs unmodified; the three pre-defined laws against their formulas incl. zero "
                    "and exactly cancelling divisors; distinct = distinct (controller, params, state)",
            "samples": samples, "violations": viol, "exhaustive": False}
