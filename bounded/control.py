"""Bounded stand-ins for dynamic-control properties."""
import random

import numpy as np


def harness_min_ann(tier, seed):
    """C16, min_ann controllers (iterative bracket / golden-ratio search, out of deductive reach): on a grid of states and
    parameter vectors (zeros, ones, extreme, random) the result is finite, inside the search interval [-1000, 1000],
    deterministic, and neither state nor params are modified."""
    from moptipyapps.dynamic_control.controllers.min_ann import min_anns

    class S:
        def __init__(self, sd):
            self.state_dims, self.control_dims = sd, 1
    rng = random.Random(seed + 160)
    viol, samples = [], []
    evals, distinct = 0, set()
    reps = 40 if tier == "quick" else 600
    for sd in (2, 3):
        for ctrl in min_anns(S(sd)):
            pd = ctrl.param_dims
            for r in range(reps):
                mode = r % 5
                if mode == 0:
                    params = np.zeros(pd)
                elif mode == 1:
                    params = np.ones(pd) * rng.choice([1.0, -1.0, 1e-9, 1e6])
                else:
                    params = np.array([rng.uniform(-3, 3) * rng.choice([1, 1, 10, 1e-3]) for _ in range(pd)])
                state = np.array([rng.uniform(-5, 5) for _ in range(sd)]) if mode != 0 else np.zeros(sd)
                s0, p0 = state.copy(), params.copy()
                out = np.full(1, np.nan)
                out2 = np.full(1, np.nan)
                ctrl.controller(state, 0.0, params, out)
                ctrl.controller(state, 0.0, params, out2)
                evals += 1
                distinct.add((ctrl.name, sd, tuple(np.round(p0, 6)), tuple(np.round(s0, 6))))
                info = {"controller": ctrl.name, "state_dims": sd, "state": s0.tolist(), "params": p0.tolist()}
                if not np.isfinite(out[0]) or not (-1000.0 <= out[0] <= 1000.0):
                    viol.append((f"{ctrl.name}_{sd}d/finite-in-search-interval", info, f"out={out[0]}"))
                if out[0] != out2[0]:
                    viol.append((f"{ctrl.name}_{sd}d/deterministic", info, f"{out[0]} then {out2[0]}"))
                if not (np.array_equal(state, s0) and np.array_equal(params, p0)):
                    viol.append((f"{ctrl.name}_{sd}d/inputs-modified", info, "state or params changed"))
                if len(samples) < 2:
                    samples.append({**info, "out": float(out[0])})
    seen = set()
    viol = [v for v in viol if not (v[0] in seen or seen.add(v[0]))]
    return {"name": "min_ann", "evaluations": evals, "distinct_nontrivial": len(distinct),
            "rule": "6 min_ann controllers x (zero / constant / random parameter vectors, random states): finite, within "
                    "[-1000, 1000], repeatable, inputs unmodified; distinct = distinct (controller, params, state)",
            "samples": samples, "violations": viol, "exhaustive": False}
