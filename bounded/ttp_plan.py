"""Bounded stand-ins for C08 and C15 (real code through its public API vs executable specifications).

C08: GamePlanLength.evaluate == tournament walk (start at home, go to away venues, stay/return home for home games,
return home at the end, bye penalty per day off) for random plans; within declared bounds; replacing any scheduled
game of a team by a day off strictly increases the value (ALL (day, team) positions of each sampled plan); and
EXHAUSTIVELY: the minimum plan length over all error-free 4-team double round-robin plans equals the published optimum
for circ4, con4, gal4, incr4, line4, nl4, sup4.

C15: search_space_for_n_and_rounds composition (every pairing exactly `rounds` times, home/away per pairing and per
team within one) EXHAUSTIVELY for 2 <= n <= 40 (quick: 24), rounds <= 9 (quick: 7) except (2, 1); map_games vs a
reference decoder (earliest common free day, else dropped) on random permutations of the game multiset."""
import random

import numba
import numpy as np


def walk_length(y, dist, bye):
    days, n = y.shape
    total = 0
    for t in range(n):
        loc = t
        for d in range(days):
            v = int(y[d, t])
            if v == 0:
                total += bye
                continue
            nxt = t if v > 0 else -v - 1
            if nxt != loc:
                total += int(dist[loc, nxt])
                loc = nxt
        if loc != t:
            total += int(dist[loc, t])
    return total


@numba.njit(cache=False)
def best_feasible(pats, days, dist, bye, hmin, hmax, amin, amax, smin, smax, t1, t2, count_errors, game_plan_length):
    npat, n = pats.shape
    total = npat ** days
    y = np.zeros((days, n), np.int8)
    best = -1
    nfeas = 0
    for code in range(total):
        c = code
        for d in range(days):
            y[d, :] = pats[c % npat]
            c //= npat
        if count_errors(y, hmin, hmax, amin, amax, smin, smax, t1, t2) == 0:
            nfeas += 1
            ln = game_plan_length(y, dist, bye)
            if best < 0 or ln < best:
                best = ln
    return best, nfeas


def harness_c08(tier, seed):
    from bounded.ttp_errors import day_patterns
    from moptipyapps.ttp.errors import count_errors
    from moptipyapps.ttp.game_plan import GamePlan
    from moptipyapps.ttp.instance import Instance
    from moptipyapps.ttp.plan_length import GamePlanLength, game_plan_length
    rng = random.Random(seed + 8)
    viol, samples = [], []
    evals, distinct = 0, set()
    # ---- optimum clause: exhaustive over all consistent 4-team plans
    pats = day_patterns(4)
    for name in ("circ4", "con4", "gal4", "incr4", "line4", "nl4", "sup4"):
        inst = Instance.from_resource(name)
        obj = GamePlanLength(inst)
        days = (inst.n_cities - 1) * inst.rounds
        t1 = np.empty(6, np.int8)
        t2 = np.empty((4, 4), np.int8)
        best, nfeas = best_feasible(pats, days, np.array(inst), obj.bye_penalty, inst.home_streak_min, inst.home_streak_max,
                                    inst.away_streak_min, inst.away_streak_max, inst.separation_min, inst.separation_max,
                                    t1, t2, count_errors, game_plan_length)
        lo, hi = inst.get_optimal_plan_length_bounds()
        evals += 12 ** days
        if not (lo == hi == best):
            viol.append((f"optimum/{name}", {"instance": name}, f"exhaustive minimum over {nfeas} error-free plans is {best}, "
                                                                 f"published bounds ({lo}, {hi})"))
        if len(samples) < 3:
            samples.append({"instance": name, "error_free_plans": int(nfeas), "minimum_length": int(best), "published": [lo, hi]})
    # ---- walk model, bounds, bye clause
    nplans = 150 if tier == "quick" else 2500
    insts = [Instance.from_resource(nm) for nm in ("circ4", "gal4", "con6", "nl6", "circ8")]
    # an asymmetric distance matrix (one-way legs of very different length): the bye penalty must still exceed any detour
    asym = np.array([[0, 1, 10, 2], [9, 0, 1, 10], [1, 8, 0, 1], [10, 1, 9, 0]], np.int64)
    try:
        insts.append(Instance("asym4", asym, ["a", "b", "c", "d"], 2, 1, 3, 1, 3, 1, 6))
    except Exception as ex:
        viol.append(("asymmetric-instance/raises", {"matrix": asym.tolist()}, repr(ex)))
    # tournaments that are not double round-robins (all bundled instances have two rounds): one and three rounds
    for rounds_ in (1, 3):
        try:
            insts.append(Instance("asym4", asym, ["a", "b", "c", "d"], rounds_, 1, 3, 1, 3, 1, 3))
        except Exception as ex:
            viol.append(("generated-instance/raises", {"rounds": rounds_}, repr(ex)))
    # small one-way distances: the matrix is stored in the narrowest integer type (int8 here), while a team with all
    # days off collects 3 x (2 * 25 + 1) = 153 in penalties - sums are not bounded by what the matrix type holds
    small = np.array([[0, 25, 1, 1], [1, 0, 1, 1], [1, 1, 0, 1], [1, 1, 1, 0]], np.int64)
    try:
        insts.append(Instance("asym4", small, ["a", "b", "c", "d"], 1, 1, 3, 1, 3, 1, 3))
        insts.append(Instance("asym4", small * 5, ["a", "b", "c", "d"], 2, 1, 3, 1, 3, 1, 6))
    except Exception as ex:
        viol.append(("generated-instance/raises", {"matrix": small.tolist()}, repr(ex)))
    for k_plan in range(nplans):
        inst = insts[-1 - (k_plan % 4)] if k_plan < 24 else rng.choice(insts)
        n = inst.n_cities
        days = (n - 1) * inst.rounds
        obj = GamePlanLength(inst)
        y = GamePlan(inst)
        pp = day_patterns(n) if n <= 6 else None
        mode = rng.random()
        for d in range(days):
            if pp is not None and mode < 0.7:
                y[d, :] = pp[rng.randrange(len(pp))]
            else:
                for t in range(n):
                    y[d, t] = rng.randint(-n, n)
        if k_plan % 6 == 0:
            y.fill(0)                 # every team has every day off: the largest value a plan can have
        elif k_plan % 6 == 3:
            for d in range(days):     # mostly days off
                for t in range(n):
                    if rng.random() < 0.8:
                        y[d, t] = 0
        if int(obj.bye_penalty) != 2 * int(np.array(inst).max()) + 1:
            viol.append(("bye-penalty", {"instance": inst.name}, f"bye_penalty={obj.bye_penalty}, 2*max+1={2 * int(np.array(inst).max()) + 1}"))
        val = int(obj.evaluate(y))
        evals += 1
        distinct.add((inst.name, y.tobytes()))
        ref = walk_length(y, inst, obj.bye_penalty)
        info = {"instance": inst.name, "plan": np.array(y).tolist()}
        if val != ref:
            viol.append(("walk-model", info, f"evaluate={val} tournament walk={ref}"))
        if not (obj.lower_bound() <= val <= obj.upper_bound()):
            viol.append(("bounds", info, f"{val} not in [{obj.lower_bound()}, {obj.upper_bound()}]"))
        for d in range(days):
            for t in range(n):
                if y[d, t] != 0:
                    keep = int(y[d, t])
                    y[d, t] = 0
                    v2 = int(obj.evaluate(y))
                    y[d, t] = keep
                    evals += 1
                    if not v2 > val:
                        viol.append(("bye-strictly-increases", {**info, "day": d, "team": t}, f"{val} -> {v2}"))
    seen = set()
    viol = [v for v in viol if not (v[0] in seen or seen.add(v[0]))]
    return {"name": "ttp_plan_length", "evaluations": evals, "distinct_nontrivial": len(distinct),
            "rule": "optimum clause: ALL 12^6 consistent 4-team plans per instance (7 instances), minimum over the error-free "
                    "ones vs the published optimum (exhaustive); walk model / bounds on random plans (consistent and arbitrary "
                    "entries in -n..n, all-days-off and mostly-days-off plans) of 5 bundled instances and generated asymmetric ones with 1, 2 and 3 rounds; bye clause on every (day, team) position of each such plan",
            "samples": samples, "violations": viol, "exhaustive": True}


def ref_map_games(x, days, n):
    y = np.zeros((days, n), np.int64)
    for g in x:
        g = int(g)
        home = (g // (n - 1)) % n
        away = g % (n - 1)
        if away >= home:
            away += 1
        for d in range(days):
            if y[d, home] == 0 and y[d, away] == 0:
                y[d, home] = away + 1
                y[d, away] = -(home + 1)
                break
    return y


def harness_c15(tier, seed):
    from moptipyapps.ttp.game_encoding import map_games, search_space_for_n_and_rounds
    rng = random.Random(seed + 15)
    viol, samples = [], []
    evals, distinct = 0, 0
    nmax, rmax = (24, 7) if tier == "quick" else (40, 9)
    for n in range(2, nmax + 1):
        for rounds in range(1, rmax + 1):
            if (n, rounds) == (2, 1):
                continue
            sp = search_space_for_n_and_rounds(n, rounds)
            games = [int(v) for v in sp.blueprint]
            evals += 1
            distinct += 1
            pair = {}
            home = [0] * n
            away = [0] * n
            bad = None
            for g in games:
                h = (g // (n - 1)) % n
                a = g % (n - 1)
                if a >= h:
                    a += 1
                if not (0 <= g < n * (n - 1)) or h == a:
                    bad = f"game id {g} does not decode to two different teams"
                pair[(h, a)] = pair.get((h, a), 0) + 1
                home[h] += 1
                away[a] += 1
            for i in range(n):
                for j in range(i):
                    tot = pair.get((i, j), 0) + pair.get((j, i), 0)
                    if tot != rounds:
                        bad = f"pairing ({i},{j}) occurs {tot} times, rounds={rounds}"
                    if abs(pair.get((i, j), 0) - pair.get((j, i), 0)) > 1:
                        bad = f"pairing ({i},{j}) home/away {pair.get((i, j), 0)}/{pair.get((j, i), 0)}"
            for t in range(n):
                if abs(home[t] - away[t]) > 1:
                    bad = f"team {t}: {home[t]} home vs {away[t]} away games"
            if bad:
                viol.append(("search-space-composition", {"n": n, "rounds": rounds, "games": games[:60]}, bad))
            if len(samples) < 2 and n == 4:
                samples.append({"n": n, "rounds": rounds, "games": games})
            # decode random permutations of the multiset
            if n <= 10 and rounds <= 3:
              # destination shapes: the one of the game-plan space ((n - 1) * rounds days - for odd n some games must then be
              # dropped), enough days for a full odd-n tournament, and a short plan that forces drops
              day_options = sorted({(n - 1) * rounds, n * rounds if n % 2 else (n - 1) * rounds, max(1, (n - 1) * rounds - 2)})
              for days in day_options:
                for _ in range(3 if tier == "quick" else 20):
                    x = games[:]
                    rng.shuffle(x)
                    xa = np.array(x, dtype=sp.dtype)
                    y = np.full((days, n), 99, np.int8)
                    map_games(xa, y)
                    ref = ref_map_games(x, days, n)
                    evals += 1
                    distinct += 1
                    if not np.array_equal(y, ref):
                        viol.append(("decode-vs-earliest-slot-reference", {"n": n, "rounds": rounds, "x": x, "got": y.tolist(),
                                                                             "reference": ref.tolist()}, "plans differ"))
                    # never more often than the permutation contains it
                    cnt = {}
                    for d in range(days):
                        for t in range(n):
                            if y[d, t] > 0:
                                cnt[(t, int(y[d, t]) - 1)] = cnt.get((t, int(y[d, t]) - 1), 0) + 1
                    for k_, c in cnt.items():
                        if c > pair.get(k_, 0):
                            viol.append(("scheduled-more-often-than-contained", {"n": n, "rounds": rounds, "x": x}, f"{k_}: {c}"))
    # ---- long tournaments: 128 days and more (the plan dtype int8 holds team ids, not day counts)
    for (n, rounds) in ((4, 43), (3, 100), (4, 90), (10, 15)):
        sp = search_space_for_n_and_rounds(n, rounds)
        games = [int(v) for v in sp.blueprint]
        days = (n - 1) * rounds if n % 2 == 0 else n * rounds
        x = games[:]
        rng.shuffle(x)
        y = np.full((days, n), 99, np.int8)
        map_games(np.array(x, dtype=sp.dtype), y)
        ref = ref_map_games(x, days, n)
        evals += 1
        distinct += 1
        if not np.array_equal(y, ref):
            placed = int((y > 0).sum())
            viol.append(("decode-vs-earliest-slot-reference/long-tournament", {"n": n, "rounds": rounds, "days": days},
                         f"{placed} games scheduled, reference schedules {int((ref > 0).sum())}"))
    # ---- many teams: every n from 11 to 130 (thorough: 200), one round, the sorted blueprint and one shuffled permutation,
    # against a vectorised earliest-slot reference (integer arithmetic only)
    def ref_fast(x, days, n):
        y = np.zeros((days, n), np.int64)
        for g in x:
            g = int(g)
            home = (g // (n - 1)) % n
            away = g % (n - 1)
            if away >= home:
                away += 1
            free = np.flatnonzero((y[:, home] == 0) & (y[:, away] == 0))
            if len(free):
                y[free[0], home] = away + 1
                y[free[0], away] = -(home + 1)
        return y
    for n in range(11, 131 if tier == "quick" else 201):
        sp = search_space_for_n_and_rounds(n, 1)
        games = [int(v) for v in sp.blueprint]
        days = n - 1 if n % 2 == 0 else n
        for shuffled in (False, True):
            x = games[:]
            if shuffled:
                rng.shuffle(x)
            y = np.full((days, n), 99, np.int8 if n <= 127 else np.int16)
            map_games(np.array(x, dtype=sp.dtype), y)
            ref = ref_fast(x, days, n)
            evals += 1
            distinct += 1
            if not np.array_equal(y, ref):
                dd, tt = np.argwhere(y != ref)[0]
                viol.append(("decode-vs-earliest-slot-reference/many-teams", {"n": n, "rounds": 1, "shuffled": shuffled, "seed": seed},
                             f"first difference on day {dd}, team {tt}: got {int(y[dd, tt])}, reference {int(ref[dd, tt])}"))
                break
    # ---- day counts around machine-word sizes (31..33, 63..65 days), two teams and more
    for (n, rounds, days) in [(2, d_, d_) for d_ in (31, 32, 33, 63, 64, 65)] + [(5, 16, 64), (9, 8, 64), (17, 4, 64), (3, 11, 32)]:
        sp = search_space_for_n_and_rounds(n, rounds)
        x = [int(v) for v in sp.blueprint]
        rng.shuffle(x)
        y = np.full((days, n), 99, np.int8)
        map_games(np.array(x, dtype=sp.dtype), y)
        ref = ref_fast(x, days, n)
        evals += 1
        distinct += 1
        if not np.array_equal(y, ref):
            viol.append(("decode-vs-earliest-slot-reference/day-count-boundary", {"n": n, "rounds": rounds, "days": days, "x": x[:80]},
                         f"{int((y > 0).sum())} games scheduled, reference schedules {int((ref > 0).sum())}"))
    seen = set()
    viol = [v for v in viol if not (v[0] in seen or seen.add(v[0]))]
    return {"name": "ttp_game_encoding", "evaluations": evals, "distinct_nontrivial": distinct,
            "rule": f"search space composition for ALL 2 <= n <= {nmax}, 1 <= rounds <= {rmax} except (2,1) (exhaustive in that "
                    "range); map_games vs earliest-slot reference decoder and multiplicity clause on random permutations of "
                    "the game multiset for n <= 10, rounds <= 3; one-round tournaments of every n in 11..130 (sorted and shuffled permutation)",
            "samples": samples, "violations": viol, "exhaustive": True}
