"""Bounded stand-in for C11: interleaving monitor for FigureOfMerit / FigureOfMeritLE.

For random sequences of evaluate(x) (well-behaved and diverging x), initialize(), set_model(m), set_raw() and
get_differentials() on ONE objective object: every real-system evaluate(x) returns exactly what a freshly created
objective returns for x; values are in [0, 1e100] or 1e200; equal the mean (LE: expm1(mean(log1p(J)))) of the per-case
figures of merit recomputed independently; the collected training data grows exactly by the rows of each
real-system evaluation, is unchanged by model-mode evaluations and by get_differentials(), and is cleared by
initialize().  Systems: Stuart-Landau and Lorenz with shortened training settings; controllers: linear, an ANN."""
import math
import random

import numpy as np


def harness(tier, seed):
    from moptipyapps.dynamic_control.controllers.ann import anns
    from moptipyapps.dynamic_control.controllers.linear import linear
    from moptipyapps.dynamic_control.instance import Instance
    from moptipyapps.dynamic_control.objective import FigureOfMerit, FigureOfMeritLE
    from moptipyapps.dynamic_control.ode import j_from_ode, run_ode
    from moptipyapps.dynamic_control.system import System
    from moptipyapps.dynamic_control.systems.lorenz import LORENZ_4
    from moptipyapps.dynamic_control.systems.stuart_landau import STUART_LANDAU_4
    rng = random.Random(seed + 11)
    viol, samples = [], []
    evals, distinct = 0, set()
    slow = []

    def short(sys_, steps, time_, sdj=None, gamma=None):
        # (the bundled Stuart-Landau and Lorenz systems both have gamma = 0.1, which is also the default of j_from_ode, and
        # all state dimensions in J: the Lorenz variant below deviates in both, so that a dropped argument shows)
        s = System(sys_.name, sys_.state_dims, sys_.control_dims, sys_.state_dim_mod,
                   sys_.state_dims_in_j if sdj is None else sdj, sys_.gamma if gamma is None else gamma,
                   sys_.test_starting_states, sys_.training_starting_states[:3], 50, time_, steps, time_)
        s.equations = sys_.equations
        return s

    pairs = []
    for base in (STUART_LANDAU_4, LORENZ_4):
        s = short(base, 120, 5.0) if base is STUART_LANDAU_4 else short(base, 120, 5.0, 2, 0.7)
        pairs.append((s, linear(s)))
        pairs.append((s, list(anns(s))[0]))

    def model_eq(state, t, control, out):       # a surrogate "model" of the system: plain decay, bounded control influence
        for k in range(len(out)):
            out[k] = -0.5 * state[k]
        out[-1] += math.tanh(control[0])

    def model_eq2(state, t, control, out):      # a second, different surrogate
        for k in range(len(out)):
            out[k] = -0.25 * state[k] + 0.01 * control[0]

    def independent_for(system_, ctrl_, x_):
        rows_ = 0
        for start in system_.training_starting_states:
            ode = run_ode(np.array(start), system_.equations, ctrl_.controller, x_, ctrl_.control_dims,
                          system_.training_steps, system_.training_time)
            rows_ += len(ode) - 1
        return None, rows_

    n_seq = 11 if tier == "quick" else 47      # seven scripted histories, the rest random
    for (system, ctrl) in pairs:
        inst = Instance(system, ctrl)
        for cls in (FigureOfMerit, FigureOfMeritLE):
            def fresh_value(x):
                f = cls(inst, True)
                f.initialize()
                return f.evaluate(x.copy())

            def independent(x):
                js = []
                for start in system.training_starting_states:
                    ode = run_ode(np.array(start), system.equations, ctrl.controller, x, ctrl.control_dims,
                                  system.training_steps, system.training_time)
                    z = j_from_ode(ode, system.state_dims, system.state_dims_in_j, system.gamma)
                    if not (0.0 <= z <= 1e100):
                        return 1e200, None
                    js.append((z, len(ode) - 1))
                if not js:
                    return 1e200, None
                if cls is FigureOfMerit:
                    v = float(np.mean([z for z, _ in js]))
                else:
                    v = float(math.expm1(np.mean([math.log1p(z) for z, _ in js])))
                return (v if 0.0 <= v <= 1e100 else 1e200), sum(r for _, r in js)
            for sq in range(n_seq):
                obj = cls(inst, True)
                # (the fourth scripted history uses the objective as constructed, without an initialize() first: a new
                # object is in real-system mode and records data from its first evaluation on)
                if sq != 3:
                    obj.initialize()
                mode = "raw"
                collected = 0
                trace = []
                # a few scripted histories first (each clause of the statement about the collected data is exercised on
                # every run, whatever the seed), then random ones
                scripts = [["eval", "init", "eval", "get_diff"],
                           ["eval", "set_model", "eval", "set_raw", "eval", "get_diff"],
                           ["eval", "get_diff", "eval", "get_diff", "init", "eval", "get_diff"],
                           ["eval", "get_diff", "set_model", "eval", "set_raw", "eval", "get_diff"],
                           ["eval", "set_model", "eval", "set_model2", "eval", "set_raw", "eval", "get_diff", "set_model2", "set_model",
                            "init", "eval", "get_diff"],
                           # a surrogate switched in before anything was recorded, then initialize(): back on the real system
                           ["set_model", "init", "eval", "get_diff", "set_model", "eval", "init", "eval", "get_diff"],
                           # a diverging parameter vector (every training case fails) between two ordinary evaluations
                           ["eval", "eval_div", "get_diff", "eval", "eval_div", "eval_div", "get_diff"]]
                if sq < len(scripts):
                    ops = scripts[sq]
                else:
                    ops = [rng.choice(["eval", "eval", "eval", "set_model", "set_raw", "get_diff", "init"])
                           for _ in range(rng.randint(4, 9))]
                for op in ops:
                    trace.append(op)
                    info = {"system": system.name, "controller": ctrl.name, "objective": cls.__name__, "trace": list(trace)}
                    if op in ("eval", "eval_div"):
                        # 1e30: every training case fails at once (the result must be the failure value 1e200)
                        scale = rng.choice([0.1, 1.0, 3.0, 10.0, 1e30]) if sq >= len(scripts) else rng.choice([0.1, 1.0])
                        if op == "eval_div":
                            scale = 1e30
                        x = np.array([rng.uniform(-1, 1) * scale for _ in range(ctrl.param_dims)])
                        info["x"] = x.tolist()
                        import signal

                        def _alarm(*_a):
                            raise TimeoutError()
                        signal.signal(signal.SIGALRM, _alarm)
                        signal.setitimer(signal.ITIMER_REAL, 20.0)
                        try:
                            v = obj.evaluate(x.copy())
                        except TimeoutError:
                            slow.append(info)
                            break       # the object is in an undefined state after the interrupt: abandon this sequence
                        finally:
                            signal.setitimer(signal.ITIMER_REAL, 0.0)
                        evals += 1
                        distinct.add((system.name, ctrl.name, cls.__name__, tuple(trace), tuple(x.tolist())))
                        if not ((0.0 <= v <= 1e100) or v == 1e200):
                            viol.append(("value-range", info, f"evaluate={v}"))
                        if mode == "raw":
                            want = fresh_value(x)
                            ind, rows = independent(x)
                            if v != want:
                                viol.append(("differs-from-fresh-objective", info, f"{v} vs fresh {want}"))
                            if not (v == ind or abs(v - ind) <= 1e-9 * max(1.0, abs(ind))):
                                viol.append(("differs-from-documented-aggregate", info, f"{v} vs recomputed {ind}"))
                            if rows is not None:
                                collected += rows
                    elif op == "set_model":
                        obj.set_model(model_eq)
                        mode = "model"
                    elif op == "set_model2":      # another surrogate while one is already active
                        obj.set_model(model_eq2)
                        mode = "model"
                    elif op == "set_raw":
                        obj.set_raw()
                        mode = "raw"
                    elif op == "init":
                        obj.initialize()
                        mode = "raw"
                        collected = 0
                    elif op == "get_diff" and collected > 0:
                        sc, df = obj.get_differentials()
                        sc2, df2 = obj.get_differentials()
                        if len(sc) != collected or len(df) != collected:
                            viol.append(("collected-data-size", info, f"{len(sc)} rows collected, {collected} rows simulated on the real system"))
                        if not (np.array_equal(sc, sc2) and np.array_equal(df, df2)):
                            viol.append(("get_differentials-changes-data", info, "second call differs"))
                if len(samples) < 2:
                    samples.append({"system": system.name, "controller": ctrl.name, "objective": cls.__name__, "trace": trace})
    # ---- the aggregation on its own: many training cases (the bundled *_111 systems have 111) and large per-case values;
    # mean, and expm1(mean(log1p(J))) which must not be computed through the product of the (J + 1)
    for cls in (FigureOfMerit, FigureOfMeritLE):
        obj = cls(Instance(pairs[0][0], pairs[0][1]), False)
        for arr in ([800.0] * 111, [770.0 + k for k in range(111)], [1e100] * 4, [0.0] * 5, [1e-12, 1e90, 3.0], [5.0],
                    [1e3 * (k + 1) for k in range(400)]):
            a_ = np.array(arr, dtype=float)
            try:
                got = float(obj.sum_up_results(a_.copy()))
            except Exception as ex:     # noqa: BLE001
                viol.append(("aggregate/raises", {"objective": cls.__name__, "results": arr[:8], "n": len(arr)}, repr(ex)))
                continue
            evals += 1
            want = math.fsum(arr) / len(arr) if cls is FigureOfMerit else math.expm1(math.fsum(math.log1p(v) for v in arr) / len(arr))
            if not (abs(got - want) <= 1e-9 * max(1.0, abs(want))):
                viol.append(("aggregate/documented-formula", {"objective": cls.__name__, "results": arr[:8], "n": len(arr)},
                             f"sum_up_results={got}, documented aggregate {want}"))
    # ---- a long record: several real-system evaluations with many rows each (more than 300 000 rows in total) are all
    # kept, and stay the same over a switch to a surrogate and back
    try:
        base = STUART_LANDAU_4
        big_steps = 30001 if tier == "quick" else 60001
        sb = System(base.name, base.state_dims, base.control_dims, base.state_dim_mod, base.state_dims_in_j, base.gamma,
                    base.test_starting_states, base.training_starting_states[:3], 50, 2.0, big_steps, 2.0)
        sb.equations = base.equations
        cb = linear(sb)
        ob = FigureOfMerit(Instance(sb, cb), True)
        ob.initialize()
        rows_total = 0
        first = None
        for k_ in range(4):
            xk = np.array([0.01 * (k_ + 1)] * cb.param_dims)
            ob.evaluate(xk)
            evals += 1
            _v, r_ = independent_for(sb, cb, xk)
            rows_total += r_
            if k_ == 1:
                sc_, df_ = ob.get_differentials()
                first = (sc_[0].copy(), df_[0].copy())
                ob.set_model(model_eq)
                ob.evaluate(xk)
                ob.set_raw()
        sc_, df_ = ob.get_differentials()
        info = {"system": sb.name, "rows_per_training_case": big_steps - 1, "real_evaluations": 4}
        if len(sc_) != rows_total or len(df_) != rows_total:
            viol.append(("collected-data-size/long-record", info, f"{len(sc_)} rows kept, {rows_total} rows simulated on the real system"))
        elif first is not None and not (np.array_equal(sc_[0], first[0]) and np.array_equal(df_[0], first[1])):
            viol.append(("collected-data-changed/long-record", info, "the first recorded row is no longer the first"))
    except Exception as ex:     # noqa: BLE001
        import traceback
        viol.append(("long-record/raises", {}, repr(ex) + traceback.format_exc(limit=3)[-300:]))
    seen = set()
    viol = [v for v in viol if not (v[0] in seen or seen.add(v[0]))]
    return {"name": "figure_of_merit_interleaving", "evaluations": evals, "distinct_nontrivial": len(distinct),
            "rule": "2 systems (3 training cases, 120 steps, time 5) x 2 controllers x 2 objective variants x random operation "
                    "sequences of length 4..9 over {evaluate(x) with |x| scale 0.1..10, set_model, set_raw, get_differentials, "
                    "initialize}; every real-system value compared with a fresh object and with an independent recomputation; "
                    "collected rows accounted exactly; distinct = distinct (configuration, trace prefix, x)",
            "samples": samples, "violations": viol, "exhaustive": False,
            "slow_evaluations_abandoned": len(slow)}
