"""Bounded stand-ins for C20.

 - swap_distance(p, q) == minimum number of transpositions turning p into q (breadth-first search over the Cayley
   graph), EXHAUSTIVELY for all permutations of length <= 7 against the identity, plus relabelled pairs (the
   distance is invariant under simultaneous relabelling, which is itself checked on samples);
 - Instance.from_sequence_and_distance on generated integer sequences with duplicates and ties: zero-distance objects
   merged, every original object mapped to the index of its representative, distances |i - j|, flows zero on the
   diagonal and beyond the horizon, equal for equally distant neighbours, monotone in the distance."""
import itertools
import random

import numpy as np


def bfs_distances(n):
    start = tuple(range(n))
    dist = {start: 0}
    frontier = [start]
    while frontier:
        nxt = []
        for p in frontier:
            for i in range(n):
                for j in range(i):
                    q = list(p)
                    q[i], q[j] = q[j], q[i]
                    q = tuple(q)
                    if q not in dist:
                        dist[q] = dist[p] + 1
                        nxt.append(q)
        frontier = nxt
    return dist


def harness(tier, seed):
    from moptipyapps.order1d.distances import swap_distance
    from moptipyapps.order1d.instance import Instance
    rng = random.Random(seed + 20)
    viol, samples = [], []
    evals, distinct = 0, 0
    nmax = 6 if tier == "quick" else 7
    for n in range(1, nmax + 1):
        dist = bfs_distances(n)
        ident = np.arange(n)
        for p, d in dist.items():
            pa = np.array(p)
            got = int(swap_distance(ident, pa))
            got2 = int(swap_distance(pa, ident))
            evals += 2
            distinct += 1
            if got != d or got2 != d:
                viol.append(("swap-distance/minimum-transpositions", {"p1": list(range(n)), "p2": list(p)},
                             f"swap_distance={got}/{got2}, BFS minimum={d}"))
            if rng.random() < 0.05:      # relabelled pair: same distance
                r = list(range(n))
                rng.shuffle(r)
                a = np.array([r[v] for v in range(n)])
                b = np.array([r[v] for v in p])
                g3 = int(swap_distance(a, b))
                evals += 1
                if g3 != d:
                    viol.append(("swap-distance/pairs", {"p1": a.tolist(), "p2": b.tolist()}, f"swap_distance={g3}, minimum={d}"))
    # ---- instances from sequences
    reps = 120 if tier == "quick" else 1500
    tiny = [[0.0, 1e-13, 1.0, 1.0 + 2.0 ** -50, 3.0, 1e-13], [5e-324, 0.0, 1e-300, 2.0], [1e-14 * v for v in (3, 1, 4, 1, 5, 9, 2, 6)]]
    for rep_ in range(reps + len(tiny)):
        k = rng.randint(2, 9)
        data = [rng.randint(-6, 6) for _ in range(k)]
        kind = rng.choice(["abs", "absabs", "sq", "absabs+1"])
        if rep_ >= reps:
            # positions that differ by tiny but positive amounts: only a distance of exactly zero merges two objects
            data, kind = list(tiny[rep_ - reps]), "abs"
        # "absabs+1" is the distance function of the package's own doc-string example: positive everywhere, also for an
        # object and itself - nothing may be merged then, not even the same object occurring twice
        fdist = {"abs": lambda a, b: abs(a - b), "absabs": lambda a, b: abs(abs(a) - abs(b)),
                 "sq": lambda a, b: (a - b) ** 2 / 2.0, "absabs+1": lambda a, b: abs(abs(a) - abs(b)) + 1}[kind]
        power = rng.choice([1, 2, 3, 1.5])
        horizon = rng.choice([1, 2, 3, 100])
        info = {"data": data, "distance": kind, "flow_power": power, "horizon": horizon}
        # representatives: first object of each zero-distance class (in order of appearance)
        reps_, where = [], []
        for v in data:
            for idx, rv in enumerate(reps_):
                if fdist(rv, v) <= 0:
                    where.append(idx)
                    break
            else:
                reps_.append(v)
                where.append(len(reps_) - 1)
        if len(reps_) < 2:
            continue
        try:
            inst = Instance.from_sequence_and_distance(list(data), fdist, power, horizon, ("t",), lambda o: f"x{o}")
        except Exception as ex:
            viol.append(("instance/raises", info, repr(ex)))
            continue
        evals += 1
        distinct += 1
        n = inst.n
        if n != len(reps_):
            viol.append(("instance/merge-zero-distance", info, f"n={n}, expected {len(reps_)} representatives {reps_}"))
            continue
        got_map = sorted((t[0][0], t[1]) for t in inst.tags)
        want_map = sorted((f"x{v}", w) for v, w in zip(data, where))
        if got_map != want_map:
            viol.append(("instance/representative-index", info, f"tags {got_map} expected {want_map}"))
        D = np.array(inst.distances).tolist()
        if D != [[abs(i - j) for j in range(n)] for i in range(n)]:
            viol.append(("instance/position-distance", info, f"distances {D}"))
        Fm = np.array(inst.flows)
        hz = min(n - 1, horizon)
        for i in range(n):
            if Fm[i, i] != 0:
                viol.append(("instance/flow-diagonal", info, f"flows[{i},{i}]={Fm[i, i]}"))
            ds = [fdist(reps_[i], reps_[j]) for j in range(n)]
            for j in range(n):
                if i == j:
                    continue
                # average rank of neighbour j among the row's n entries (the diagonal 0 is the smallest), minus one
                less = sum(1 for c in range(n) if ds[c] < ds[j])
                ties = sum(1 for c in range(n) if ds[c] == ds[j])
                f_rank = less + (ties + 1) / 2.0 - 1.0
                if f_rank > horizon and Fm[i, j] != 0:
                    viol.append(("instance/flow-beyond-horizon", info, f"flows[{i},{j}]={Fm[i, j]} at rank {f_rank} > {horizon}"))
                for c in range(n):
                    if c == i or c == j:
                        continue
                    if ds[c] == ds[j] and Fm[i, c] != Fm[i, j]:
                        viol.append(("instance/flow-ties-equal", info, f"row {i}: equal distances, flows {Fm[i, c]} vs {Fm[i, j]}"))
                    if ds[c] < ds[j] and Fm[i, c] < Fm[i, j]:
                        viol.append(("instance/flow-monotone", info, f"row {i}: nearer neighbour has smaller flow {Fm[i, c]} < {Fm[i, j]}"))
        if len(samples) < 2:
            samples.append({**info, "n": n, "flows": Fm.tolist()})
    # ---- instances whose size sits at the boundaries of the integer storage types (n - 1 and n around 127 / 128 / 255 / 256)
    big = [127, 128, 129, 255, 256, 257] if tier == "quick" else [100, 127, 128, 129, 130, 200, 255, 256, 257, 300, 513]
    for n in big:
        vals = rng.sample(range(-5 * n, 5 * n), n)
        data = list(vals) + [rng.choice(vals) for _ in range(7)]
        rng.shuffle(data)
        horizon = rng.choice([1, 3, n // 2, 10 * n])
        power = rng.choice([1, 2])
        info = {"n_distinct": n, "data_head": data[:12], "distance": "abs", "flow_power": power, "horizon": horizon, "seed": seed}
        reps_, where, pos = [], [], {}
        for v in data:
            if v not in pos:
                pos[v] = len(reps_)
                reps_.append(v)
            where.append(pos[v])
        try:
            inst = Instance.from_sequence_and_distance(list(data), lambda a, b: abs(a - b), power, horizon, ("t",), lambda o: f"x{o}")
        except Exception as ex:
            viol.append(("instance/raises", info, repr(ex)))
            continue
        evals += 1
        distinct += 1
        if inst.n != n:
            viol.append(("instance/merge-zero-distance", info, f"n={inst.n}, expected {n} representatives"))
            continue
        got_map = sorted((t[0][0], t[1]) for t in inst.tags)
        want_map = sorted((f"x{v}", w) for v, w in zip(data, where))
        if got_map != want_map:
            viol.append(("instance/representative-index", info, "tags differ from the representative indices (large instance)"))
        D = np.array(inst.distances).astype(object)
        ar = np.arange(n)
        want = np.abs(ar[:, None] - ar[None, :]).astype(object)
        if D.shape != (n, n) or not (D == want).all():
            bad = np.argwhere(D != want)[0] if D.shape == (n, n) else None
            viol.append(("instance/position-distance", info, f"distances differ from |i-j|, first at {None if bad is None else bad.tolist()}: "
                         f"{None if bad is None else D[bad[0], bad[1]]}"))
        Fm = np.array(inst.flows).astype(object)
        R = np.array(reps_, dtype=object)
        for i in range(n):
            if Fm[i, i] != 0:
                viol.append(("instance/flow-diagonal", info, f"flows[{i},{i}]={Fm[i, i]}"))
                break
            ds = np.abs(np.array([int(v) - int(R[i]) for v in R]))
            order = [j for j in np.argsort(ds, kind="stable").tolist() if j != i]
            for a, b in zip(order, order[1:]):      # consecutive in distance order: transitivity gives all pairs
                if ds[a] == ds[b] and Fm[i, a] != Fm[i, b]:
                    viol.append(("instance/flow-ties-equal", info, f"row {i}: equal distances, flows {Fm[i, a]} vs {Fm[i, b]}"))
                if ds[a] < ds[b] and Fm[i, a] < Fm[i, b]:
                    viol.append(("instance/flow-monotone", info, f"row {i}: nearer neighbour has smaller flow {Fm[i, a]} < {Fm[i, b]}"))
            for r_, j in enumerate(order):
                less = int((ds < ds[j]).sum())
                ties = int((ds == ds[j]).sum())
                f_rank = less + (ties + 1) / 2.0 - 1.0
                if f_rank > horizon and Fm[i, j] != 0:
                    viol.append(("instance/flow-beyond-horizon", info, f"flows[{i},{j}]={Fm[i, j]} at rank {f_rank} > {horizon}"))
                    break
    seen = set()
    viol = [v for v in viol if not (v[0] in seen or seen.add(v[0]))]
    return {"name": "order1d", "evaluations": evals, "distinct_nontrivial": distinct,
            "rule": f"swap_distance vs breadth-first minimum number of transpositions for ALL permutations of length 1..{nmax} "
                    "(exhaustive against the identity, relabelled pairs sampled); generated integer sequences with duplicates/ties "
                    "x 4 distance functions (one of them positive for identical objects) x flow powers x horizons for the instance clauses; "
                    "instances with 127..257 distinct objects (storage-type boundaries) for the same clauses",
            "samples": samples, "violations": viol, "exhaustive": True}
