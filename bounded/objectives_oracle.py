"""Bounded stand-in for C02 (and replay vehicle): all seven objective classes through their public API against an
independent recomputation from the statement (bin count; (bins-1)*scale + items / covered area / area under the
skyline of the last bin or of the least filled bin), declared bounds, to_bin_count, and strict dominance between
packings with different bin counts.  Packings: decoder outputs and arbitrary feasible layouts (rows shuffled,
sparse last bin).  Skyline: integral of the highest top over the bin width (column by column)."""
import random

import numpy as np


def oracle(rows, n_items, W, H):
    bins = sorted({r[1] for r in rows})
    k = max(bins)
    def cnt(b): return sum(1 for r in rows if r[1] == b)
    def area(b): return sum((r[4] - r[2]) * (r[5] - r[3]) for r in rows if r[1] == b)
    def sky(b):
        tot = 0
        for x in range(W):
            tot += max([r[5] for r in rows if r[1] == b and r[2] <= x < r[4]] + [0])
        return tot
    A = W * H
    return {
        "binCount": (k, k),
        "binCountAndLastEmpty": (n_items * (k - 1) + cnt(k), k),
        "binCountAndEmpty": (n_items * (k - 1) + min(cnt(b) for b in range(1, k + 1)), k),
        "binCountAndLastSmall": (A * (k - 1) + area(k), k),
        "binCountAndSmall": (A * (k - 1) + min(area(b) for b in range(1, k + 1)), k),
        "binCountAndLastSkyline": (A * (k - 1) + sky(k), k),
        "binCountAndLowestSkyline": (A * (k - 1) + min(A, min(sky(b) for b in range(1, k + 1))), k),
    }


def harness(tier, seed):
    from contracts.binpacking import rand_instance, rand_signed_perm
    from moptipyapps.binpacking2d.encodings.ibl_encoding_1 import ImprovedBottomLeftEncoding1
    from moptipyapps.binpacking2d.encodings.ibl_encoding_2 import ImprovedBottomLeftEncoding2
    from moptipyapps.binpacking2d.objectives.bin_count import BinCount
    from moptipyapps.binpacking2d.objectives.bin_count_and_empty import BinCountAndEmpty
    from moptipyapps.binpacking2d.objectives.bin_count_and_last_empty import BinCountAndLastEmpty
    from moptipyapps.binpacking2d.objectives.bin_count_and_last_skyline import BinCountAndLastSkyline
    from moptipyapps.binpacking2d.objectives.bin_count_and_last_small import BinCountAndLastSmall
    from moptipyapps.binpacking2d.objectives.bin_count_and_lowest_skyline import BinCountAndLowestSkyline
    from moptipyapps.binpacking2d.objectives.bin_count_and_small import BinCountAndSmall
    from moptipyapps.binpacking2d.packing import Packing
    from moptipyapps.binpacking2d.packing_result import from_packing_and_end_result
    from moptipy.evaluation.end_results import EndResult
    n_records = 0
    classes = [BinCount, BinCountAndLastEmpty, BinCountAndEmpty, BinCountAndLastSmall, BinCountAndSmall,
               BinCountAndLastSkyline, BinCountAndLowestSkyline]
    rng = random.Random(seed + 2)
    n_inst = 60 if tier == "quick" else 600
    evals, distinct, viol, samples = 0, set(), [], []
    from moptipyapps.binpacking2d.instance import Instance as _Inst
    # a few fixed instances whose optimum uses exactly lower_bound_bins bins with a nearly empty last bin (the declared
    # lower bounds are then attained) and whose item areas exceed the narrow storage type (int8): small item first, then
    # items whose area does not fit the type
    fixed = [_Inst("tight1", 24, 24, [[3, 3, 1], [12, 12, 2], [24, 12, 1]]),
             _Inst("tight2", 20, 30, [[2, 2, 1], [10, 15, 4], [20, 15, 2]]),
             _Inst("tight3", 16, 16, [[1, 1, 1], [16, 8, 3], [8, 8, 2]])]
    for k_inst in range(n_inst + len(fixed)):
        inst = fixed[k_inst] if k_inst < len(fixed) else rand_instance(rng, max_items=rng.choice([3, 6, 10]))
        if inst.bin_width * inst.bin_height > 4000:   # keep the column-by-column oracle cheap
            continue
        W, H, n = int(inst.bin_width), int(inst.bin_height), int(inst.n_items)
        objs = [c(inst) for c in classes]
        per_obj = {str(o): [] for o in objs}
        packs = []
        for rep in range(4):
            x = rand_signed_perm(rng, inst)
            y = Packing(inst)
            (ImprovedBottomLeftEncoding1 if rep % 2 == 0 else ImprovedBottomLeftEncoding2)(inst).decode(x, y)
            packs.append(y)
            # arbitrary other feasible layouts: every item alone in its own bin ("sparse"), rows shuffled
            z = Packing(inst)
            order = list(range(n))
            rng.shuffle(order)
            for pos, r in enumerate(order):
                w, h = int(y[r, 4] - y[r, 2]), int(y[r, 5] - y[r, 3])
                z[pos, :] = [y[r, 0], r + 1, 0, 0, w, h]
            # renumber so bins are 1..n in shuffled order
            z.n_bins = n
            packs.append(z)
            # same packing as y with the rows permuted
            q = Packing(inst)
            q[:, :] = y[order, :]
            q.n_bins = y.n_bins
            packs.append(q)
            # arbitrary feasible layout: items dropped at random free positions (not bottom-left justified, e.g. a tall
            # item standing in the middle of a flat one), rows in random order
            placed = []
            nb = 1
            for r in order:
                w, h = int(y[r, 4] - y[r, 2]), int(y[r, 5] - y[r, 3])
                done = False
                for b_ in list(range(1, nb + 1)) + [nb + 1]:
                    for _t in range(25 if b_ <= nb else 1):
                        if b_ > nb:
                            px, py = 0, 0
                        else:
                            px, py = rng.randint(0, W - w), rng.randint(0, H - h)
                            below = [p for p in placed if p[1] == b_ and p[4] > px and p[2] < px + w and p[5] <= py]
                            if below and rng.random() < 0.7:
                                py = max(p[5] for p in below)       # stand on top of something
                                if py + h > H:
                                    continue
                        if all(not (p[1] == b_ and p[4] > px and p[2] < px + w and p[5] > py and p[3] < py + h) for p in placed):
                            placed.append([int(y[r, 0]), b_, px, py, px + w, py + h])
                            nb = max(nb, b_)
                            done = True
                            break
                    if done:
                        break
            a_ = Packing(inst)
            for pos, row in enumerate(placed):
                a_[pos, :] = row
            a_.n_bins = nb
            packs.append(a_)
        for y in packs:
            rows = [[int(v) for v in y[r]] for r in range(n)]
            exp = oracle(rows, n, W, H)
            for o in objs:
                name = str(o)
                try:
                    got = int(o.evaluate(y))
                except Exception as ex:
                    viol.append((f"{name}/raises", {"W": W, "H": H, "rows": rows}, repr(ex)))
                    continue
                evals += 1
                want, k = exp[name]
                distinct.add((name, W, H, tuple(map(tuple, rows))))
                info = {"W": W, "H": H, "items": [[int(v) for v in inst[i]] for i in range(inst.n_different_items)],
                        "rows": rows, "objective": name}
                if got != want:
                    viol.append((f"{name}/value", info, f"evaluate={got} documented value={want}"))
                elif not (o.lower_bound() <= got <= o.upper_bound()):
                    viol.append((f"{name}/bounds", info, f"{got} not in [{o.lower_bound()}, {o.upper_bound()}]"))
                elif int(o.to_bin_count(got)) != k:
                    viol.append((f"{name}/to_bin_count", info, f"to_bin_count({got})={o.to_bin_count(got)} bins={k}"))
                per_obj[name].append((k, got))
            # the result record built from this packing (default arguments) carries the same seven values and the
            # objectives' own declared bounds - for this instance, whatever was evaluated before (all generated instances
            # share one name)
            if n_records < 400:
                n_records += 1
                info = {"W": W, "H": H, "items": [[int(v) for v in inst[i]] for i in range(inst.n_different_items)], "rows": rows}
                try:
                    er = EndResult("alg", inst.name, "binCount", "enc", 1, exp["binCount"][0], 1, 1, 10, 10, None, None, None)
                    prr = from_packing_and_end_result(er, y)
                    evals += 1
                    bad = [nm for nm, (want, _k) in exp.items() if prr.objectives.get(nm) != want]
                    if bad:
                        viol.append(("packing_result/objective-values", info,
                                     f"{bad[0]}: recorded {prr.objectives.get(bad[0])}, documented value {exp[bad[0]][0]}"))
                    for o in objs:
                        lo_, hi_ = prr.objective_bounds.get(f"{o}.lowerBound"), prr.objective_bounds.get(f"{o}.upperBound")
                        if lo_ != o.lower_bound() or hi_ != o.upper_bound():
                            viol.append(("packing_result/objective-bounds", info,
                                         f"{o}: recorded [{lo_}, {hi_}], declared [{o.lower_bound()}, {o.upper_bound()}]"))
                            break
                    if (prr.n_items, prr.bin_width, prr.bin_height) != (n, W, H):
                        viol.append(("packing_result/instance-data", info, f"recorded {(prr.n_items, prr.bin_width, prr.bin_height)}"))
                except Exception as ex:     # noqa: BLE001
                    viol.append(("packing_result/raises", info, repr(ex)))
            if len(samples) < 2:
                samples.append({"W": W, "H": H, "rows": rows, "values": {k_: v[0] for k_, v in exp.items()}})
        for name, lst in per_obj.items():
            for (k1, f1) in lst:
                for (k2, f2) in lst:
                    if k1 < k2 and not f1 < f2:
                        viol.append((f"{name}/dominance", {"W": W, "H": H}, f"bins {k1}<{k2} but values {f1}>={f2}"))
    # ---- magnitudes beyond 2**53: bins of 10^12 x 10^4, one item per bin (the skyline of such a bin is the item itself)
    from moptipyapps.binpacking2d.instance import Instance
    big = Instance("big", 10 ** 12, 10 ** 4, [[30000, 10000, 2], [1, 1, 1]])
    yb = Packing(big)
    yb[0, :] = [1, 1, 0, 0, 30000, 10000]
    yb[1, :] = [1, 2, 0, 0, 30000, 10000]
    yb[2, :] = [2, 3, 0, 0, 1, 1]
    yb.n_bins = 3
    A = 10 ** 16
    want_big = {"binCount": 3, "binCountAndLastEmpty": 3 * 2 + 1, "binCountAndEmpty": 3 * 2 + 1, "binCountAndLastSmall": 2 * A + 1,
                "binCountAndSmall": 2 * A + 1, "binCountAndLastSkyline": 2 * A + 1, "binCountAndLowestSkyline": 2 * A + 1}
    for c in classes:
        o = c(big)
        name = str(o)
        info = {"W": 10 ** 12, "H": 10 ** 4, "rows": [[int(v) for v in yb[r]] for r in range(3)], "objective": name}
        try:
            got = int(o.evaluate(yb))
        except Exception as ex:     # noqa: BLE001  (with NUMBA_BOUNDSCHECK=1 an out-of-range access raises IndexError)
            viol.append((f"{name}/raises", info, repr(ex)))
            continue
        evals += 1
        if got != want_big[name]:
            viol.append((f"{name}/value", info, f"evaluate={got} documented value={want_big[name]}"))
        elif int(o.to_bin_count(got)) != 3:
            viol.append((f"{name}/to_bin_count", info, f"to_bin_count({got})={o.to_bin_count(got)} bins=3"))
        elif not (o.lower_bound() <= got <= o.upper_bound()):
            viol.append((f"{name}/bounds", info, f"{got} not in [{o.lower_bound()}, {o.upper_bound()}]"))
    seen = set()
    viol = [v for v in viol if not (v[0] in seen or seen.add(v[0]))]
    return {"name": "objectives_oracle", "evaluations": evals, "distinct_nontrivial": len(distinct),
            "rule": "random small instances (bin area <= 4000), per instance 16 feasible packings (both decoders, random non-bottom-left placements, "
                    "one-item-per-bin sparse layouts with shuffled rows, row-permuted copies) x 7 objectives; value vs "
                    "independent recomputation, declared bounds, to_bin_count, pairwise strict dominance; PackingResult records built from "
                    "up to 400 of these packings carry the same values and bounds; distinct = "
                    "distinct (objective, packing) pairs",
            "samples": samples, "violations": viol, "exhaustive": False}
