"""Bounded stand-in for C14 (and replay vehicle for C01/C14): an executable reference of the *documented*
improved-bottom-left procedure, written from the module documentation, compared with the real encoders through
their public API (ImprovedBottomLeftEncoding{1,2}.decode) on generated instances; plus statelessness:
decoding into a garbage-filled packing, twice with one encoder object, interleaved with other permutations."""
import random

import numpy as np


def ref_decode(x, inst, W, H, enc):
    rows = []          # [id, bin, l, b, r, t]
    nbins = 1

    def settle(window, w, h):
        l, b = W - w, H
        while True:
            # down as far as possible: rest on the highest top among x-overlapping items that are not above us
            nb = 0
            for (_, _, kl, kb, kr, kt) in window:
                if kr > l and kl < l + w and kb < b + h:
                    nb = max(nb, kt)
            if nb < b:
                b = nb
                continue
            # left until blocked or until the right edge reaches the left end of a supporting item
            d = l
            for (_, _, kl, kb, kr, kt) in window:
                if kl >= l + w:
                    continue
                if kr > l and kl < l + w:
                    if kt == b:
                        d = min(d, (l + w) - kl)
                elif b + h > kb and b < kt:
                    d = min(d, l - kr)
            if d > 0:
                l -= d
                continue
            return l, b

    for v in x:
        v = int(v)
        k = abs(v) - 1
        w, h = (int(inst[k][1]), int(inst[k][0])) if v < 0 else (int(inst[k][0]), int(inst[k][1]))
        if w > W or h > H:
            w, h = h, w
        placed = False
        bins = [nbins] if enc == 1 else list(range(1, nbins + 1))
        for b_ in bins:
            window = [r for r in rows if r[1] == b_]
            l, b = settle(window, w, h)
            if l + w <= W and b + h <= H:
                rows.append([abs(v), b_, l, b, l + w, b + h])
                placed = True
                break
        if not placed:
            nbins += 1
            rows.append([abs(v), nbins, 0, 0, w, h])
    return rows, nbins


def feasible(rows, nb, x, inst, W, H):
    n = len(rows)
    if sorted(r[0] for r in rows) != sorted(abs(int(v)) for v in x):
        return "ids"
    for r in rows:
        w, h = int(inst[r[0] - 1][0]), int(inst[r[0] - 1][1])
        if (r[4] - r[2], r[5] - r[3]) not in ((w, h), (h, w)):
            return "size"
        if not (0 <= r[2] < r[4] <= W and 0 <= r[3] < r[5] <= H):
            return "outside"
    for a in range(n):
        for b in range(a):
            ra, rb = rows[a], rows[b]
            if ra[1] == rb[1] and ra[4] > rb[2] and rb[4] > ra[2] and ra[5] > rb[3] and rb[5] > ra[3]:
                return "overlap"
    if sorted({r[1] for r in rows}) != list(range(1, nb + 1)):
        return "bins"
    return None


def harness_feasible(tier, seed):
    """C01 view of the same runs: only infeasible results / exceptions count."""
    rep = harness(tier, seed)
    rep["name"] = "decode_feasibility"
    rep["violations"] = [v for v in rep["violations"] if "differs" not in v[0]]
    return rep


def harness(tier, seed):
    from contracts.binpacking import garbage, rand_instance, rand_signed_perm
    from moptipyapps.binpacking2d.encodings.ibl_encoding_1 import ImprovedBottomLeftEncoding1
    from moptipyapps.binpacking2d.encodings.ibl_encoding_2 import ImprovedBottomLeftEncoding2
    from moptipyapps.binpacking2d.packing import Packing
    rng = random.Random(seed + 14)
    n_inst = 120 if tier == "quick" else 1500
    evals, distinct, viol, samples = 0, set(), [], []
    # hand-made geometries that random instances meet rarely: overhanging shelves, roofs, a rotated copy right after the plain
    # one, interleaved bins, a forced rotation in a portrait bin, a nearly full portrait bin
    from moptipyapps.binpacking2d.instance import Instance as _Inst
    fixed = [(10, 10, [[3, 6, 1], [8, 2, 1], [2, 2, 1]], [1, 2, 3]),
             (10, 10, [[5, 4, 1], [8, 8, 1], [2, 2, 2]], [1, 2, 3, 3]),
             (10, 10, [[7, 10, 1], [8, 3, 2]], [1, 2, -2]),
             (10, 10, [[3, 5, 1], [2, 1, 1], [5, 3, 1], [8, 2, 1], [2, 2, 1]], [1, 2, 3, 4, 5]),
             (4, 10, [[4, 3, 2], [2, 2, 3], [1, 7, 1]], [1, 1, 2, 2, 2, 3]),
             (4, 10, [[3, 3, 1], [6, 2, 1], [2, 3, 1]], [1, 2, 3]),
             (10, 5, [[3, 8, 1], [4, 4, 2]], [1, 2, 2]),
             (7, 5, [[7, 5, 2], [5, 7, 1]], [1, 1, 2])]
    for k_inst in range(n_inst + len(fixed)):
        if k_inst < len(fixed):
            W_, H_, it_, x_fixed = fixed[k_inst]
            inst = _Inst("t", W_, H_, it_)
        else:
            x_fixed = None
            inst = rand_instance(rng, max_items=rng.choice([3, 5, 8, 12]))
        W, H = int(inst.bin_width), int(inst.bin_height)
        rows_i = [[int(v) for v in inst[k]] for k in range(inst.n_different_items)]
        from contracts.binpacking import REQUESTED
        rq = REQUESTED.pop(id(inst), None)
        REQUESTED.clear()
        if rq is not None and (rq[0], rq[1], rq[2]) != (W, H, rows_i):
            # the instance object must describe the bin and the items it was constructed with: the packings are judged
            # against what the caller asked for
            viol.append(("instance/differs-from-constructor-arguments", {"W": rq[0], "H": rq[1], "items": rq[2]},
                         f"the instance reports bin {W}x{H}, items {rows_i}"))
            W, H, rows_i = rq[0], rq[1], rq[2]
        for enc, cls in ((1, ImprovedBottomLeftEncoding1), (2, ImprovedBottomLeftEncoding2)):
            encoder = cls(inst)
            y = Packing(inst)
            prev = None
            for rep in range(3):
                x = rand_signed_perm(rng, inst) if rep != 2 else prev
                if x_fixed is not None and rep == 0:
                    x = np.array(x_fixed, dtype=x.dtype)
                prev = x
                y[:, :] = garbage(rng, y.shape, y.dtype)          # earlier contents must not matter
                y.n_bins = -7
                try:
                    encoder.decode(x, y)
                except Exception as ex:
                    viol.append((f"enc{enc}/raises", {"W": W, "H": H, "items": rows_i, "x": x.tolist()}, repr(ex)))
                    break
                evals += 1
                got = [[int(v) for v in y[r]] for r in range(len(x))]
                ref, nb = ref_decode(x, rows_i, W, H, enc)
                key = (enc, W, H, tuple(map(tuple, rows_i)), tuple(int(v) for v in x))
                if nb > 1 or any(r[2] > 0 and r[3] > 0 for r in ref):
                    distinct.add(key)
                why = feasible(got, int(y.n_bins), x, rows_i, W, H)
                if why is not None:
                    viol.append((f"enc{enc}/infeasible:{why}", {"W": W, "H": H, "items": rows_i, "x": x.tolist(), "got": got},
                                 f"decoded packing infeasible ({why}), n_bins={int(y.n_bins)}"))
                    break
                if got != ref or int(y.n_bins) != nb:
                    viol.append((f"enc{enc}/differs-from-documented-procedure",
                                 {"W": W, "H": H, "items": rows_i, "x": x.tolist(), "got": got, "reference": ref},
                                 f"real n_bins={int(y.n_bins)} reference n_bins={nb}"))
                    break
                if len(samples) < 2 and nb > 1:
                    samples.append({"enc": enc, "W": W, "H": H, "items": rows_i, "x": x.tolist(), "n_bins": nb})
    seen = set()
    viol = [v for v in viol if not (v[0] in seen or seen.add(v[0]))]
    return {"name": "bl_reference", "evaluations": evals, "distinct_nontrivial": len(distinct),
            "rule": "random instances (bins 1..12 and int8/int16 edge sizes, <= 12 items), random signed permutations, both "
                    "encoders via decode() into a garbage-filled packing, same encoder reused, third decode repeats the "
                    "second permutation; compared row by row with the reference of the documented procedure and with a "
                    "feasibility oracle; non-trivial = more than one bin or an item not touching a wall",
            "samples": samples, "violations": viol, "exhaustive": False}
