"""Bounded stand-in for C04: PackingSpace.validate accepts exactly the feasible packings (independent oracle written
from the statement), on decoder outputs and on single-/multi-field corruptions generated from the clauses of the
feasibility definition (each clause negated in turn); from_str(to_str(y)) == y with the same validation."""
import random

import numpy as np


def oracle(rows, n_bins, inst):
    """None if feasible, else the name of the violated clause (written from the property statement)"""
    n = int(inst.n_items)
    W, H = int(inst.bin_width), int(inst.bin_height)
    if len(rows) != n:
        return "shape"
    cnt = {}
    for r in rows:
        if not (1 <= r[0] <= inst.n_different_items):
            return "id"
        cnt[r[0]] = cnt.get(r[0], 0) + 1
    for k in range(inst.n_different_items):
        if cnt.get(k + 1, 0) != int(inst[k, 2]):
            return "multiplicity"
    for r in rows:
        w, h = int(inst[r[0] - 1, 0]), int(inst[r[0] - 1, 1])
        if not (r[2] < r[4] and r[3] < r[5]):
            return "degenerate"
        if (r[4] - r[2], r[5] - r[3]) not in ((w, h), (h, w)):
            return "size"
        if not (0 <= r[2] and r[4] <= W and 0 <= r[3] and r[5] <= H):
            return "outside"
    for a in range(n):
        for b in range(a):
            ra, rb = rows[a], rows[b]
            if ra[1] == rb[1] and ra[4] > rb[2] and rb[4] > ra[2] and ra[5] > rb[3] and rb[5] > ra[3]:
                return "overlap"
    bins = sorted({r[1] for r in rows})
    if bins != list(range(1, len(bins) + 1)):
        return "bins"
    if n_bins != len(bins):
        return "count"
    return None


def corruptions(rng, rows, nb, inst):
    """yield (label, rows', n_bins') derived from the clauses of the definition"""
    n = len(rows)
    W, H = int(inst.bin_width), int(inst.bin_height)
    def cp():
        return [list(r) for r in rows]
    r = rng.randrange(n)
    q = cp(); q[r][4] += 1; yield "width+1", q, nb
    q = cp(); q[r][5] -= 1; yield "height-1", q, nb
    # rectangle whose width equals the item's height while its height is wrong (and the mirrored case)
    w, h = int(inst[rows[r][0] - 1, 0]), int(inst[rows[r][0] - 1, 1])
    for (rw, rh, lab) in ((h, w + 1, "w=item.h,h wrong"), (h, h + 2, "w=item.h,h=h+2"), (w + 1, w, "h=item.w,w wrong"), (w + 2, h, "w wrong,h ok")):
        q = cp(); q[r][2], q[r][3] = 0, 0; q[r][4], q[r][5] = rw, rh
        q[r][1] = nb + 1            # alone in a fresh bin: no overlap noise
        yield f"size:{lab}", q, nb + 1
    q = cp(); q[r][0] = (q[r][0] % inst.n_different_items) + 1; yield "other-id", q, nb
    q = cp(); q[r][0] = 0; yield "id=0", q, nb
    q = cp(); q[r][0] = inst.n_different_items + 1; yield "id>n", q, nb
    q = cp(); d = W - q[r][4] + 1; q[r][2] += d; q[r][4] += d; yield "outside-right", q, nb
    q = cp(); d = H - q[r][5] + 1; q[r][3] += d; q[r][5] += d; yield "outside-top", q, nb
    q = cp(); q[r][2], q[r][4] = -1, q[r][4] - q[r][2] - 1; yield "negative-left", q, nb
    q = cp(); q[r][4] = q[r][2]; yield "degenerate", q, nb
    if n > 1:
        s = rng.choice([k for k in range(n) if k != r])
        q = cp(); q[r][1] = q[s][1]; q[r][2:6] = [q[s][2], q[s][3], q[s][2] + (rows[r][4] - rows[r][2]), q[s][3] + (rows[r][5] - rows[r][3])]
        yield "moved-onto-other", q, len({x[1] for x in q})
    q = cp(); q[r][1] = nb + 2; yield "bin-gap", q, nb + 1
    q = cp(); q[r][1] = 0; yield "bin=0", q, nb
    yield "count+1", cp(), nb + 1
    yield "count-1", cp(), nb - 1
    yield "count=-1 (the value of an unset count)", cp(), -1
    yield "count=-7", cp(), -7
    yield "count=0", cp(), 0
    q = cp()
    for x in q:
        x[1] += 1
    yield "bins-from-2", q, nb
    # multi-field: two corruptions at once
    q = cp(); q[r][4] += 1; q[(r + 1) % n][1] = nb + 3; yield "multi", q, nb


def harness(tier, seed):
    from contracts.binpacking import rand_instance, rand_signed_perm
    from moptipyapps.binpacking2d.encodings.ibl_encoding_1 import ImprovedBottomLeftEncoding1
    from moptipyapps.binpacking2d.encodings.ibl_encoding_2 import ImprovedBottomLeftEncoding2
    from moptipyapps.binpacking2d.instance import Instance
    from moptipyapps.binpacking2d.packing import Packing
    from moptipyapps.binpacking2d.packing_space import PackingSpace
    rng = random.Random(seed + 4)
    viol, samples = [], []
    evals, distinct = 0, set()

    def judge(space, inst, rows, nb, label):
        nonlocal evals
        y = Packing(inst)
        try:
            for k, r in enumerate(rows):
                y[k, :] = r
        except OverflowError:
            return
        stored = [[int(v) for v in y[k]] for k in range(len(rows))]
        y.n_bins = nb
        want = oracle(stored, nb, inst)
        try:
            space.validate(y)
            got = None
        except (ValueError, TypeError) as ex:
            got = str(ex)[:120]
        evals += 1
        distinct.add((label.split(":")[0], tuple(map(tuple, stored)), nb))
        info = {"W": int(inst.bin_width), "H": int(inst.bin_height),
                "items": [[int(v) for v in inst[i]] for i in range(inst.n_different_items)], "rows": stored, "n_bins": nb,
                "corruption": label}
        if want is None and got is not None:
            viol.append(("rejects-feasible", info, got))
        if want is not None and got is None:
            viol.append((f"accepts-infeasible/{want}", info, f"violated clause: {want}"))
        return want, got

    n_inst = 80 if tier == "quick" else 1000
    for it in range(n_inst):
        inst = rand_instance(rng, max_items=rng.choice([2, 4, 7]))
        space = PackingSpace(inst)
        x = rand_signed_perm(rng, inst)
        y = space.create()
        (ImprovedBottomLeftEncoding1 if it % 2 else ImprovedBottomLeftEncoding2)(inst).decode(x, y)
        rows = [[int(v) for v in y[k]] for k in range(len(x))]
        nb = int(y.n_bins)
        judge(space, inst, rows, nb, "decoded")
        # text round trip
        try:
            z = space.from_str(space.to_str(y))
            evals += 1
            if not (np.array_equal(z, y) and z.dtype == y.dtype and int(z.n_bins) == nb and z.instance is inst):
                viol.append(("from_str-roundtrip", {"rows": rows}, "parsed packing differs"))
        except Exception as ex:
            viol.append(("from_str-roundtrip", {"rows": rows, "W": int(inst.bin_width), "H": int(inst.bin_height)}, repr(ex)))
        for (label, q, nb2) in corruptions(rng, rows, nb, inst):
            judge(space, inst, q, nb2, label)
            # corrupt text must be rejected by from_str as well (same validation)
            if rng.random() < 0.2 and oracle(q, max(r[1] for r in q), inst) is not None:
                txt = ";".join(str(v) for r in q for v in r)
                try:
                    space.from_str(txt)
                    info = {"text": txt, "W": int(inst.bin_width), "H": int(inst.bin_height)}
                    viol.append(("from_str-accepts-infeasible", info, label))
                except Exception:
                    pass
                evals += 1
        if len(samples) < 2:
            samples.append({"W": int(inst.bin_width), "H": int(inst.bin_height), "rows": rows, "n_bins": nb})
    # sizes the instance constructor accepts: bins wider / higher than 10^9
    for (W, H, items) in ((2_000_000_000, 10, [[5, 5, 2]]), (10, 3_000_000_000, [[5, 5, 1], [2, 3, 1]])):
        inst = Instance("big", W, H, items)
        space = PackingSpace(inst)
        y = space.create()
        ImprovedBottomLeftEncoding1(inst).decode(np.array(inst.get_standard_item_sequence(), inst.dtype), y)
        rows = [[int(v) for v in y[k]] for k in range(inst.n_items)]
        judge(space, inst, rows, int(y.n_bins), f"large-bin {W}x{H}")
    seen = set()
    viol = [v for v in viol if not (v[0] in seen or seen.add(v[0]))]
    return {"name": "packing_validate", "evaluations": evals, "distinct_nontrivial": len(distinct),
            "rule": "decoder outputs of random instances + 20 corruption classes derived from the clauses of the feasibility "
                    "definition (size incl. the 'one side matches' cases, id, multiplicity, outside, degenerate, overlap, bin "
                    "gaps, count, multi-field) + bins larger than 10^9; validate raises iff the independent oracle rejects; "
                    "from_str(to_str(y)) == y; distinct = distinct (corruption class, matrix, count)",
            "samples": samples, "violations": viol, "exhaustive": False}
