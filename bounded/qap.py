"""Bounded stand-ins for C09: QAPLIB text loading under arbitrary line wrapping; objective within the instance bounds
(brute force over all permutations for n <= 6) and independent of the storage dtype."""
import itertools
import random

import numpy as np


def wrap(rng, numbers):
    """split a list of number strings into lines at random places (including blank lines and odd spacing)"""
    lines, cur = [], []
    for tok in numbers:
        cur.append(tok)
        if rng.random() < 0.35:
            lines.append((" " * rng.randint(0, 3)).join([""] + cur).replace("", "", 0).strip() if False else
                         (" " * rng.randint(1, 3)).join(cur) + " " * rng.randint(0, 2))
            cur = []
            if rng.random() < 0.2:
                lines.append(" " * rng.randint(0, 2))
    if cur:
        lines.append(" ".join(cur))
    return lines


def harness(tier, seed):
    from moptipyapps.qap.instance import Instance
    from moptipyapps.qap.objective import QAPObjective
    rng = random.Random(seed + 9)
    viol, samples = [], []
    evals, distinct = 0, set()
    reps = 150 if tier == "quick" else 2500
    big = [128, 129, 257] if tier == "quick" else [127, 128, 129, 130, 255, 256, 257]
    for rep in range(reps + len(big)):
        # the last instances: sizes at the boundaries of the integer types a permutation can be stored in (sampled
        # permutations instead of all n!)
        n = rng.randint(1, 6) if rep < reps else big[rep - reps]
        mx = rng.choice([1, 9, 300, 70000, 10 ** 6] if rep < reps else [1, 9, 300])
        f = [[rng.randint(0, mx) for _ in range(n)] for _ in range(n)]
        d = [[rng.randint(0, mx) for _ in range(n)] for _ in range(n)]
        if sum(map(sum, f)) == 0:
            f[0][0] = 1
        if sum(map(sum, d)) == 0:
            d[0][0] = 1
        toks = [str(v) for row in f for v in row] + [str(v) for row in d for v in row]
        mode = rng.random()
        if mode < 0.3:      # one matrix row per line (classic layout)
            lines = [str(n), ""] + [" ".join(map(str, r)) for r in f] + [""] + [" ".join(map(str, r)) for r in d]
        elif mode < 0.4:    # everything on one line after n
            lines = [str(n), " ".join(toks)]
        else:               # arbitrary wrapping, lines may straddle the two matrices
            lines = [" " * rng.randint(0, 2) + str(n)] + wrap(rng, toks)
        info = {"n": n, "lines": lines}
        try:
            inst = Instance.from_qaplib_stream(iter(lines))
        except Exception as ex:
            viol.append(("qaplib/raises-on-valid-text", info, repr(ex)))
            continue
        evals += 1
        distinct.add(tuple(lines))
        if inst.n != n or inst.flows.tolist() != f or inst.distances.tolist() != d:
            viol.append(("qaplib/wrong-matrices", info, f"n={inst.n} flows={inst.flows.tolist()} distances={inst.distances.tolist()}"))
            continue
        obj = QAPObjective(inst)
        lo, hi = obj.lower_bound(), obj.upper_bound()
        vals = {}
        def perms():
            if n <= 6:
                yield from itertools.permutations(range(n))
            else:
                for _k in range(6):
                    q = list(range(n))
                    rng.shuffle(q)
                    yield tuple(q)
        if n > 6:
            info = {"n": n, "lines": f"{len(lines)} lines, instance {rep} of seed {seed}"}
        for p in perms():
            x = np.array(p, dtype=rng.choice([np.int64, np.uint8, np.int16] if n <= 256 else [np.int64, np.uint16, np.int16]))
            v = int(obj.evaluate(x))
            evals += 1
            want = sum(f[i][j] * d[p[i]][p[j]] for i in range(n) for j in range(n))
            if v != want:
                viol.append(("objective/value", {**info, "x": list(p)}, f"evaluate={v} sum={want} (dtype {inst.flows.dtype})"))
                break
            if not (lo <= v <= hi):
                viol.append(("objective/bounds", {**info, "x": list(p)}, f"{v} not in [{lo}, {hi}]"))
                break
        # one permutation buffer modified in place between evaluations (what a local search does)
        if n >= 2:
            buf = np.array(list(range(n)), dtype=np.int64)
            for _k in range(6):
                a_, b_ = rng.sample(range(n), 2)
                buf[a_], buf[b_] = buf[b_], buf[a_]
                v = int(obj.evaluate(buf))
                evals += 1
                pb = buf.tolist()
                want = sum(f[i][j] * d[pb[i]][pb[j]] for i in range(n) for j in range(n))
                if v != want:
                    viol.append(("objective/value-after-in-place-move", {**info, "x": pb}, f"evaluate={v} sum={want}"))
                    break
        # storage type must not matter: same matrices in a wider type
        if len(samples) < 2:
            samples.append({"n": n, "lines": lines[:6], "dtype": str(inst.flows.dtype), "bounds": [lo, hi]})
    # ---- instances built directly from narrow-dtype arrays whose flow*distance products exceed that dtype
    for dt in (np.int8, np.uint8, np.int16, np.uint16, np.int32, np.uint32, np.int64):
        hi = int(min(np.iinfo(dt).max, 10 ** 6))
        for _ in range(3):
            n = rng.randint(2, 4)
            f = np.array([[rng.randint(hi // 2, hi) for _ in range(n)] for _ in range(n)], dtype=dt)
            d = np.array([[rng.randint(hi // 2, hi) for _ in range(n)] for _ in range(n)], dtype=dt)
            info = {"n": n, "input_dtype": np.dtype(dt).name, "flows": f.tolist(), "distances": d.tolist()}
            try:
                inst = Instance(d, f)
            except Exception as ex:
                viol.append(("instance/raises", info, repr(ex)))
                continue
            evals += 1
            distinct.add(("narrow", np.dtype(dt).name, f.tobytes(), d.tobytes()))
            if inst.flows.tolist() != f.tolist() or inst.distances.tolist() != d.tolist():
                viol.append(("instance/stored-matrices-differ", info, f"stored dtype {inst.flows.dtype}"))
                continue
            obj = QAPObjective(inst)
            lo, hi_ = obj.lower_bound(), obj.upper_bound()
            for p in itertools.permutations(range(n)):
                want = sum(int(f[i][j]) * int(d[p[i]][p[j]]) for i in range(n) for j in range(n))
                v = int(obj.evaluate(np.array(p)))
                evals += 1
                if v != want:
                    viol.append(("objective/value", {**info, "x": list(p)}, f"evaluate={v} sum={want}"))
                    break
                if not (lo <= v <= hi_):
                    viol.append(("objective/bounds", {**info, "x": list(p)}, f"{v} not in [{lo}, {hi_}]"))
                    break
    # ---- degenerate pairs: one matrix all zero (every objective value and both trivial bounds are 0) while the other one
    # holds large numbers; and a valid user-supplied upper bound that is smaller than an entry which never contributes
    # (a flow on the diagonal): the stored matrices must still be the given ones
    for (f, d, kw) in (([[0, 1000], [300, 0]], [[0, 0], [0, 0]], {}),
                       ([[0, 0], [0, 0]], [[0, 70000], [5, 0]], {}),
                       ([[0, 0, 0], [0, 0, 0], [0, 0, 0]], [[0, 2, 10 ** 9], [3, 0, 1], [1, 1, 0]], {}),
                       ([[1000, 1], [1, 0]], [[0, 1], [1, 0]], {"upper_bound": 2})):
        n = len(f)
        info = {"n": n, "flows": f, "distances": d, **kw}
        for how in ("constructor", "qaplib-text"):
            try:
                if how == "constructor":
                    inst = Instance(np.array(d), np.array(f), **kw)
                else:
                    if kw:
                        continue
                    inst = Instance.from_qaplib_stream(iter([str(n)] + [" ".join(map(str, r)) for r in f]
                                                            + [" ".join(map(str, r)) for r in d]))
            except Exception as ex:
                viol.append(("instance/raises", {**info, "via": how}, repr(ex)))
                continue
            evals += 1
            distinct.add(("degenerate", how, str(f), str(d)))
            if inst.flows.tolist() != f or inst.distances.tolist() != d:
                viol.append(("instance/stored-matrices-differ", {**info, "via": how},
                             f"stored flows {inst.flows.tolist()} distances {inst.distances.tolist()} (dtype {inst.flows.dtype})"))
                continue
            obj = QAPObjective(inst)
            for p in itertools.permutations(range(n)):
                want = sum(f[i][j] * d[p[i]][p[j]] for i in range(n) for j in range(n))
                v = int(obj.evaluate(np.array(p)))
                evals += 1
                if v != want or not (obj.lower_bound() <= v <= obj.upper_bound()):
                    viol.append(("objective/value", {**info, "x": list(p)}, f"evaluate={v} sum={want}"))
                    break
    # ---- the bundled QAPLIB resources as loaded by from_resource: value == flow-distance sum and within the instance's bounds
    # for the identity, the reversed and a random permutation (thorough: five random ones)
    names = list(Instance.list_resources())
    for nm in names:
        try:
            inst = Instance.from_resource(nm)
        except Exception as ex:     # noqa: BLE001
            viol.append(("resource/raises", {"instance": nm}, repr(ex)))
            continue
        n = inst.n
        F_, D_ = np.array(inst.flows).astype(np.int64), np.array(inst.distances).astype(np.int64)
        obj = QAPObjective(inst)
        lo, hi = obj.lower_bound(), obj.upper_bound()
        perms_ = [list(range(n)), list(range(n - 1, -1, -1))]
        for _k in range(1 if tier == "quick" else 5):
            q = list(range(n))
            rng.shuffle(q)
            perms_.append(q)
        for p in perms_:
            pa = np.array(p)
            want = int((F_ * D_[np.ix_(pa, pa)]).sum())
            v = int(obj.evaluate(pa))
            evals += 1
            if v != want:
                viol.append(("resource/objective-value", {"instance": nm, "x": p}, f"evaluate={v} sum={want}"))
                break
            if not (lo <= v <= hi and inst.lower_bound <= v <= inst.upper_bound):
                viol.append(("resource/objective-outside-bounds", {"instance": nm, "x": p},
                             f"{v} not in [{lo}, {hi}] / instance bounds [{inst.lower_bound}, {inst.upper_bound}]"))
                break
    seen = set()
    viol = [v for v in viol if not (v[0] in seen or seen.add(v[0]))]
    return {"name": "qap", "evaluations": evals, "distinct_nontrivial": len(distinct),
            "rule": "random matrices n <= 6 (values up to 10^6) and n in 127..257 (storage-type boundaries, sampled permutations) serialised as QAPLIB text with classic, single-line and random "
                    "wrapping (blank lines, lines straddling the flows/distances boundary); parsed instance equals the "
                    "matrices; all n! permutations: value == sum f*d and within [lower, upper]; narrow input dtypes; degenerate pairs "
                    "(one matrix all zero, valid user bounds below a non-contributing entry); all 134 bundled resources with three "
                    "permutations each (value and bounds); distinct = distinct texts",
            "samples": samples, "violations": viol, "exhaustive": False}
