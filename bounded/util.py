"""helpers shared by the bounded harnesses"""
import signal
from contextlib import contextmanager


class RealCodeTimeout(Exception):
    """the real code did not return within the allowance: no verdict about the property from this case"""


@contextmanager
def time_limit(seconds: float):
    """run a call into the real code under an alarm (harnesses run in their own forked process, main thread)"""
    def _alarm(*_a):
        raise RealCodeTimeout()
    old = signal.signal(signal.SIGALRM, _alarm)
    signal.setitimer(signal.ITIMER_REAL, seconds)
    try:
        yield
    finally:
        signal.setitimer(signal.ITIMER_REAL, 0.0)
        signal.signal(signal.SIGALRM, old)
