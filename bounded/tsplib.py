"""Bounded stand-in for C18: TSPLIB text loading against the TSPLIB95 definitions (independent implementation).

 - write -> read round trip (Instance.to_stream / _from_stream) on generated symmetric and asymmetric matrices;
 - the four explicit formats (FULL_MATRIX, UPPER_ROW, LOWER_DIAG_ROW, UPPER_DIAG_ROW) with arbitrarily wrapped lines
   load to the same matrix;
 - EUC_2D, CEIL_2D, ATT, GEO distances of generated coordinate instances equal the TSPLIB95 formulas;
 - EXHAUSTIVE over the shipped data: every shipped optimal tour is a permutation whose length equals the documented
   optimum of its instance."""
import math
import random

import numpy as np


def nint(x):
    return int(x + 0.5)


def d_euc(a, b):
    return nint(math.sqrt((a[0] - b[0]) ** 2 + (a[1] - b[1]) ** 2))


def d_ceil(a, b):
    return int(math.ceil(math.sqrt((a[0] - b[0]) ** 2 + (a[1] - b[1]) ** 2)))


def d_att(a, b):
    r = math.sqrt(((a[0] - b[0]) ** 2 + (a[1] - b[1]) ** 2) / 10.0)
    t = nint(r)
    return t + 1 if t < r else t


def d_geo(a, b):
    def rad(x):
        deg = int(x)
        return 3.141592 * (deg + 5.0 * (x - deg) / 3.0) / 180.0
    lat1, lon1, lat2, lon2 = rad(a[0]), rad(a[1]), rad(b[0]), rad(b[1])
    q1, q2, q3 = math.cos(lon1 - lon2), math.cos(lat1 - lat2), math.cos(lat1 + lat2)
    return int(6378.388 * math.acos(0.5 * ((1.0 + q1) * q2 - (1.0 - q1) * q3)) + 1.0)


def wrap_numbers(rng, nums):
    lines, cur = [], []
    for v in nums:
        cur.append(str(v))
        if rng.random() < 0.3:
            lines.append((" " * rng.randint(1, 3)).join(cur))
            cur = []
    if cur:
        lines.append(" ".join(cur))
    return lines


def explicit_text(rng, m, fmt, name="gen", filler=None):
    n = len(m)
    if filler is not None:
        # TSPLIB files may carry an arbitrary value in the diagonal positions (br17: 9999); it is not a distance
        m = [[(filler if i == j else m[i][j]) for j in range(n)] for i in range(n)]
    if fmt == "FULL_MATRIX":
        nums = [m[i][j] for i in range(n) for j in range(n)]
    elif fmt == "UPPER_ROW":
        nums = [m[i][j] for i in range(n) for j in range(i + 1, n)]
    elif fmt == "LOWER_DIAG_ROW":
        nums = [m[i][j] for i in range(n) for j in range(i + 1)]
    else:
        nums = [m[i][j] for i in range(n) for j in range(i, n)]
    return [f"NAME: {name}", "TYPE: TSP", f"DIMENSION: {n}", "EDGE_WEIGHT_TYPE: EXPLICIT", f"EDGE_WEIGHT_FORMAT: {fmt}",
            "EDGE_WEIGHT_SECTION"] + wrap_numbers(rng, nums) + ["EOF"]


def harness(tier, seed):
    import moptipyapps.tsp.instance as ti
    from moptipyapps.tsp.instance import Instance
    from moptipyapps.tsp.known_optima import list_resource_tours, opt_tour_from_resource
    from moptipyapps.tsp.tour_length import tour_length
    rng = random.Random(seed + 18)
    rng_fill = random.Random(seed + 1812)
    viol, samples = [], []
    evals, distinct = 0, set()
    reps = 60 if tier == "quick" else 800
    for _ in range(reps):
        n = rng.randint(2, 9)
        mx = rng.choice([3, 50, 10 ** 4, 10 ** 9, 10 ** 12 // n])
        sym = rng.random() < 0.6
        m = [[0] * n for _ in range(n)]
        for i in range(n):
            for j in range(n):
                if i != j and (not sym or j < i):
                    m[i][j] = rng.randint(1, mx)
                    if sym:
                        m[j][i] = m[i][j]
        if rng.random() < 0.25 and mx >= 10 ** 4:
            # symmetric up to one unit in a single large entry: asymmetric, although every tolerance-based comparison says
            # otherwise - written as a symmetric file it would lose that entry
            sym = True
            for i in range(n):
                for j in range(i):
                    m[i][j] = m[j][i] = rng.randint(mx // 2, mx)
            a_ = rng.randrange(1, n)
            m[a_][0] += 1
        # the asymmetric generator may hit a symmetric matrix by chance (n = 2, small values): the expected flag is a property
        # of the matrix, not of how it was generated
        sym = all(m[a][b] == m[b][a] for a in range(n) for b in range(n))
        # --- write -> read
        try:
            inst = Instance(rng.choice(["gen", "my_tsp", "rand_atsp", "tsp", "X_TSP3", "gen1"]), 0, np.array(m, np.int64))
            out = []
            inst.to_stream(out.append)
            back = ti._from_stream(iter(out), lambda _: inst.tour_length_lower_bound)
            evals += 1
            distinct.add(("rt", n, sym, mx))
            if not (back.name == inst.name and back.n_cities == n and back.is_symmetric == inst.is_symmetric
                    and np.array_equal(back, inst) and bool(inst.is_symmetric) == sym):
                viol.append(("write-read-roundtrip", {"matrix": m, "text": out[:12]}, "instance read back differs"))
        except Exception as ex:
            viol.append(("write-read-roundtrip", {"matrix": m}, repr(ex)))
        # --- explicit formats (symmetric matrices)
        if sym:
            loaded = {}
            for fmt in ("FULL_MATRIX", "UPPER_ROW", "LOWER_DIAG_ROW", "UPPER_DIAG_ROW"):
                txt = explicit_text(rng, m, fmt)
                try:
                    got = ti._from_stream(iter(txt), lambda _: 0)
                    evals += 1
                    loaded[fmt] = np.array(got).tolist()
                    if loaded[fmt] != m:
                        viol.append((f"explicit/{fmt}", {"matrix": m, "text": txt}, f"loaded {loaded[fmt]}"))
                except Exception as ex:
                    viol.append((f"explicit/{fmt}", {"matrix": m, "text": txt}, repr(ex)))
            # the formats that have diagonal positions, with a non-zero filler there (own RNG: the main stream is untouched)
            for fmt in ("FULL_MATRIX", "LOWER_DIAG_ROW", "UPPER_DIAG_ROW"):
                fill = rng_fill.choice([9999, 1, 10 ** 7, max(max(r) for r in m)])
                txt = explicit_text(rng_fill, m, fmt, filler=fill)
                try:
                    got = np.array(ti._from_stream(iter(txt), lambda _: 0)).tolist()
                    evals += 1
                    distinct.add(("filler", fmt, n, fill))
                    if got != m:
                        viol.append((f"explicit/{fmt}/diagonal-filler", {"matrix": m, "text": txt}, f"loaded {got}"))
                except Exception as ex:
                    viol.append((f"explicit/{fmt}/diagonal-filler", {"matrix": m, "text": txt}, repr(ex)))
        # --- coordinate instances
        pts_int = [(rng.randint(0, 2000), rng.randint(0, 2000)) for _ in range(n)]
        pts_dec = [(round(rng.uniform(-80, 80), rng.choice([1, 2, 4])), round(rng.uniform(-170, 170), 2)) for _ in range(n)]
        # far apart and nearly aligned integer points: the distance exceeds an integer by less than 1e-9 of its size, which a
        # tolerant comparison would mistake for "exactly that integer"; the oracle for these is exact integer arithmetic
        far = [(0, 0), (40000, 1), (90000, 2), (65536, 3), (10 ** 6, 1), (250000, 250001), (123456, 0), (99999, 4)]
        rng.shuffle(far)
        pts_far = far[:max(2, min(n, len(far)))]

        # cities at the same location (ali535 has 29 such pairs): int(RRR * acos(...) + 1.0) = 1 under GEO
        pts_twins = list(pts_dec)
        if len(pts_twins) >= 3:
            pts_twins[rng.randrange(1, len(pts_twins))] = pts_twins[0]

        def ceil_exact(a, b):
            d2 = (a[0] - b[0]) ** 2 + (a[1] - b[1]) ** 2
            return 0 if d2 == 0 else math.isqrt(d2 - 1) + 1

        def euc_exact(a, b):
            return (math.isqrt(4 * ((a[0] - b[0]) ** 2 + (a[1] - b[1]) ** 2)) + 1) // 2
        for ewt, fn, pts in (("EUC_2D", d_euc, pts_int), ("CEIL_2D", d_ceil, pts_int), ("ATT", d_att, pts_int),
                             ("CEIL_2D", ceil_exact, pts_far), ("EUC_2D", euc_exact, pts_far),
                             ("EUC_2D", d_euc, pts_dec), ("GEO", d_geo, pts_dec), ("ATT", d_att, pts_dec),
                             ("GEO", d_geo, pts_twins)):
            n = len(pts)
            if len(set(pts)) < n and ewt != "GEO":      # (TSPLIB95's GEO distance of two cities at the same place is 1, not 0)
                continue
            txt = ["NAME: pts", "TYPE: TSP", f"DIMENSION: {n}", f"EDGE_WEIGHT_TYPE: {ewt}", "NODE_COORD_SECTION"] + \
                  [f"{k + 1} {p[0]} {p[1]}" for k, p in enumerate(pts)] + ["EOF"]
            want = [[0 if i == j else fn(pts[i], pts[j]) for j in range(n)] for i in range(n)]
            if any(want[i][j] <= 0 for i in range(n) for j in range(n) if i != j):
                continue
            try:
                got = np.array(ti._from_stream(iter(txt), lambda _: 0)).tolist()
                evals += 1
                distinct.add((ewt, tuple(pts)))
                if got != want:
                    viol.append((f"coordinates/{ewt}", {"points": pts, "text": txt}, f"loaded {got} TSPLIB95 {want}"))
            except Exception as ex:
                viol.append((f"coordinates/{ewt}", {"points": pts}, repr(ex)))
    # --- EUC_2D with decimal coordinates whose exact distance from the first city is k + 0.5 (scaled Pythagorean triples):
    # the prescribed nint(sqrt(xd*xd + yd*yd)) in plain double arithmetic decides these one way; a "more accurate" norm
    # (hypot, fsum, decimal) can decide them the other way
    half = []
    for m_ in range(2, 60):
        for n_ in range(1, m_):
            if (m_ - n_) % 2 == 1 and math.gcd(m_, n_) == 1:
                for k_ in (1, 3, 5, 7):
                    x_, y_, z_ = (m_ * m_ - n_ * n_) * k_, 2 * m_ * n_ * k_, (m_ * m_ + n_ * n_) * k_
                    if z_ % 10 == 5 and z_ < 30000:
                        a_, b_ = x_ / 10, y_ / 10
                        if nint(math.sqrt(a_ * a_ + b_ * b_)) != nint(math.hypot(a_, b_)) or len(half) % 7 == 0:
                            half.append((a_, b_))
    for lo_ in range(0, len(half), 24):
        pts = [(0, 0)] + half[lo_:lo_ + 24]
        n = len(pts)
        txt = ["NAME: half", "TYPE: TSP", f"DIMENSION: {n}", "EDGE_WEIGHT_TYPE: EUC_2D", "NODE_COORD_SECTION"] + \
              [f"{k + 1} {p[0]} {p[1]}" for k, p in enumerate(pts)] + ["EOF"]
        want = [[0 if i == j else d_euc(pts[i], pts[j]) for j in range(n)] for i in range(n)]
        try:
            got = np.array(ti._from_stream(iter(txt), lambda _: 0)).tolist()
            evals += 1
            distinct.add(("EUC_2D-half", tuple(pts)))
            if got != want:
                bad = [(i, j) for i in range(n) for j in range(n) if got[i][j] != want[i][j]][0]
                viol.append(("coordinates/EUC_2D", {"points": [pts[bad[0]], pts[bad[1]]], "text": txt},
                             f"cities {bad[0] + 1} and {bad[1] + 1}: loaded {got[bad[0]][bad[1]]}, TSPLIB95 {want[bad[0]][bad[1]]}"))
        except Exception as ex:
            viol.append(("coordinates/EUC_2D", {"points": pts}, repr(ex)))
    # --- number notations: TSPLIB95 reals may be written with an exponent and without a decimal point ("1e+06" is what C's
    # %g prints for a million, "2e-05" is Python's repr of 0.00002), in either case of the letter
    pts = [(1000000.0, 0.0), (0.0, 2000000.0), (300000.0, 400000.0), (0.00002, 0.5), (7.0, 24.0)]
    for style in ("%g", "%G", "%.6e", "repr"):
        fmt_ = (lambda v: repr(v)) if style == "repr" else (lambda v, st=style: st % v)
        n = len(pts)
        txt = ["NAME: notation", "TYPE: TSP", f"DIMENSION: {n}", "EDGE_WEIGHT_TYPE: EUC_2D", "NODE_COORD_SECTION"] + \
              [f"{k + 1} {fmt_(p[0])} {fmt_(p[1])}" for k, p in enumerate(pts)] + ["EOF"]
        want = [[0 if i == j else d_euc(pts[i], pts[j]) for j in range(n)] for i in range(n)]
        try:
            got = np.array(ti._from_stream(iter(txt), lambda _: 0)).tolist()
            evals += 1
            distinct.add(("notation", style))
            if got != want:
                viol.append(("coordinates/number-notation", {"style": style, "text": txt}, f"loaded {got} TSPLIB95 {want}"))
        except Exception as ex:
            viol.append(("coordinates/number-notation", {"style": style, "text": txt}, repr(ex)))
    # --- shipped optimal tours: exhaustive over the data
    ntours = 0
    for name in list_resource_tours():
        try:
            inst = Instance.from_resource(name)
            tour = opt_tour_from_resource(name)
        except Exception as ex:
            viol.append((f"tour/{name}/load", {"instance": name}, repr(ex)))
            continue
        ntours += 1
        evals += 1
        if sorted(int(v) for v in tour) != list(range(inst.n_cities)):
            viol.append((f"tour/{name}/permutation", {"instance": name}, "not a permutation of the cities"))
            continue
        ln = int(tour_length(inst, tour))
        if ln != ti._LOWER_BOUNDS[name]:
            viol.append((f"tour/{name}/length", {"instance": name}, f"tour length {ln}, documented optimum {ti._LOWER_BOUNDS[name]}"))
        if len(samples) < 2:
            samples.append({"instance": name, "tour_length": ln, "documented_optimum": ti._LOWER_BOUNDS[name]})
    seen = set()
    viol = [v for v in viol if not (v[0] in seen or seen.add(v[0]))]
    return {"name": "tsplib", "evaluations": evals, "distinct_nontrivial": len(distinct) + ntours,
            "rule": f"all {ntours} shipped optimal tours (exhaustive over the data); generated matrices n <= 9 with values up to "
                    "10^12/n: write/read round trip, four explicit formats with random line wrapping (the three with diagonal positions also with non-zero fillers there); generated integer and "
                    "decimal point sets (GEO also with two cities at the same location): EUC_2D, CEIL_2D, ATT, GEO vs independent TSPLIB95 formulas",
            "samples": samples, "violations": viol, "exhaustive": False}
