"""Bounded stand-in for C07: the real count_errors kernel against an executable specification written from the
property statement / the documented rules, EXHAUSTIVELY over all 12^6 day-wise consistent 4-team double round-robin
plans x a grid of constraint settings, plus random (also inconsistent, self-playing, bye-containing) plans for
n in {4, 6, 8} and rounds in {1, 2, 3}."""
import random

import numba
import numpy as np


@numba.njit(cache=False)
def spec_eval(y, hmin, hmax, amin, amax, smin, smax, rounds):
    """-> (feasible, rule_count, consistent): written from the statement, independent of the kernel's bookkeeping."""
    days, n = y.shape
    consistent = True
    played = True
    for d in range(days):
        for t in range(n):
            v = y[d, t]
            if v == 0:
                played = False
                continue
            o = abs(v) - 1
            if o == t:
                consistent = False
            elif v > 0:
                if y[d, o] != -(t + 1):
                    consistent = False
            elif y[d, o] != t + 1:
                consistent = False
    count = 0
    # streaks: maximal runs of home games / away games of each team
    for t in range(n):
        run_kind = 0
        run_len = 0
        for d in range(days + 1):
            kind = 0
            if d < days:
                v = y[d, t]
                if v > 0:
                    kind = 1
                elif v < 0:
                    kind = -1
                else:
                    count += 1          # a day without game
            if kind == run_kind and kind != 0:
                run_len += 1
            else:
                if run_kind == 1:
                    if run_len > hmax:
                        count += run_len - hmax
                    if run_len < hmin:
                        count += hmin - run_len
                elif run_kind == -1:
                    if run_len > amax:
                        count += run_len - amax
                    if run_len < amin:
                        count += amin - run_len
                run_kind = kind
                run_len = 1
    # pairings: separation between consecutive meetings, number of meetings, home/away balance
    for a in range(n):
        for b in range(a):
            last = -1
            hab = 0
            hba = 0
            for d in range(days):
                meet = False
                if y[d, a] == b + 1:
                    hab += 1
                    meet = True
                if y[d, b] == a + 1:
                    hba += 1
                    meet = True
                if (not meet) and (y[d, a] == -(b + 1) or y[d, b] == -(a + 1)):
                    meet = True
                if meet:
                    if last >= 0:
                        diff = d - last - 1
                        if diff < smin:
                            count += smin - diff
                        elif diff > smax:
                            count += diff - smax
                    last = d
            count += abs(hab + hba - rounds)
            if abs(hab - hba) > 1:
                count += abs(hab - hba) - 1
    feasible = consistent and played and count == 0
    return feasible, count, consistent and played


def day_patterns(n):
    """all mutually consistent assignments of one day (perfect matchings with orientation)"""
    out = []

    def rec(free, cur):
        if not free:
            out.append(cur.copy())
            return
        a = free[0]
        for b in free[1:]:
            rest = [t for t in free if t not in (a, b)]
            for (h, w) in ((a, b), (b, a)):
                cur[h] = w + 1
                cur[w] = -(h + 1)
                rec(rest, cur)
    rec(list(range(n)), np.zeros(n, np.int64))
    return np.array(out)


@numba.njit(cache=False)
def sweep(pats, days, hmin, hmax, amin, amax, smin, smax, rounds, temp_1, temp_2, ub, count_errors):
    npat, n = pats.shape
    total = npat ** days
    y = np.zeros((days, n), np.int8)
    bad_code, bad_kind = -1, 0
    n_feasible = 0
    n_over = 0
    over_code = -1
    max_err = 0
    for code in range(total):
        c = code
        for d in range(days):
            y[d, :] = pats[c % npat]
            c //= npat
        e = count_errors(y, hmin, hmax, amin, amax, smin, smax, temp_1, temp_2)
        feas, cnt, cons = spec_eval(y, hmin, hmax, amin, amax, smin, smax, rounds)
        if feas:
            n_feasible += 1
        if e > max_err:
            max_err = e
        if e > ub:
            n_over += 1
            if over_code < 0:
                over_code = code
        if bad_code < 0:
            if e < 0:
                bad_code, bad_kind = code, 1
            elif (e == 0) != feas:
                bad_code, bad_kind = code, 2
            elif e != cnt:
                bad_code, bad_kind = code, 3
    return bad_code, bad_kind, n_feasible, n_over, over_code, max_err


def decode_plan(code, pats, days):
    rows = []
    for _ in range(days):
        rows.append([int(v) for v in pats[code % len(pats)]])
        code //= len(pats)
    return rows


KINDS = {1: "negative", 2: "zero-iff-feasible", 3: "value-vs-documented-rule-count"}


def harness(tier, seed):
    from moptipyapps.ttp.errors import Errors, count_errors
    from moptipyapps.ttp.instance import Instance
    rng = random.Random(seed + 7)
    viol, samples = [], []
    evals = 0
    distinct = 0
    inst4 = Instance.from_resource("circ4")
    n, rounds = 4, 2
    days = (n - 1) * rounds
    pats = day_patterns(n)
    assert len(pats) == 12
    obj = Errors(inst4)
    t1 = np.empty(n * (n - 1) // 2, np.int8)
    t2 = np.empty((n, n), np.int8)
    ub = int(obj.upper_bound())
    grid = [(1, 3, 1, 3, 1, 6), (2, 3, 1, 3, 1, 6), (1, 2, 2, 3, 0, 4), (2, 2, 2, 2, 2, 3), (1, 7, 1, 7, 0, 7), (7, 7, 7, 7, 7, 7)]
    if tier == "thorough":
        grid += [(a, b, c, d, e, f) for a in (1, 2, 3) for b in (a, 3) for c in (1, 2, 3) for d in (c, 3)
                 for e in (0, 1, 3, 6) for f in (e, 6) if (a, b, c, d, e, f) not in grid]
    for (hmin, hmax, amin, amax, smin, smax) in grid:
        try:
            bad, kind, nfeas, nover, over_code, max_err = sweep(pats, days, hmin, hmax, amin, amax, smin, smax, rounds,
                                                                t1, t2, ub, count_errors)
        except Exception as ex:      # NUMBA_BOUNDSCHECK=1: an out-of-range access of the kernel raises
            viol.append(("exhaustive4/kernel-raises", {"n": 4, "home_streak": [hmin, hmax]}, repr(ex)))
            continue
        evals += 12 ** days
        distinct += 12 ** days
        setting = {"home_streak": [hmin, hmax], "away_streak": [amin, amax], "separation": [smin, smax]}
        if bad >= 0:
            viol.append((f"exhaustive4/{KINDS[kind]}", {"n": 4, "plan": decode_plan(bad, pats, days), **setting},
                         f"plan code {bad}: kernel vs statement-derived specification"))
        if nover > 0:
            cls = "large-minima" if max(hmin, amin, smin) > 2 else "standard-limits"
            viol.append((f"upper-bound/{cls}", {"n": 4, "plan": decode_plan(over_code, pats, days), **setting},
                         f"{nover} plans exceed Errors.upper_bound()={ub}; maximum observed {max_err}"))
        if len(samples) < 3:
            samples.append({**setting, "feasible_plans": int(nfeas), "max_errors": int(max_err), "plans": 12 ** days})
    # a plan in which every pairing meets twice, once written as "both at home" and once as "both away": every count is
    # right, only the roles are inconsistent - it is not a feasible schedule
    yb = np.array([[2, -1, 4, -3], [4, 3, -2, -1], [-2, 1, -4, 3], [3, 4, 1, 2], [-4, -3, 2, 1], [-3, -4, -1, -2]], np.int8)
    eb = int(count_errors(yb, 1, 3, 1, 3, 1, 6, np.full(6, 99, np.int8), np.full((4, 4), 99, np.int8)))
    fb, _cb, _kb = spec_eval(yb, 1, 3, 1, 3, 1, 6, 2)
    evals += 1
    if (eb == 0) != bool(fb):
        viol.append(("random/zero-iff-feasible", {"n": 4, "rounds": 2, "plan": yb.tolist(), "home_streak": [1, 3], "away_streak": [1, 3],
                                                   "separation": [1, 6]}, f"errors={eb} feasible={fb}"))
    # random plans, also inconsistent ones, n in {4, 6, 8}, rounds in {1, 2, 3}
    nrand = 3000 if tier == "quick" else 40000
    for _ in range(nrand):
        n = rng.choice([4, 6, 8])
        rounds = rng.choice([1, 2, 3])
        days = (n - 1) * rounds
        ll = rounds * n - 1
        hmin = rng.randint(1, min(3, ll)); hmax = rng.randint(hmin, min(4, ll))
        amin = rng.randint(1, min(3, ll)); amax = rng.randint(amin, min(4, ll))
        smin = rng.randint(0, 3); smax = rng.randint(smin, ll)
        pp = day_patterns(n) if n <= 6 else None
        y = np.zeros((days, n), np.int8)
        mode = rng.random()
        for d in range(days):
            if pp is not None and mode < 0.6:
                y[d, :] = pp[rng.randrange(len(pp))]
            else:
                for t in range(n):
                    y[d, t] = rng.randint(-n, n)
        if pp is not None and 0.3 < mode < 0.5:
            # keep who meets whom, but write some games with the same role on both sides (both "at home" or both "away")
            for d in range(days):
                for t in range(n):
                    o = int(y[d, t])
                    if o > 0 and rng.random() < 0.4:
                        if rng.random() < 0.5:
                            y[d, o - 1] = t + 1          # both at home
                        else:
                            y[d, t] = -o                 # both away
        if mode > 0.5 and mode < 0.6:           # sprinkle byes / self games into a consistent plan
            y[rng.randrange(days), rng.randrange(n)] = rng.choice([0, n, -n, 1])
        t1 = np.full(n * (n - 1) // 2, 99, np.int8)
        t2 = np.full((n, n), 99, np.int8)
        try:
            e = int(count_errors(y, hmin, hmax, amin, amax, smin, smax, t1, t2))
            e2 = int(count_errors(y, hmin, hmax, amin, amax, smin, smax, t1, t2))  # scratch contents must not matter
        except Exception as ex:
            viol.append(("random/kernel-raises", {"n": n, "rounds": rounds, "plan": y.tolist()}, repr(ex)))
            continue
        feas, cnt, cons = spec_eval(y, hmin, hmax, amin, amax, smin, smax, rounds)
        evals += 1
        info = {"n": n, "rounds": rounds, "plan": y.tolist(), "home_streak": [hmin, hmax], "away_streak": [amin, amax],
                "separation": [smin, smax]}
        if e != e2:
            viol.append(("random/depends-on-scratch", info, f"{e} then {e2}"))
        if e < 0:
            viol.append(("random/negative", info, str(e)))
        if (e == 0) != bool(feas):
            viol.append(("random/zero-iff-feasible", info, f"errors={e} feasible={feas}"))
        if cons and e != cnt:
            viol.append(("random/value-vs-documented-rule-count", info, f"errors={e} rule count={cnt}"))
        ubn = (4 * days - 1) * n - 1
        if e > ubn:
            cls = "large-minima" if max(hmin, amin, smin) > 2 else "standard-limits"
            viol.append((f"upper-bound/{cls}", info, f"errors={e} > declared upper bound {ubn}"))
    # ---- through the objects: instances built with six different limits keep each limit under its own name, and
    # Errors(instance).evaluate(plan) is the kernel's count for exactly these limits (all bundled instances have the same
    # limits for home and away streaks)
    mat4 = np.array(inst4)
    for (hmin, hmax, amin, amax, smin, smax) in [(1, 3, 1, 2, 1, 6), (1, 2, 1, 3, 0, 4), (2, 4, 1, 3, 1, 5), (1, 3, 2, 2, 2, 6)]:
        setting = {"home_streak": [hmin, hmax], "away_streak": [amin, amax], "separation": [smin, smax]}
        try:
            ti = Instance("gen4", mat4, ["a", "b", "c", "d"], 2, hmin, hmax, amin, amax, smin, smax)
        except Exception as ex:     # noqa: BLE001
            viol.append(("instance/raises-on-valid-limits", setting, repr(ex)))
            continue
        got_ = (int(ti.home_streak_min), int(ti.home_streak_max), int(ti.away_streak_min), int(ti.away_streak_max),
                int(ti.separation_min), int(ti.separation_max))
        if got_ != (hmin, hmax, amin, amax, smin, smax):
            viol.append(("instance/limits-stored", setting, f"instance reports {got_}"))
        ob_ = Errors(ti)
        from moptipyapps.ttp.game_plan import GamePlan
        for _ in range(150 if tier == "quick" else 2000):
            y = GamePlan(ti)
            for d in range(6):
                y[d, :] = pats[rng.randrange(len(pats))]
            feas, cnt, cons = spec_eval(np.array(y), hmin, hmax, amin, amax, smin, smax, 2)
            try:
                e = int(ob_.evaluate(y))
            except Exception as ex:     # noqa: BLE001
                viol.append(("objective/raises", {**setting, "plan": np.array(y).tolist()}, repr(ex)))
                break
            evals += 1
            if (e == 0) != bool(feas) or (cons and e != cnt):
                viol.append(("objective/value-for-the-instance-limits", {**setting, "plan": np.array(y).tolist()},
                             f"Errors.evaluate={e}, documented count for these limits {cnt}, feasible={feas}"))
                break
    seen = set()
    viol = [v for v in viol if not (v[0] in seen or seen.add(v[0]))]
    return {"name": "ttp_errors", "evaluations": evals, "distinct_nontrivial": distinct,
            "rule": "ALL 12^6 = 2985984 day-wise consistent 4-team double round-robin plans x each constraint setting of the "
                    "grid (exhaustive per setting), kernel vs statement-derived executable specification (zero iff feasible, "
                    "value = documented per-rule count, non-negative, declared upper bound); plus random plans in -n..n "
                    "(inconsistent, byes, self games) for n in {4,6,8}, rounds in {1,2,3}; instances with six different limits "
                    "through Errors.evaluate; distinct = enumerated plans",
            "samples": samples, "violations": viol, "exhaustive": True}
