# Hand VC skeleton for the skyline sweep (one bin): inner scan invariant, "Sky constant on segment", outer area invariant
from z3 import *
import time
I=IntSort(); A2=ArraySort(I,ArraySort(I,I))
Y=Const('Y',A2); BIN,L,R,T=1,2,4,5
def at(i,c): return Select(Select(Y,i),c)
n,W,ub,cl,i,ut,ur,nl,k,x=Ints('n W ub cl i ut ur nl k x')
Sky=Function('Sky',I,I); Arg=Function('Arg',I,I)   # Arg = Skolem witness of the max
SA=Function('SA',I,I)
def covers(k,x): return And(at(k,BIN)==ub, at(k,L)<=x, x<at(k,R))
rows=ForAll(k,Implies(And(0<=k,k<n),And(0<=at(k,L),at(k,L)<at(k,R),at(k,R)<=W,0<at(k,T))))
skyax=[ForAll([k,x],Implies(And(0<=k,k<n,covers(k,x)),Sky(x)>=at(k,T))),
       ForAll(x,And(Sky(x)>=0, Or(Sky(x)==0, And(0<=Arg(x),Arg(x)<n,covers(Arg(x),x),at(Arg(x),T)==Sky(x)))))]
sa_ax=[SA(0)==0, ForAll(x,Implies(x>=0,SA(x+1)==SA(x)+Sky(x)))]
def prove_(name,hyps,goal,to=30000):
    s=Solver(); s.set('timeout',to); s.add(*hyps); s.add(Not(goal)); t0=time.time(); rr=s.check(); print(f"{name:34s}",rr,round(time.time()-t0,3)); return rr
am=Int('am')  # ghost: index of the row that gave use_top/use_right
inner=And(0<=i,i<=n, 0<=ut,
  ForAll(k,Implies(And(0<=k,k<i,covers(k,cl)),at(k,T)<=ut)),
  Or(And(ut==0,ur==W), And(0<=am,am<i,covers(am,cl),at(am,T)==ut,at(am,R)==ur)),
  cl<nl,nl<=W, ForAll(k,Implies(And(0<=k,k<i,at(k,BIN)==ub,cl<at(k,L)),nl<=at(k,L))))
base=[rows,0<=cl,cl<W,n>=0]
prove_('inner init',base,substitute(inner,(i,IntVal(0)),(ut,IntVal(0)),(ur,W),(nl,W)))
# one iteration (row i)
inb=at(i,BIN)==ub; left,right,top=at(i,L),at(i,R),at(i,T)
c1=And(left<=cl,cl<right,top>ut)
ut2=If(inb,If(c1,top,ut),ut); ur2=If(inb,If(c1,right,ur),ur); am2=If(And(inb,c1),i,am)
nl2=If(And(inb,cl<left,left<nl),left,nl)
prove_('inner pres',base+[inner,i<n],substitute(inner,(i,i+1),(ut,ut2),(ur,ur2),(nl,nl2),(am,am2)))
# after scan
ure=If(ur<nl,ur,nl)
hx=base+[inner,i==n]+skyax
prove_('progress cl<ure<=W',hx,And(cl<ure,ure<=W))
prove_('Sky const on [cl,ure)',hx+[cl<=x,x<ure],Sky(x)==ut)
# constant-sum lemma: induction on b
a,b,c=Ints('a b c')
IH=Implies(And(a<=b,ForAll(x,Implies(And(a<=x,x<b),Sky(x)==c))),SA(b)==SA(a)+(b-a)*c)
goal=Implies(And(a<=b+1,ForAll(x,Implies(And(a<=x,x<b+1),Sky(x)==c))),SA(b+1)==SA(a)+(b+1-a)*c)
prove_('constsum step',sa_ax+[IH,a>=0,a<=b],goal)
prove_('constsum base',sa_ax+[a>=0],Implies(ForAll(x,Implies(And(a<=x,x<a),Sky(x)==c)),SA(a)==SA(a)+(a-a)*c))
# outer invariant area==SA(cl): step using explicit lemma instance
area=Int('area')
inst=Implies(And(cl<=ure,ForAll(x,Implies(And(cl<=x,x<ure),Sky(x)==ut))),SA(ure)==SA(cl)+(ure-cl)*ut)
prove_('outer pres',hx+[area==SA(cl),inst, ForAll(x,Implies(And(cl<=x,x<ure),Sky(x)==ut))],area+(ure-cl)*ut==SA(ure))
