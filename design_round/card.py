# Lemmas needed for PackingSpace.validate (C04): set-cardinality and counter pigeonhole, by explicit induction
from z3 import *
import time
I=IntSort(); B=BoolSort()
def prove_(name,hyps,goal,to=30000):
    s=Solver(); s.set('timeout',to); s.add(*hyps); s.add(Not(goal)); t0=time.time(); rr=s.check(); print(f"{name:40s}",rr,round(time.time()-t0,3)); return rr
M=Function('M',I,B)            # membership of the set `bins`
card=Function('card',I,I)      # card(m) = #{v in 1..m : M(v)}
m,v=Ints('m v')
cax=[card(0)==0, ForAll(m,Implies(m>=0,card(m+1)==card(m)+If(M(m+1),1,0)))]
# L1: card(m) <= m                     (induction on m)
prove_('L1 base',cax,card(0)<=0)
prove_('L1 step',cax+[m>=0,card(m)<=m],card(m+1)<=m+1)
L1=ForAll(m,Implies(m>=0,card(m)<=m))
# L2: card(m)==m  => forall v in 1..m: M(v)    (induction on m)
IH=Implies(card(m)==m,ForAll(v,Implies(And(1<=v,v<=m),M(v))))
prove_('L2 step',cax+[L1,m>=0,IH],Implies(card(m+1)==m+1,ForAll(v,Implies(And(1<=v,v<=m+1),M(v)))))
# L3: no members in (a, b]  => card(b)==card(a)   (induction on b)
a,b=Ints('a b')
IH3=Implies(ForAll(v,Implies(And(a<v,v<=b),Not(M(v)))),card(b)==card(a))
prove_('L3 step',cax+[0<=a,a<=b,IH3],Implies(ForAll(v,Implies(And(a<v,v<=b+1),Not(M(v)))),card(b+1)==card(a)))
# use: python len(bins) is card(U) with U=n_items; all members in [mn,mx]; mn==1; mx-mn+1==len  => all 1..mx present
U,mn,mx=Ints('U mn mx')
L2i=Implies(card(mx)==mx,ForAll(v,Implies(And(1<=v,v<=mx),M(v))))
L3i=Implies(ForAll(v,Implies(And(mx<v,v<=U),Not(M(v)))),card(U)==card(mx))
prove_('validate: contiguous bins',cax+[L2i,L3i,1<=mx,mx<=U, ForAll(v,Implies(M(v),And(mn<=v,v<=mx))), mn==1, mx-mn+1==card(U)],
       ForAll(v,Implies(And(1<=v,v<=mx),M(v))))
# Counter pigeonhole: cnt(v) in {0, rep(v)}, rep>=1, sum_v cnt(v) == N == sum_v rep(v)  => cnt(v)==rep(v) for all v
cnt=Function('cnt',I,I); rep=Function('rep',I,I); SC=Function('SC',I,I); SR=Function('SR',I,I); nd=Int('nd')
sax=[SC(0)==0,SR(0)==0,ForAll(m,Implies(m>=0,And(SC(m+1)==SC(m)+cnt(m+1),SR(m+1)==SR(m)+rep(m+1))))]
facts=[ForAll(v,Implies(And(1<=v,v<=nd),And(rep(v)>=1,Or(cnt(v)==0,cnt(v)==rep(v)))))]
# L4: SC(m)<=SR(m) and (SC(m)==SR(m) => forall v<=m cnt==rep)   for m<=nd
IH4=And(SC(m)<=SR(m),Implies(SC(m)==SR(m),ForAll(v,Implies(And(1<=v,v<=m),cnt(v)==rep(v)))))
G4=And(SC(m+1)<=SR(m+1),Implies(SC(m+1)==SR(m+1),ForAll(v,Implies(And(1<=v,v<=m+1),cnt(v)==rep(v)))))
prove_('L4 step',sax+facts+[0<=m,m+1<=nd,IH4],G4)
prove_('L4 base',sax+facts,And(SC(0)<=SR(0),Implies(SC(0)==SR(0),ForAll(v,Implies(And(1<=v,v<=0),cnt(v)==rep(v))))))
