# hand-written VC prototype for __move_down (encoding 1): inner loop invariant + post
from z3 import *
import time
I=IntSort()
P = Array('P', I, ArraySort(I,I))   # packing
def at(a,i,c): return Select(Select(a,i),c)
L,B,R,T = 2,3,4,5
bs,i1,i0 = Ints('bin_start i1 i0')
md = Int('min_down')
l,b,r,t = at(P,i1,L),at(P,i1,B),at(P,i1,R),at(P,i1,T)
def cond(k): return And(at(P,k,R)>l, at(P,k,L)<r, at(P,k,B)<t)
k=Int('k')
W,H=Ints('W H')
# precondition: boxes bin_start..i1-1 inside bin & proper; item i1 no overlap with them; item geometry
def inside(k): return And(0<=at(P,k,L), at(P,k,L)<at(P,k,R), at(P,k,R)<=W, 0<=at(P,k,B), at(P,k,B)<at(P,k,T), at(P,k,T)<=H)
def nov(k, l,b,r,t): return Or(at(P,k,R)<=l, at(P,k,L)>=r, at(P,k,T)<=b, at(P,k,B)>=t)
pre = And(0<=bs, bs<=i1, ForAll(k, Implies(And(bs<=k,k<i1), And(inside(k), nov(k,l,b,r,t)))), l<r, b<t, l>=0, b>=0)
inv = And(bs<=i0, i0<=i1, 0<=md, md<=b, ForAll(k, Implies(And(bs<=k,k<i0, cond(k)), md <= b-at(P,k,T))),
          Or(md==b, Exists(k, And(bs<=k,k<i0,cond(k), md==b-at(P,k,T)))))
def check(name, hyp, goal):
    s=Solver(); s.set('timeout',20000); s.add(hyp); s.add(Not(goal))
    t0=time.time(); r=s.check(); print(name, r, round(time.time()-t0,3))
    if r==sat: print(s.model())
# init
check('inv-init', pre, substitute(inv,(i0,bs),(md,b)))
# preservation
md2=If(cond(i0), If(b-at(P,i0,T)<md, b-at(P,i0,T), md), md)
check('inv-pres', And(pre, inv, i0<i1), substitute(inv,(i0,i0+1),(md,md2)))
# post: after loop i0==i1; new bottom nb=b-md; no overlap with all boxes and nb>=0, and "as far as possible": nb==0 or touching a blocker
nb, nt = b-md, t-md
post = And(nb>=0, ForAll(k, Implies(And(bs<=k,k<i1), nov(k,l,nb,r,nt))),
           Or(nb==0, Exists(k, And(bs<=k,k<i1, at(P,k,R)>l, at(P,k,L)<r, at(P,k,T)==nb))))
check('post', And(pre, inv, i0==i1), post)
