# Hand VC skeleton for ibl_encoding_2._decode: bins loop + windows + ghost init-sets (design validation)
exec(open('dec1.py').read().split("def rowok")[0].replace("n+1<=hi,","n+1<=hi, nd<=n,"))
S0=Const('S0',A1); E0=Const('E0',A1)   # bin_starts, bin_ends
def rowok(P,k,bid): return And(at(P,k,ID)==absx(k), box(P,k), sizeof(P,k), 1<=at(P,k,BIN), at(P,k,BIN)<=bid)
def InvC(P,S,E,i,bid):
    return {
     'scalars': And(0<=i,i<=n,bid>=1, Implies(i==0,bid==1), Implies(i>0,bid<=i)),
     'rowok':  ForAll(k,Implies(And(0<=k,k<i),rowok(P,k,bid))),
     'windows':ForAll(b_,Implies(And(1<=b_,b_<=bid),And(0<=S[b_-1],S[b_-1]<=E[b_-1],E[b_-1]<=i, Implies(i>0,And(S[b_-1]<E[b_-1],at(P,S[b_-1],BIN)==b_))))),
     'inwin':  ForAll(k,Implies(And(0<=k,k<i),And(S[at(P,k,BIN)-1]<=k,k<E[at(P,k,BIN)-1]))),
     'nov':    ForAll([r,s_],Implies(And(0<=r,r<i,0<=s_,s_<i,r!=s_,at(P,r,BIN)==at(P,s_,BIN)),novrows(P,r,s_)))}
def prove_(name,hyps,goal,to=30000):
    s=Solver(); s.set('timeout',to); s.add(*hyps); s.add(Not(goal)); t0=time.time(); rr=s.check(); print(f"{name:38s}",rr,round(time.time()-t0,3)); return rr
P0=Const('P0',A2); i,bid,ib=Ints('i bid item_bin')
item=X[i]; use_id=If(item<0,-(item+1),item-1)
w0=If(item<0,at(INST,use_id,1),at(INST,use_id,0)); h0=If(item<0,at(INST,use_id,0),at(INST,use_id,1))
rot=Or(w0>W,h0>H); w=If(rot,h0,w0); h=If(rot,w0,h0)
base=[InstPre,And(*InvC(P0,S0,E0,i,bid).values()),i<n]
Pid=upd(P0,i,ID,use_id+1)
# ---- bins loop head: invariant = outer Inv on rows<i untouched, row i ID set, S/E untouched, 1<=ib<=bid
Pb=Const('Pb',A2)
def BInv(P): return And(1<=ib,ib<=bid, at(P,i,ID)==use_id+1, ForAll(k,Implies(And(0<=k,k<n,k!=i),Select(P,k)==Select(P0,k))))
hb=base+[BInv(Pb)]
bs=S0[ib-1]; be=E0[ib-1]
prove_('bounds S[ib-1],E[ib-1]; init',hb,And(0<=ib-1,ib-1<n, ib-1<bid))  # written-set of S,E is [0,bid)
P1=upd(upd(upd(upd(Pb,i,L,W-w),i,B,H),i,R,W),i,T,H+h)
def inw(P,k): return And(bs<=k,k<be,at(P,k,BIN)==ib)
def WInv(P): return And(at(P,i,R)-at(P,i,L)==w, at(P,i,T)-at(P,i,B)==h, 0<=at(P,i,L), at(P,i,R)<=W, 0<=at(P,i,B), at(P,i,B)<=H, at(P,i,ID)==use_id+1,
                        ForAll(k,Implies(And(0<=k,k<n,k!=i),Select(P,k)==Select(P0,k))),
                        ForAll(k,Implies(inw(P,k),novrows(P,k,i))))
prove_('while inv-init',hb,WInv(P1))
def pre_move(P): return And(0<=bs,bs<=be,be<=i, ForAll(k,Implies(inw(P,k),And(box(P,k),novrows(P,k,i)))), 0<=at(P,i,L),at(P,i,L)<at(P,i,R),at(P,i,R)<=W,0<=at(P,i,B),at(P,i,B)<at(P,i,T))
def xov(P,k,l,r): return And(at(P,k,R)>l,at(P,k,L)<r)
def post_down(P,Q,res):
    return And(ForAll(k,Implies(k!=i,Select(Q,k)==Select(P,k))), at(Q,i,ID)==at(P,i,ID),at(Q,i,BIN)==at(P,i,BIN),at(Q,i,L)==at(P,i,L),at(Q,i,R)==at(P,i,R),
               at(Q,i,T)-at(Q,i,B)==at(P,i,T)-at(P,i,B), res==(at(Q,i,B)<at(P,i,B)), at(Q,i,B)<=at(P,i,B), at(Q,i,B)>=0,
               ForAll(k,Implies(inw(Q,k),novrows(Q,k,i))),
               Or(at(Q,i,B)==0, Exists(k,And(inw(Q,k),xov(Q,k,at(Q,i,L),at(Q,i,R)),at(Q,k,T)==at(Q,i,B)))))
def post_left(P,Q,res):
    return And(ForAll(k,Implies(k!=i,Select(Q,k)==Select(P,k))), at(Q,i,ID)==at(P,i,ID),at(Q,i,BIN)==at(P,i,BIN),at(Q,i,B)==at(P,i,B),at(Q,i,T)==at(P,i,T),
               at(Q,i,R)-at(Q,i,L)==at(P,i,R)-at(P,i,L), res==(at(Q,i,L)<at(P,i,L)), at(Q,i,L)<=at(P,i,L), at(Q,i,L)>=0,
               ForAll(k,Implies(inw(Q,k),novrows(Q,k,i))),
               Or(at(Q,i,L)==0, Exists(k,And(inw(Q,k),at(Q,k,R)==at(Q,i,L))), Exists(k,And(inw(Q,k),at(Q,k,T)==at(Q,i,B), at(Q,k,L)==at(Q,i,R)))))
Pw,Pd,Pl=Consts('Pw Pd Pl',A2); rd,rl=Bools('rd rl')
hw=hb+[WInv(Pw)]
prove_('pre@call move_down',hw,pre_move(Pw))
hd=hw+[post_down(Pw,Pd,rd)]
prove_('while inv-pres (down)',hd+[rd],WInv(Pd))
prove_('pre@call move_left',hd+[Not(rd)],pre_move(Pd))
hl=hd+[Not(rd),post_left(Pd,Pl,rl)]
prove_('while inv-pres (left)',hl+[rl],WInv(Pl))
he=hl+[Not(rl)]
fits=And(at(Pl,i,R)<=W,at(Pl,i,T)<=H)
prove_('i==0 => first bin fits',he+[i==0],fits)
# fits: BIN=ib, E[ib-1]=i+1, break -> outer inv at i+1
Pf=upd(Pl,i,BIN,ib); Ef=Store(E0,ib-1,i+1)
prove_('range E store / BIN store',he,And(i+1<=hi,ib<=hi))
for nm,g in InvC(Pf,S0,Ef,i+1,bid).items(): prove_('outer pres(fits):'+nm,he+[fits],g)
# not fits: continue bins loop: BInv for ib+1 (if ib<bid) holds for Pl
prove_('bins-loop inv-pres',he+[Not(fits),ib<bid],substitute(BInv(Pl),(ib,ib+1)))
# after bins loop with not_found (exit at ib==bid and not fits): new bin
Pn=upd(upd(upd(upd(upd(Pl,i,L,0),i,B,0),i,R,w),i,T,h),i,BIN,bid+1); Sn=Store(S0,bid,i); En=Store(E0,bid,i+1)
hn=he+[Not(fits),ib==bid]
prove_('bounds S[bid] (bid<n)',hn,And(0<=bid,bid<n))
for nm,g in InvC(Pn,Sn,En,i+1,bid+1).items(): prove_('outer pres(newbin):'+nm,hn,g)
def cover(name,hyps,to=60000):
    s=Solver(); s.set('timeout',to); s.add(*hyps); t0=time.time(); rr=s.check(); print(f"cover {name:32s}",rr,round(time.time()-t0,3))
cover('base',base); cover('loop head',hw); cover('exit+fits',he+[fits]); cover('exit+newbin',hn); cover('exit+newbin,i>=2',hn+[i>=2,bid>=2])
prove_('must-fail: False from newbin path',hn,BoolVal(False),20000)
prove_('must-fail: False from fits path',he+[fits],BoolVal(False),20000)
print("--- sensitivity (mutants must be refuted or at least not proved) ---")
for nm,g in InvC(Pf,S0,E0,i+1,bid).items(): prove_('MUT no E update:'+nm,he+[fits],g,10000)
Pn2=upd(upd(upd(upd(upd(Pl,i,L,0),i,B,0),i,R,w),i,T,h),i,BIN,bid)   # mutant: forgets to use incremented bin id
for nm,g in InvC(Pn2,Sn,En,i+1,bid+1).items(): prove_('MUT stale bin id:'+nm,hn,g,10000)
