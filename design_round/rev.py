from z3 import *
import time
I=IntSort(); A=ArraySort(I,I)
D=Function('D',I,I,I); S=Function('S',A,I,I,I)
x,xp=Consts('x xp',A); n,i,j,y,k,a,b,c=Ints('n i j y k a b c')
def prove_(name,hyps,goal,to=30000):
    s=Solver(); s.set('timeout',to); s.add(*hyps); s.add(Not(goal)); t0=time.time(); rr=s.check(); print(f"{name:30s}",rr,round(time.time()-t0,3)); return rr
sym=ForAll([a,b],D(a,b)==D(b,a))
# explicit lemma instances (engine applies lemmas with given arguments rather than relying on triggers)
def additivity(X,a,b,c): return Implies(And(a<=b,b<=c), S(X,a,c)==S(X,a,b)+S(X,b,c))
def frame(X,Y,a,b): return Implies(ForAll(k,Implies(And(a<=k,k<=b),X[k]==Y[k])), S(X,a,b)==S(Y,a,b))
def reverse(X,Y,i,j): return Implies(ForAll(k,Implies(And(i<=k,k<=j),Y[k]==X[i+j-k])), S(Y,i,j)==S(X,i,j))   # needs sym
def unfold1(X,a): return S(X,a,a+1)==D(X[a],X[a+1])
Tour=lambda X: S(X,0,n-1)+D(X[n-1],X[0])
relrev=ForAll(k,xp[k]==If(And(i<=k,k<=j),x[i+j-k],x[k]))
pre=[n>=3,0<=i,i<j,j<=n-2,Not(And(i==0,j==n-2)),y==Tour(x),sym,relrev]
xim1=If(i==0,x[n-1],x[i-1]); dy=D(xim1,x[j])+D(x[i],x[j+1])-D(xim1,x[i])-D(x[j],x[j+1])
# case i>0
lem=[additivity(X,0,i-1,n-1) for X in (x,xp)]+[additivity(X,i-1,i,n-1) for X in (x,xp)]+[additivity(X,i,j,n-1) for X in (x,xp)]+[additivity(X,j,j+1,n-1) for X in (x,xp)]
lem+= [unfold1(X,i-1) for X in (x,xp)]+[unfold1(X,j) for X in (x,xp)]
lem+= [frame(x,xp,0,i-1), frame(x,xp,j+1,n-1), reverse(x,xp,i,j)]
prove_('tour after reversal (i>0)',pre+lem+[i>0],Tour(xp)==y+dy)
lem0=[additivity(X,0,j,n-1) for X in (x,xp)]+[additivity(X,j,j+1,n-1) for X in (x,xp)]+[unfold1(X,j) for X in (x,xp)]+[frame(x,xp,j+1,n-1), reverse(x,xp,0,j)]
prove_('tour after reversal (i==0)',pre+lem0+[i==0],Tour(xp)==y+dy)
# permutation preserved
v=Int('v'); pos=Function('pos',I,I)  # inverse permutation as ghost witness
perm=And(ForAll(k,Implies(And(0<=k,k<n),And(0<=x[k],x[k]<n,pos(x[k])==k))), ForAll(v,Implies(And(0<=v,v<n),And(0<=pos(v),pos(v)<n,x[pos(v)]==v))))
posp=lambda v: If(And(i<=pos(v),pos(v)<=j),i+j-pos(v),pos(v))
permp=And(ForAll(k,Implies(And(0<=k,k<n),And(0<=xp[k],xp[k]<n,posp(xp[k])==k))), ForAll(v,Implies(And(0<=v,v<n),And(0<=posp(v),posp(v)<n,xp[posp(v)]==v))))
prove_('perm preserved',pre+[perm],permp)
