exec(open('dec1.py').read().split("# ---- iteration prefix")[0].replace("n+1<=hi,","n+1<=hi, nd<=n,"))
def InvC(P,i,bs,bid):
    return {
     'scalars': And(0<=bs,bs<=i,i<=n,bid>=1, bid<=i+1, Implies(i==0,And(bs==0,bid==1)), Implies(i>0,bs<i)),
     'rowok':  ForAll(k,Implies(And(0<=k,k<i),rowok(P,k,bid))),
     'curbin': ForAll(k,Implies(And(0<=k,k<i),(k>=bs)==(at(P,k,BIN)==bid))),
     'nov':    ForAll([r,s_],Implies(And(0<=r,r<i,0<=s_,s_<i,r!=s_,at(P,r,BIN)==at(P,s_,BIN)),novrows(P,r,s_))),
     'witness':ForAll(b_,Implies(And(1<=b_,b_<bid),Exists(k,And(0<=k,k<bs,at(P,k,BIN)==b_))))}
def Inv(P,i,bs,bid): return And(*InvC(P,i,bs,bid).values())
src=open('dec1.py').read().split("# ---- iteration prefix")[1]
src=src.split("prove_('outer inv-pres (fits)'")[0]
exec("# ---- iteration prefix"+src)
for nm,g in InvC(Pf,i+1,bs,bid).items(): prove_('pres(fits):'+nm,he+[fits],g,20000)
Pn=upd(upd(upd(upd(upd(Pl,i,L,0),i,B,0),i,R,w),i,T,h),i,BIN,bid+1)
for nm,g in InvC(Pn,i+1,i,bid+1).items(): prove_('pres(newbin):'+nm,he+[Not(fits)],g,20000)
