# hand VC prototype: __move_left (encoding 1) loop invariant + strongest post (R4) + NoOverlap preservation
from z3 import *
import time
I=IntSort(); P=Array('P',I,ArraySort(I,I))
def at(i,c): return Select(Select(P,i),c)
L,B,R,T=2,3,4,5
bs,i1,i0,ml,k,W,H=Ints('bs i1 i0 ml k W H')
l,b,r,t=at(i1,L),at(i1,B),at(i1,R),at(i1,T)
def inside(k): return And(0<=at(k,L),at(k,L)<at(k,R),at(k,R)<=W,0<=at(k,B),at(k,B)<at(k,T),at(k,T)<=H)
def nov(k,l,b,r,t): return Or(at(k,R)<=l,at(k,L)>=r,at(k,T)<=b,at(k,B)>=t)
pre=And(0<=bs,bs<=i1,ForAll(k,Implies(And(bs<=k,k<i1),And(inside(k),nov(k,l,b,r,t)))),0<=l,l<r,0<=b,b<t)
# families as in the code
def behind(k): return at(k,L)>=r
def xov(k): return And(at(k,R)>l,at(k,L)<r)
def support(k): return And(Not(behind(k)),xov(k),at(k,T)==b)
def blocker(k): return And(Not(behind(k)),Not(xov(k)),t>at(k,B),b<at(k,T))
def lim(k): return If(support(k), r-at(k,L), If(blocker(k), l-at(k,R), ml))  # contribution
inv=And(bs<=i0,i0<=i1,0<=ml,ml<=l,
        ForAll(k,Implies(And(bs<=k,k<i0,support(k)),ml<=r-at(k,L))),
        ForAll(k,Implies(And(bs<=k,k<i0,blocker(k)),ml<=l-at(k,R))),
        Or(ml==l,Exists(k,And(bs<=k,k<i0,Or(And(support(k),ml==r-at(k,L)),And(blocker(k),ml==l-at(k,R)))))))
def check(name,hyp,goal):
    s=Solver(); s.set('timeout',30000); s.add(hyp); s.add(Not(goal)); t0=time.time(); rr=s.check(); print(name,rr,round(time.time()-t0,3))
    if rr==sat: print(s.model())
check('init',pre,substitute(inv,(i0,bs),(ml,l)))
# one iteration, following the code's control flow
c_behind=behind(i0)
v1=r-at(i0,L); v2=l-at(i0,R)
ml2=If(c_behind,ml, If(xov(i0), If(at(i0,T)==b, If(v1<ml,v1,ml), ml), If(And(t>at(i0,B),b<at(i0,T)), If(v2<ml,v2,ml), ml)))
check('pres',And(pre,inv,i0<i1),substitute(inv,(i0,i0+1),(ml,ml2)))
nl,nr=l-ml,r-ml
post=And(nl>=0, ml>=0, ForAll(k,Implies(And(bs<=k,k<i1),nov(k,nl,b,nr,t))))
check('post-nooverlap',And(pre,inv,i0==i1),post)
