import z3, time, itertools
from z3 import *
RNG=range(-1,4)
def _vars(v): return v if isinstance(v,(list,tuple)) else [v]
def FA(v,body,**kw):
    vs=_vars(v); return z3.And(*[z3.substitute(body,*[(x,z3.IntVal(c)) for x,c in zip(vs,cs)]) for cs in itertools.product(RNG,repeat=len(vs))])
def EX(v,body,**kw):
    vs=_vars(v); return z3.Or(*[z3.substitute(body,*[(x,z3.IntVal(c)) for x,c in zip(vs,cs)]) for cs in itertools.product(RNG,repeat=len(vs))])
d1=open('dec1.py').read().split("def rowok")[0].replace("n+1<=hi,","n+1<=hi, nd<=n,").replace("ForAll(","FA(").replace("Exists(","EX(")
exec(d1)
d2=open('dec2.py').read().split("S0=Const")[1].split("def cover(")[0].replace("ForAll(","FA(").replace("Exists(","EX(")
exec("S0=Const"+d2)
print("--- bounded mutants ---")
hbnd=[n==3,nd<=3]
def refute(name,hyps,goal,to=30000):
    s=Solver(); s.set('timeout',to); s.add(*hyps); s.add(Not(goal)); t0=time.time(); rr=s.check(); print(f"{name:38s}",rr,round(time.time()-t0,3))
    if rr==sat:
        m=s.model(); print("    i=",m.eval(i),"bid=",m.eval(bid),"ib=",m.eval(ib),"S0[0..2]=",[m.eval(S0[j]) for j in range(3)],"E0=",[m.eval(E0[j]) for j in range(3)])
for nm,g in InvC(Pf,S0,E0,i+1,bid).items(): refute('MUT no E update:'+nm,he+[fits]+hbnd,g)
