from z3 import *
import time
def prove_(name, hyps, goal, to=20000):
    s=Solver(); s.set('timeout',to); s.add(*hyps); s.add(Not(goal))
    t0=time.time(); r=s.check(); print(name, r, round(time.time()-t0,3)); return r
A,k1,k2,a1,a2,z,q = Ints('A k1 k2 a1 a2 z q')
# dominance: fewer bins => strictly smaller
prove_('dominance', [A>=1,k1>=1,k2>k1,1<=a1,a1<=A,1<=a2,a2<=A], A*(k1-1)+a1 < A*(k2-1)+a2)
# to_bin_count: ceil_div(z, A) == k where ceil_div(a,b) = -((-a)//b); python floor div: q = floor(-z / A): A*q <= -z < A*q + A
prove_('to_bin_count', [A>=1,k1>=1,1<=a1,a1<=A, z==A*(k1-1)+a1, A*q <= -z, -z < A*q + A], -q == k1)
# nonneg products / int64 ranges
n,b = Ints('n b')
prove_('last_empty_ub', [n>=1, 1<=k1, k1<=n, 1<=a1, a1<=n-(k1-1)], n*(k1-1)+a1 <= n*n)
