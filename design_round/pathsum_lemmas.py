# Prototype: inductive lemmas for path sums under segment reversal (symmetric d)
from z3 import *
import time
I=IntSort(); A=ArraySort(I,I)
D = Function('D', I, I, I)          # distance matrix as function (dist[a,b])
S = Function('S', A, I, I, I)       # S(x,a,b) = sum_{k=a}^{b-1} D(x[k],x[k+1]), a<=b
x,y = Consts('x y', A); a,b,c,k,i,j = Ints('a b c k i j')
axS = [ForAll([x,a], S(x,a,a)==0, patterns=[S(x,a,a)]),
       ForAll([x,a,b], Implies(a<=b, S(x,a,b+1)==S(x,a,b)+D(x[b],x[b+1])), patterns=[S(x,a,b+1)]),
      ]
sym = ForAll([a,b], D(a,b)==D(b,a))
def prove_(name, hyps, goal, to=20000):
    s=Solver(); s.set('timeout',to); s.add(*hyps); s.add(Not(goal))
    t0=time.time(); r=s.check(); print(name, r, round(time.time()-t0,3)); return r
# alt axiom form: unfold at b: S(x,a,b) = S(x,a,b-1)+D(x[b-1],x[b]) for a<b
axS2 = [ForAll([x,a], S(x,a,a)==0),
        ForAll([x,a,b], Implies(a<b, S(x,a,b)==S(x,a,b-1)+D(x[b-1],x[b])))]
X,Y=Consts('X Y',A); a0,b0,n=Ints('a0 b0 n')
# Lemma frame: if X,Y agree on [a0,b0] then S equal. Induction on b0: IH for b0, show b0+1
IH = Implies(ForAll(k,Implies(And(a0<=k,k<=b0),X[k]==Y[k])), S(X,a0,b0)==S(Y,a0,b0))
goal = Implies(ForAll(k,Implies(And(a0<=k,k<=b0+1),X[k]==Y[k])), S(X,a0,b0+1)==S(Y,a0,b0+1))
prove_('frame-step', axS2+[a0<=b0, IH], goal)
prove_('frame-base', axS2, S(X,a0,a0)==S(Y,a0,a0))
# Lemma left-unfold: S(x,a,b) = D(x[a],x[a+1]) + S(x,a+1,b) for a<b  (induction on b)
IH = Implies(a0<b0, S(X,a0,b0)==D(X[a0],X[a0+1])+S(X,a0+1,b0))
goal = Implies(a0<b0+1, S(X,a0,b0+1)==D(X[a0],X[a0+1])+S(X,a0+1,b0+1))
prove_('leftunfold-step', axS2+[IH, a0<=b0], goal)
# Lemma reverse: Y[k]=X[i+j-k] on [i,j] => S(Y,i,j)==S(X,i,j). Induct on length: generalize: for segment [i0,j0] with i0+j0 == i+j
leftunf = ForAll([x,a,b], Implies(a<b, S(x,a,b)==D(x[a],x[a+1])+S(x,a+1,b)))
i0,j0=Ints('i0 j0')
rel = ForAll(k, Implies(And(i<=k,k<=j), Y[k]==X[i+j-k]))
# claim C(m): for i0=i+m.. : S(Y,i0,j) == S(X,i,j0) where j0 = i+j-i0 ; induct i0 downward from j
# base i0=j: S(Y,j,j)=0=S(X,i,i)
IH = S(Y,i0,j)==S(X,i,i+j-i0)
goal = S(Y,i0-1,j)==S(X,i,i+j-(i0-1))
prove_('reverse-step', axS2+[leftunf, sym, rel, i<i0, i0<=j, IH], goal)
