src=open('dec1b.py').read()
pre=src.split("for nm,g in InvC(Pf")[0]
pre=pre.replace("""'witness':ForAll(b_,Implies(And(1<=b_,b_<bid),Exists(k,And(0<=k,k<bs,at(P,k,BIN)==b_))))}""",
 """'witness':ForAll(b_,Implies(And(1<=b_,b_<bid),And(0<=F[b_],F[b_]<bs,at(P,F[b_],BIN)==b_)))}""")
pre=pre.replace("def InvC(P,i,bs,bid):","F0=Const('F0',A1)\ndef InvC(P,i,bs,bid,F=F0):")
pre=pre.replace("def Inv(P,i,bs,bid): return And(*InvC(P,i,bs,bid).values())","def Inv(P,i,bs,bid,F=F0): return And(*InvC(P,i,bs,bid,F).values())")
exec(pre)
for nm,g in InvC(Pf,i+1,bs,bid,F0).items(): prove_('pres(fits):'+nm,he+[fits],g,20000)
Pn=upd(upd(upd(upd(upd(Pl,i,L,0),i,B,0),i,R,w),i,T,h),i,BIN,bid+1)
F1=Store(F0,bid,bs)
for nm,g in InvC(Pn,i+1,i,bid+1,F1).items(): prove_('pres(newbin):'+nm,he+[Not(fits)],g,20000)
# final: surjectivity at exit from the ghost witnesses + current bin non-empty
Pe=Const('Pe',A2)
goal=ForAll(b_,Implies(And(1<=b_,b_<=bid),Exists(k,And(0<=k,k<n,at(Pe,k,BIN)==b_))))
prove_('post: bins 1..k all used',[InstPre,Inv(Pe,n,bs,bid,F0)],goal,20000)
Wt=Store(F0,bid,bs)
goal=ForAll(b_,Implies(And(1<=b_,b_<=bid),And(0<=Wt[b_],Wt[b_]<n,at(Pe,Wt[b_],BIN)==b_)))
prove_('post: bins used (skolem)',[InstPre,Inv(Pe,n,bs,bid,F0)],goal,20000)
