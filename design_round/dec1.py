# Hand-written modular VC skeleton for ibl_encoding_1._decode (design validation; not framework code)
from z3 import *
import time
I=IntSort(); A2=ArraySort(I,ArraySort(I,I)); A1=ArraySort(I,I)
ID,BIN,L,B,R,T=0,1,2,3,4,5
def at(P,i,c): return Select(Select(P,i),c)
def upd(P,i,c,v): return Store(P,i,Store(Select(P,i),c,v))
W,H,n,nd,hi=Ints('W H n nd hi')
X=Const('X',A1); INST=Const('INST',A2)
k,r,s_,b_=Ints('k r s b')
def box(P,k): return And(0<=at(P,k,L),at(P,k,L)<at(P,k,R),at(P,k,R)<=W,0<=at(P,k,B),at(P,k,B)<at(P,k,T),at(P,k,T)<=H)
def nov4(P,k,l,b,r,t): return Or(at(P,k,R)<=l,at(P,k,L)>=r,at(P,k,T)<=b,at(P,k,B)>=t)
def novrows(P,a,c): return nov4(P,a,at(P,c,L),at(P,c,B),at(P,c,R),at(P,c,T))
def absx(i): return If(X[i]<0,-X[i],X[i])
def sizeof(P,k):
    w=at(INST,at(P,k,ID)-1,0); h=at(INST,at(P,k,ID)-1,1)
    rw=at(P,k,R)-at(P,k,L); rh=at(P,k,T)-at(P,k,B)
    return Or(And(rw==w,rh==h),And(rw==h,rh==w))
# instance precondition (what Instance.__new__ guarantees) incl. dtype
mx=If(W>H,W,H); mn=If(W>H,H,W)
InstPre=And(W>=1,H>=1,nd>=1,n>=1, ForAll(k,Implies(And(0<=k,k<nd),And(1<=at(INST,k,0),at(INST,k,0)<=mx,1<=at(INST,k,1),at(INST,k,1)<=mx,
            Not(And(at(INST,k,0)>mn,at(INST,k,1)>mn)), at(INST,k,0)+mx+1<=hi, at(INST,k,1)+mx+1<=hi))), n+1<=hi,
            ForAll(k,Implies(And(0<=k,k<n),And(X[k]!=0,absx(k)<=nd))))
def rowok(P,k,bid): return And(at(P,k,ID)==absx(k), box(P,k), sizeof(P,k), 1<=at(P,k,BIN), at(P,k,BIN)<=bid)
def Inv(P,i,bs,bid):
    return And(0<=bs,bs<=i,i<=n,bid>=1, bid<=i+1, Implies(i==0,And(bs==0,bid==1)), Implies(i>0,bs<i),
      ForAll(k,Implies(And(0<=k,k<i),rowok(P,k,bid))),
      ForAll(k,Implies(And(0<=k,k<i),(k>=bs)==(at(P,k,BIN)==bid))),
      ForAll([r,s_],Implies(And(0<=r,r<i,0<=s_,s_<i,r!=s_,at(P,r,BIN)==at(P,s_,BIN)),novrows(P,r,s_))),
      ForAll(b_,Implies(And(1<=b_,b_<bid),Exists(k,And(0<=k,k<bs,at(P,k,BIN)==b_)))))
def prove_(name,hyps,goal,to=60000):
    s=Solver(); s.set('timeout',to); s.add(*hyps); s.add(Not(goal)); t0=time.time(); rr=s.check(); print(f"{name:34s}",rr,round(time.time()-t0,3))
    return rr
P0=Const('P0',A2); i,bs,bid=Ints('i bs bid')
# ---- iteration prefix: compute w,h
item=X[i]
use_id=If(item<0,-(item+1),item-1)
w0=If(item<0,at(INST,use_id,1),at(INST,use_id,0)); h0=If(item<0,at(INST,use_id,0),at(INST,use_id,1))
rot=Or(w0>W,h0>H); w=If(rot,h0,w0); h=If(rot,w0,h0)
base=[InstPre,Inv(P0,i,bs,bid),i<n]
prove_('bounds inst[use_id]',base,And(0<=use_id,use_id<nd))
prove_('forced-rotation fits',base,And(1<=w,w<=W,1<=h,h<=H))
prove_('range stores (dtype hi)',base,And(use_id+1<=hi,W-w>=0,W<=hi,H+h<=hi,H<=hi))
P1=upd(upd(upd(upd(upd(P0,i,ID,use_id+1),i,L,W-w),i,B,H),i,R,W),i,T,H+h)
# ---- while loop invariant on row i; other rows equal P1 (frame)
def WInv(P): return And(at(P,i,R)-at(P,i,L)==w, at(P,i,T)-at(P,i,B)==h, 0<=at(P,i,L), at(P,i,R)<=W, 0<=at(P,i,B), at(P,i,B)<=H,
                        at(P,i,ID)==use_id+1,
                        ForAll(k,Implies(And(0<=k,k<n,k!=i),Select(P,k)==Select(P1,k))),
                        ForAll(k,Implies(And(bs<=k,k<i),novrows(P,k,i))))
prove_('while inv-init',base,WInv(P1))
# callee contracts (as assumed posts) ---------------------------------
def xov(P,k,l,r): return And(at(P,k,R)>l,at(P,k,L)<r)
def pre_move(P): return And(0<=bs,bs<=i, ForAll(k,Implies(And(bs<=k,k<i),And(box(P,k),novrows(P,k,i)))), 0<=at(P,i,L),at(P,i,L)<at(P,i,R),at(P,i,R)<=W,0<=at(P,i,B),at(P,i,B)<at(P,i,T))
def post_down(P,Q,res):
    return And(ForAll(k,Implies(k!=i,Select(Q,k)==Select(P,k))), at(Q,i,ID)==at(P,i,ID),at(Q,i,BIN)==at(P,i,BIN),at(Q,i,L)==at(P,i,L),at(Q,i,R)==at(P,i,R),
               at(Q,i,T)-at(Q,i,B)==at(P,i,T)-at(P,i,B), res==(at(Q,i,B)<at(P,i,B)), at(Q,i,B)<=at(P,i,B), at(Q,i,B)>=0,
               ForAll(k,Implies(And(bs<=k,k<i),novrows(Q,k,i))),
               Or(at(Q,i,B)==0, Exists(k,And(bs<=k,k<i,xov(Q,k,at(Q,i,L),at(Q,i,R)),at(Q,k,T)==at(Q,i,B)))))
def post_left(P,Q,res):
    return And(ForAll(k,Implies(k!=i,Select(Q,k)==Select(P,k))), at(Q,i,ID)==at(P,i,ID),at(Q,i,BIN)==at(P,i,BIN),at(Q,i,B)==at(P,i,B),at(Q,i,T)==at(P,i,T),
               at(Q,i,R)-at(Q,i,L)==at(P,i,R)-at(P,i,L), res==(at(Q,i,L)<at(P,i,L)), at(Q,i,L)<=at(P,i,L), at(Q,i,L)>=0,
               ForAll(k,Implies(And(bs<=k,k<i),novrows(Q,k,i))),
               Or(at(Q,i,L)==0,
                  Exists(k,And(bs<=k,k<i,at(Q,k,R)==at(Q,i,L), at(Q,i,T)>at(Q,k,B), at(Q,i,B)<at(Q,k,T))),       # blocked on the left
                  Exists(k,And(bs<=k,k<i,at(Q,k,T)==at(Q,i,B), at(Q,k,L)==at(Q,i,R)))))                            # right edge at left end of a support
Pw=Const('Pw',A2); Pd=Const('Pd',A2); Pl=Const('Pl',A2); rd,rl=Bools('rd rl')
hw=base+[WInv(Pw)]
prove_('pre@call move_down',hw,pre_move(Pw))
hd=hw+[post_down(Pw,Pd,rd)]
prove_('inv-pres after down(True)',hd+[rd],WInv(Pd))
prove_('variant down',hd+[rd],And(at(Pd,i,B)+at(Pd,i,L)<at(Pw,i,B)+at(Pw,i,L),at(Pd,i,B)+at(Pd,i,L)>=0))
prove_('pre@call move_left',hd+[Not(rd)],pre_move(Pd))
hl=hd+[Not(rd),post_left(Pd,Pl,rl)]
prove_('inv-pres after left(True)',hl+[rl],WInv(Pl))
prove_('variant left',hl+[rl],And(at(Pl,i,B)+at(Pl,i,L)<at(Pw,i,B)+at(Pw,i,L),at(Pl,i,B)+at(Pl,i,L)>=0))
# ---- loop exit: rd False, rl False -> state Pl (== Pw on row i)
he=hl+[Not(rl)]
fits=Not(Or(at(Pl,i,R)>W,at(Pl,i,T)>H))
prove_('empty window => fits',he+[bs==i],fits)
# fits branch
Pf=upd(Pl,i,BIN,bid)
prove_('range BIN',he,And(bid<=hi,bid+1<=hi))
prove_('outer inv-pres (fits)',he+[fits],Inv(Pf,i+1,bs,bid))
# new-bin branch
Pn=upd(upd(upd(upd(upd(Pl,i,L,0),i,B,0),i,R,w),i,T,h),i,BIN,bid+1)
prove_('outer inv-pres (new bin)',he+[Not(fits)],Inv(Pn,i+1,i,bid+1))
