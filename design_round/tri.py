from z3 import *
import time
a,b,n,q1,q2,r1,r2=Ints('a b n q1 q2 r1 r2')
def prove_(name,hyps,goal,to=30000):
    s=Solver(); s.set('timeout',to); s.add(*hyps); s.add(Not(goal)); t0=time.time(); rr=s.check(); print(f"{name:30s}",rr,round(time.time()-t0,3)); 
    if rr==sat: print(s.model())
# floor-div as fresh q,r
fd=[a*(a-1)==2*q1+r1,0<=r1,r1<2, n*(n-1)==2*q2+r2,0<=r2,r2<2]
prove_('idx in range (a>b)',fd+[0<=b,b<a,a<=n-1],And(0<=q1+b,q1+b<q2))
prove_('idx self-play last team OOB',fd+[a==b,a==n-1,n>=2],And(0<=q1+b,q1+b<q2))
# injectivity of pair index (needed for separation table correctness)
a2,b2,q3,r3=Ints('a2 b2 q3 r3')
prove_('pair index injective',fd+[a2*(a2-1)==2*q3+r3,0<=r3,r3<2,0<=b,b<a,0<=b2,b2<a2,q1+b==q3+b2],And(a==a2,b==b2))
