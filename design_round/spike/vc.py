"""Throw-away spike: AST -> z3 VC generation for one K-subset function (design validation only)."""
import ast, inspect, textwrap, time, sys
import z3
I = z3.IntSort()

class Arr2:
    def __init__(self, name, cols):
        self.t = z3.Const(name, z3.ArraySort(I, z3.ArraySort(I, I))); self.rows = z3.Int(name + "_rows"); self.cols = cols
class Obl:
    def __init__(self, name, hyps, goal): self.name, self.hyps, self.goal = name, hyps, goal

class SymExec:
    def __init__(self, fn_ast, consts, contract):
        self.fn = fn_ast; self.consts = consts; self.c = contract; self.obls = []; self.loopno = 0
    # ---- expressions
    def ev(self, e, st, hyps):
        if isinstance(e, ast.Constant): return z3.IntVal(e.value) if isinstance(e.value, int) and not isinstance(e.value, bool) else z3.BoolVal(e.value)
        if isinstance(e, ast.Name):
            if e.id in st: return st[e.id]
            if e.id in self.consts: return z3.IntVal(self.consts[e.id])
            raise KeyError(e.id)
        if isinstance(e, ast.Call) and isinstance(e.func, ast.Name):
            f = e.func.id; args = [self.ev(a, st, hyps) for a in e.args]
            if f == "int": return args[0]
            if f == "min": return z3.If(args[0] <= args[1], args[0], args[1])
            if f == "max": return z3.If(args[0] >= args[1], args[0], args[1])
            raise NotImplementedError(f)
        if isinstance(e, ast.BinOp):
            a, b = self.ev(e.left, st, hyps), self.ev(e.right, st, hyps)
            r = {ast.Add: a + b, ast.Sub: a - b, ast.Mult: a * b}[type(e.op)]
            self.emit(f"i64@{e.lineno}", hyps, z3.And(r >= -2**63, r < 2**63)); return r
        if isinstance(e, ast.Compare):
            l = self.ev(e.left, st, hyps); out = []
            for op, c in zip(e.ops, e.comparators):
                r = self.ev(c, st, hyps)
                out.append({ast.Lt: l < r, ast.LtE: l <= r, ast.Gt: l > r, ast.GtE: l >= r, ast.Eq: l == r, ast.NotEq: l != r}[type(op)]); l = r
            return z3.And(*out) if len(out) > 1 else out[0]
        if isinstance(e, ast.BoolOp):
            vs = [self.ev(v, st, hyps) for v in e.values]  # NB: pure operands only in this spike
            return z3.And(*vs) if isinstance(e.op, ast.And) else z3.Or(*vs)
        if isinstance(e, ast.Subscript):
            arr = st[e.value.id]; i, c = [self.ev(x, st, hyps) for x in e.slice.elts]
            self.emit(f"bounds:{e.value.id}@{e.lineno}", hyps, z3.And(-arr.rows <= i, i < arr.rows, -arr.cols <= c, c < arr.cols))
            return z3.Select(z3.Select(arr.t, i), c)
        raise NotImplementedError(ast.dump(e))
    def emit(self, name, hyps, goal): self.obls.append(Obl(name, list(hyps), goal))
    # ---- statements; returns (state, hyps) for normal continuation; returns collected in self.rets
    def run(self, body, st, hyps):
        for s in body:
            if isinstance(s, ast.Expr) and isinstance(s.value, ast.Constant): continue  # docstring
            if isinstance(s, (ast.AnnAssign, ast.Assign)):
                tgt = s.target if isinstance(s, ast.AnnAssign) else s.targets[0]
                val = self.ev(s.value, st, hyps)
                if isinstance(tgt, ast.Name): st = dict(st); st[tgt.id] = val
                else:
                    arr = st[tgt.value.id]; i, c = [self.ev(x, st, hyps) for x in tgt.slice.elts]
                    self.emit(f"bounds:{tgt.value.id}@{s.lineno}", hyps, z3.And(0 <= i, i < arr.rows, 0 <= c, c < arr.cols))
                    self.emit(f"range:{tgt.value.id}@{s.lineno}", hyps, z3.And(st["D_lo"] <= val, val <= st["D_hi"]))
                    na = Arr2.__new__(Arr2); na.rows, na.cols = arr.rows, arr.cols
                    na.t = z3.Store(arr.t, i, z3.Store(z3.Select(arr.t, i), c, val)); st = dict(st); st[tgt.value.id] = na
            elif isinstance(s, ast.For):
                st, hyps = self.loop(s, st, hyps)
            elif isinstance(s, ast.If):
                cnd = self.ev(s.test, st, hyps)
                s1, h1 = self.run(s.body, st, hyps + [cnd]); s2, h2 = self.run(s.orelse, st, hyps + [z3.Not(cnd)])
                if s1 is None and s2 is None: return None, None
                if s1 is None: st, hyps = s2, h2
                elif s2 is None: st, hyps = s1, h1
                else:
                    m = {}
                    for k in s1:
                        a, b = s1[k], s2.get(k, s1[k])
                        if isinstance(a, Arr2):
                            na = Arr2.__new__(Arr2); na.rows, na.cols = a.rows, a.cols; na.t = z3.If(cnd, a.t, b.t); m[k] = na
                        else: m[k] = a if a is b else z3.If(cnd, a, b)
                    st = m
            elif isinstance(s, ast.Return):
                self.rets.append((st, hyps, self.ev(s.value, st, hyps))); return None, None
            elif isinstance(s, ast.Continue):
                self.conts.append((st, hyps)); return None, None
            else: raise NotImplementedError(ast.dump(s)[:80])
        return st, hyps
    def loop(self, s, st, hyps):
        spec = self.c["loops"][self.loopno]; self.loopno += 1
        lo, hi = [self.ev(a, st, hyps) for a in s.iter.args]; v = s.target.id
        inv = lambda stx: [f(stx) for f in spec["inv"]]
        st0 = dict(st); st0[v] = lo
        for n_, g in zip(spec["names"], inv(st0)): self.emit(f"inv-init:{n_}", hyps + [lo <= hi], g)
        # havoc assigned scalars
        hv = dict(st); 
        for name in spec["havoc"]: hv[name] = z3.FreshInt(name)
        k = z3.FreshInt(v); hv[v] = k
        hh = hyps + [lo <= k, k <= hi] + inv(hv)
        self.conts = []
        sb, hb = self.run(s.body, hv, hh + [k < hi])
        ends = ([(sb, hb)] if sb is not None else []) + self.conts
        for (se, he) in ends:
            se = dict(se); se[v] = k + 1
            for n_, g in zip(spec["names"], inv(se)): self.emit(f"inv-pres:{n_}", he, g)
        ex = dict(hv); ex[v] = hi
        return ex, hyps + [lo <= hi] + inv(ex) if True else None

def discharge(obls, to=10000):
    ok = True
    for o in obls:
        s = z3.Solver(); s.set("timeout", to); s.add(*o.hyps); s.add(z3.Not(o.goal)); t = time.time(); r = s.check()
        print(f"  {o.name:34s} {str(r):8s} {time.time()-t:.3f}s"); ok &= (r == z3.unsat)
    return ok
