import ast, z3, sys
from vc import *
SRC = "/repo/moptipyapps/binpacking2d/encodings/ibl_encoding_1.py"
tree = ast.parse(open(SRC).read())
fn = next(n for n in tree.body if isinstance(n, ast.FunctionDef) and n.name == sys.argv[1])
consts = dict(IDX_ID=0, IDX_BIN=1, IDX_LEFT_X=2, IDX_BOTTOM_Y=3, IDX_RIGHT_X=4, IDX_TOP_Y=5)
L, B, R, T = 2, 3, 4, 5
P = Arr2("packing", 6); bs, i1, W, H, lo, hi = z3.Ints("bin_start i1 W H D_lo D_hi"); k = z3.Int("k")
at = lambda a, i, c: z3.Select(z3.Select(a.t, i), c)
box = lambda a, k: z3.And(0 <= at(a,k,L), at(a,k,L) < at(a,k,R), at(a,k,R) <= W, 0 <= at(a,k,B), at(a,k,B) < at(a,k,T), at(a,k,T) <= H)
nov = lambda a, k, l, b, r, t: z3.Or(at(a,k,R) <= l, at(a,k,L) >= r, at(a,k,T) <= b, at(a,k,B) >= t)
st0 = {"packing": P, "bin_start": bs, "i1": i1, "D_lo": lo, "D_hi": hi}
l0, b0, r0, t0 = (at(P, i1, c) for c in (L, B, R, T))
pre = [0 <= bs, bs <= i1, i1 < P.rows, P.rows < 2**40, W <= 10**12, H <= 10**12, lo <= -1, lo >= -2**63, hi < 2**63, hi >= H + (t0 - b0),
       z3.ForAll(k, z3.Implies(z3.And(bs <= k, k < i1), z3.And(box(P, k), nov(P, k, l0, b0, r0, t0)))),
       0 <= l0, l0 < r0, r0 <= W, 0 <= b0, b0 < t0, b0 <= H, t0 <= hi]
if sys.argv[1] == "__move_down":
    cond = lambda s, k: z3.And(at(s["packing"],k,R) > s["packing_i1_left_x"], at(s["packing"],k,L) < s["packing_i1_right_x"], at(s["packing"],k,B) < s["packing_i1_top_y"])
    contract = {"loops": [{"havoc": ["min_down"], "names": ["range", "bound"],
        "inv": [lambda s: z3.And(0 <= s["min_down"], s["min_down"] <= s["packing_i1_bottom_y"]),
                lambda s: z3.ForAll(k, z3.Implies(z3.And(bs <= k, k < s["i0"], cond(s, k)), s["min_down"] <= s["packing_i1_bottom_y"] - at(s["packing"], k, T)))]}]}
    def post(stf, res):
        Q = stf["packing"]; nb, nt = at(Q, i1, B), at(Q, i1, T)
        return [("result<=>moved", res == (nb < b0)), ("height", nt - nb == t0 - b0), ("nonneg", nb >= 0),
                ("nooverlap", z3.ForAll(k, z3.Implies(z3.And(bs <= k, k < i1), nov(Q, k, l0, nb, r0, nt)))),
                ("frame", z3.ForAll(k, z3.Implies(k != i1, z3.Select(Q.t, k) == z3.Select(P.t, k))))]
else:
    sup = lambda s, k: z3.And(at(s["packing"],k,L) < s["packing_i1_right_x"], at(s["packing"],k,R) > s["packing_i1_left_x"], at(s["packing"],k,T) == s["packing_i1_bottom_y"])
    blk = lambda s, k: z3.And(at(s["packing"],k,L) < s["packing_i1_right_x"], z3.Not(z3.And(at(s["packing"],k,R) > s["packing_i1_left_x"], at(s["packing"],k,L) < s["packing_i1_right_x"])),
                              s["packing_i1_top_y"] > at(s["packing"],k,B), s["packing_i1_bottom_y"] < at(s["packing"],k,T))
    contract = {"loops": [{"havoc": ["min_left"], "names": ["range", "support", "blocker"],
        "inv": [lambda s: z3.And(0 <= s["min_left"], s["min_left"] <= s["packing_i1_left_x"]),
                lambda s: z3.ForAll(k, z3.Implies(z3.And(bs <= k, k < s["i0"], sup(s, k)), s["min_left"] <= s["packing_i1_right_x"] - at(s["packing"], k, L))),
                lambda s: z3.ForAll(k, z3.Implies(z3.And(bs <= k, k < s["i0"], blk(s, k)), s["min_left"] <= s["packing_i1_left_x"] - at(s["packing"], k, R)))]}]}
    def post(stf, res):
        Q = stf["packing"]; nl, nr = at(Q, i1, L), at(Q, i1, R)
        return [("result<=>moved", res == (nl < l0)), ("width", nr - nl == r0 - l0), ("nonneg", nl >= 0),
                ("nooverlap", z3.ForAll(k, z3.Implies(z3.And(bs <= k, k < i1), nov(Q, k, nl, b0, nr, t0))))]
ex = SymExec(fn, consts, contract); ex.rets = []; ex.conts = []
ex.run(fn.body, st0, pre)
for (stf, hf, res) in ex.rets:
    for n_, g in post(stf, res): ex.emit(f"post:{n_}", hf, g)
print(sys.argv[1], "obligations:", len(ex.obls))
print("ALL PROVED" if discharge(ex.obls) else "NOT ALL PROVED")
