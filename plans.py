"""Which contracts, lemmas and bounded stand-ins decide which property."""
from pyvc.check import Plan

import contracts.binpacking  # noqa: F401
import contracts.tsp  # noqa: F401

E1 = "moptipyapps.binpacking2d.encodings.ibl_encoding_1"
TL = "moptipyapps.tsp.tour_length"

PLANS = {}

REV = "moptipyapps.tsp.ea1p1_revn"
FEA = "moptipyapps.tsp.fea1p1_revn"
import bounded.tsp_solve  # noqa: E402

PLANS["C06"] = Plan(
    "C06", "proof",
    functions=[REV + ":rev_if_not_worse", FEA + ":rev_if_h_not_worse", REV + ":TSPEA1p1revn.solve",
               FEA + ":TSPFEA1p1revn.solve"],
    lemmas=["path_split", "path_frame", "path_left", "path_rev", "path_bound", "tour_le_ub"],
    bounded=[bounded.tsp_solve.harness],
    explanation="kernels: permutation preserved, returned length exact (segment-reversal lemmas proved by induction), "
                "EA never worse, FEA table indices in [0, UB]; solve loops: invariant perm(x) and y == tour(x), "
                "pre@call:register proves every registered pair",
    trusted=["axiom tour_le_ub (= definition of the ghost predicate tour_bounded; justified by C05 + Lean lemma A3)",
             "summaries of moptipy/numpy calls in solve() (E2, E3, E4)"],
)

PLANS["C05"] = Plan(
    "C05", "proof",
    functions=[TL + ":tour_length"],
    explanation="tour_length equals the cyclic edge sum for every matrix/permutation/dtype; no int64 overflow",
)
