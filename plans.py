"""Which contracts, lemmas and bounded stand-ins decide which property."""
from pyvc.check import Plan

import contracts.binpacking  # noqa: F401
import contracts.tsp  # noqa: F401

E1 = "moptipyapps.binpacking2d.encodings.ibl_encoding_1"
TL = "moptipyapps.tsp.tour_length"

PLANS = {}

PLANS["C05"] = Plan(
    "C05", "proof",
    functions=[TL + ":tour_length"],
    explanation="tour_length equals the cyclic edge sum for every matrix/permutation/dtype; no int64 overflow",
)
