"""Which contracts, lemmas and bounded stand-ins decide which property."""
from pyvc.check import Plan
from pyvc import leancheck

import contracts.binpacking  # noqa: F401
import contracts.tsp  # noqa: F401
import contracts.qap  # noqa: F401
import contracts.objectives  # noqa: F401
import contracts.ttp  # noqa: F401
import bounded.ttp_errors  # noqa: E402
import bounded.ttp_plan  # noqa: E402
import bounded.control  # noqa: E402
import bounded.c13_spaces  # noqa: E402
import bounded.packing_validate  # noqa: E402
import bounded.qap  # noqa: E402
import bounded.tsplib  # noqa: E402
import bounded.order1d  # noqa: E402
import bounded.bp_lower_bound  # noqa: E402
import bounded.instgen  # noqa: E402
import bounded.text_roundtrip  # noqa: E402
import bounded.ode  # noqa: E402
import bounded.fom  # noqa: E402
import bounded.tsp_instance  # noqa: E402
import contracts.fom  # noqa: E402
import contracts.validate  # noqa: E402
import contracts.ode  # noqa: E402
import contracts.tsp_instance  # noqa: E402
import contracts.bp_instance  # noqa: E402
import contracts.order1d  # noqa: E402
import contracts.tsplib  # noqa: E402
import contracts.control  # noqa: E402
import contracts.control_kernels  # noqa: E402
import contracts.instgen  # noqa: E402
import bounded.bl_reference  # noqa: E402
import bounded.objectives_oracle  # noqa: E402

E1 = "moptipyapps.binpacking2d.encodings.ibl_encoding_1"
E2 = "moptipyapps.binpacking2d.encodings.ibl_encoding_2"
TL = "moptipyapps.tsp.tour_length"

PLANS = {}
ODE = "moptipyapps.dynamic_control.ode"

PLANS["C01"] = Plan(
    "C01", "proof",
    functions=[E1 + ":__move_down", E1 + ":__move_left", E1 + ":_decode",
               E2 + ":__move_down", E2 + ":__move_left", E2 + ":_decode"],
    explanation="decoders: every row inside the bin, same-bin rows pairwise disjoint, id/size/rotation, bins 1..k gap-free "
                "(ghost witness rows), bin count, every stored value within the instance dtype",
    bounded=[bounded.bl_reference.harness_feasible],
    trusted=["E1: int_range_to_dtype returns a type containing the requested range",
             "E2: moptipy SignedPermutations keeps the multiset of item ids (x[k] != 0, |x[k]| <= n_different_items)"],
)

OB = "moptipyapps.binpacking2d.objectives."
_OBJ = [OB + f"{n}:{n}" for n in ("bin_count_and_last_empty", "bin_count_and_empty", "bin_count_and_last_small",
                                  "bin_count_and_small", "bin_count_and_last_skyline", "bin_count_and_lowest_skyline")]
_PK = {"IDX_BIN": 1, "IDX_LEFT_X": 2, "IDX_BOTTOM_Y": 3, "IDX_RIGHT_X": 4, "IDX_TOP_Y": 5}
PLANS["C02"] = Plan(
    "C02", "other",
    functions=_OBJ,
    lemmas=["count_zero", "count_le", "area_zero", "area_le", "mul_le", "mul_le2"],
    consts=_PK,
    bounded=[bounded.objectives_oracle.harness],
    explanation="proved: the four count/area kernels equal their spec functions (maxbin, count_in, area_in; minimum over bins "
                "as attained lower bound) for arbitrary row order and sparse bins, no overflow, scratch write-before-read; "
                "the two skyline kernels: memory safety, no overflow, termination, and the value is (bins-1)*A plus the area "
                "under the skyline of the last bin, resp. the minimum of that area over all bins - the skyline is the "
                "recursive spec skyh (height of the tallest item covering a column), its area the column sum skyarea; the "
                "sweep is justified segment by segment (lemmas seg_le, seg_ge, sky_nonneg, seg_sum by induction); "
                "lower_bound() / upper_bound() / to_bin_count() of the three base classes (the other four inherit them) are "
                "the documented functions of the instance attributes (smallest item area as a recursive minimum), and every "
                "value scale*(k-1)+tie of the count and area objectives lies between them, converts back to k, and is "
                "strictly smaller for fewer bins (lemmas bounds_item_count, bounds_area, dominance; they take L <= k from "
                "C03 and k <= n_items from feasibility). "
                "bounded: all seven objective classes vs an independent recomputation incl. area under the skyline, "
                "declared bounds, to_bin_count and dominance (not counted as proved)",
    assumptions=["a packing has fewer than 2**31 rows (n*n and n*bin_area fit in int64)",
                 "the lower-bound clause of the two skyline objectives needs 'area under the skyline >= covered area' (A1', "
                 "lean/A1b.lean, Lean-checked in the design round) and, like the other bound clauses, the facts a feasible "
                 "packing provides (every bin 1..k holds an item, items are the instance's items, k <= n_items): hypotheses "
                 "of the lemmas, established by C01 / C04, not re-derived here", "bounds clause rests on C03 (lower_bound_bins <= bins)"],
)

ER = "moptipyapps.ttp.errors"
PLANS["C07"] = Plan(
    "C07", "other",
    functions=[ER + ":count_errors", ER + ":count_errors#complete"],
    lemmas=["tri_bound", "trin_closed", "trin_nonneg", "trin_mono", "trin_up", "trin_dn", "trin_inj_all", "pm_range", "pm_ge"],
    bounded=[bounded.ttp_errors.harness],
    explanation="proved on count_errors: every array access in range for every plan with entries in -n..n (self-play included), "
                "scratch arrays written before read (no dependence on earlier evaluations), stores within the scratch dtype, "
                "result >= 0, and result == 0 implies, for every number of teams, days and every admissible setting of the "
                "limits: every team plays every day, all entries are mutually consistent, every pairing occurs "
                "days // (n - 1) times with home / away roles differing by at most one (scratch table = recursive home-game "
                "count), and no home or away streak leaves its permitted range (streak state machine = recursive streak "
                "lengths hs / aw; maximum on every day, minimum at every streak end incl. the end of the plan), and repeated "
                "meetings of a pairing respect the separation limits (triangular scratch table = recursive previous-meeting "
                "day per pair, slots of different pairs proved distinct; the second scan of a pair is shown to be skipped by "
                "consistency) - i.e. a plan with value 0 is a feasible schedule; and conversely (second contract "
                "count_errors#complete on the same real function): for a plan that satisfies these four clauses every "
                "statement that adds to the counter is unreachable or adds 0, so the value is 0 - zero if and only if "
                "feasible, for all sizes and limits (generated feasible plans witness that the hypothesis is satisfiable). "
                "bounded (exhaustive): value == documented "
                "per-rule count against a statement-derived executable specification over ALL 12^6 consistent 4-team plans x "
                "constraint settings, plus random plans",
    assumptions=["the error counter is treated as a mathematical integer (no int64 overflow obligation: a bound needs "
                 "n*D*limits, stated as assumption)", "E1 for the scratch dtype chosen in Errors.__init__"],
)

PL = "moptipyapps.ttp.plan_length"
GE = "moptipyapps.ttp.game_encoding"
PLANS["C08"] = Plan(
    "C08", "proof",
    functions=[PL + ":game_plan_length", PL + ":GamePlanLength.__init__", PL + ":GamePlanLength.evaluate",
               PL + ":GamePlanLength.upper_bound", PL + ":GamePlanLength.lower_bound"],
    lemmas=["loc_range", "team_bound", "total_bound", "bye_prefix", "bye_other_team", "bye_walk", "bye_increases", "bye_clause"],
    bounded=[bounded.ttp_plan.harness_c08],
    explanation="proved: game_plan_length equals the recursive tournament-walk specification (location per day, away venue, "
                "stay/return for home games, bye penalty, return leg) for every plan with entries in -n..n and every "
                "non-negative distance matrix; indices in range; GamePlanLength.__init__ sets bye_penalty = 2 * max distance "
                "+ 1; GamePlanLength.evaluate lies in [lower_bound(), upper_bound()] = [0, n * days * bye_penalty] (induction "
                "over days and teams: a game day costs at most M and leaves M + 1 of its allowance for the trip home); "
                "bye clause: replacing any game of any team on any day by a day off strictly increases the walk "
                "(relational lemmas over the two plans, induction over days and teams) - all for every n, every number of "
                "days, every matrix. bounded: the same clauses on sampled plans with the real objects; optimum clause "
                "exhaustive over all 12^6 consistent 4-team plans x 7 instances (a finite statement, decided by enumeration)",
    assumptions=["length accumulator treated as a mathematical integer (the proved upper bound n*days*(2*max+1) is far below "
                 "2^63 for every instance the constructor accepts)"],
)
PLANS["C15"] = Plan(
    "C15", "other",
    functions=[GE + ":map_games", GE + ":search_space_for_n_and_rounds"],
    lemmas=["divmod_unique"],
    bounded=[bounded.ttp_plan.harness_c15],
    explanation="proved: map_games decodes every game to two different teams in range, places it on the earliest day on which "
                "both columns are still free (all earlier days blocked, that day free), touches exactly those two cells, drops it "
                "otherwise; the plan stays mutually consistent, in -n..n, without self-play; all stores fit the plan dtype; the search-space generator and the decoder agree on the game code: every "
                "code appended by the real generator loop lies in [0, n*(n-1)), its quotient by n-1 is the home city chosen "
                "for the pair (i, j) and its remainder is the other city squeezed past it - exactly what map_games decodes. "
                "Ghost pair tables and invariants over the three generator loops prove that every pairing is appended exactly "
                "`rounds` times and that the home / away roles of a pairing differ by at most one, for every n and every "
                "number of rounds. bounded (exhaustive in n <= 24/40, rounds <= 7/9): per-team balance of home and away "
                "games (a combinatorial property of the alternation in the last odd round) and the whole composition again; "
                "multiplicity clause of decoded plans on samples",
    assumptions=["E1 for the game-plan dtype (holds -n..n)"],
)

QO = "moptipyapps.qap.objective"
PLANS["C13"] = Plan(
    "C13", "proof",
    functions=[E1 + ":__move_down", E1 + ":__move_left", E1 + ":_decode", E2 + ":__move_down", E2 + ":__move_left",
               E2 + ":_decode"] + _OBJ + ["moptipyapps.order1d.distances:swap_distance", ER + ":count_errors", PL + ":game_plan_length", GE + ":map_games",
               "moptipyapps.tsp.tour_length:tour_length", "moptipyapps.tsp.ea1p1_revn:rev_if_not_worse",
               "moptipyapps.tsp.fea1p1_revn:rev_if_h_not_worse", QO + ":_evaluate",
               ODE + ":_is_ok", ODE + ":__j_from_ode_compute", ODE + ":j_from_ode"],
    lemmas=["tri_bound", "mul_le"],
    extra=[contracts.control.prove_c16, contracts.control.prove_c13_other_controllers],
    explanation="one bounds obligation (-len <= index < len, the exact memory-safety condition of numpy/numba indexing) per "
                "subscript of every njit kernel, discharged under the pre-conditions that the public spaces and constructors "
                "establish, together with the loop invariants those obligations rest on; the kernel inventory (every function "
                "of the package decorated with numba's jit) is recomputed from /repo on every run and compared with the "
                "functions under contract",
    trusted=["pre-conditions = what PackingSpace/decoders, GamePlanSpace.validate (entries in -n..n incl. self-play), "
             "Permutations and the instance constructors establish (E1, E2)"],
)

_MOB = "moptipyapps.dynamic_control.model_objective"
_SPT = "moptipyapps.dynamic_control.starting_points"
PLANS["C13"].functions += ["moptipyapps.ttp.game_plan_space:GamePlanSpace.validate", _MOB + ":_evaluate", _MOB + ":ModelObjective.begin", _MOB + ":ModelObjective.evaluate",
                           _SPT + ":interesting_point_transform", _SPT + ":interesting_point_objective"]
# compiled kernels that are knowingly not under contract (reported in the evidence, never counted)
_C13_UNCOVERED = {
    "moptipyapps.dynamic_control.surrogate_optimizer:SurrogateOptimizer.solve.__new_model":
        "closure created inside SurrogateOptimizer.solve: `_eq(np.hstack((state, control)), time, _params, out)` - no "
        "subscript at all; the function object is created at run time and is not reachable by the extractor",
}


def _prove_c13_inventory(tier, seed):
    """every compiled kernel of the package must be under a C13 contract (or in the explicit list above): a kernel that
    appears in /repo without one makes C13 undecided for it - never a violation"""
    from pyvc.floatsym import Res
    inv = contracts.control.kernel_inventory()
    covered = {f.partition("#")[0] for f in PLANS["C13"].functions}
    covered |= {r.fn for ex in (contracts.control.prove_c16, contracts.control.prove_c13_other_controllers)
                for r in getattr(ex, "last", [])}
    res = []
    for q in inv:
        if q in covered:
            st, why = "proved", "under contract"
        elif q in _C13_UNCOVERED:
            continue
        else:
            st, why = "undecided", "compiled kernel without a contract: C13 is not decided for it"
        res.append(Res(q, "inventory", "kernel-under-contract", frozenset(["C13"]), st, backend="inventory", reason=why))
    _prove_c13_inventory.uncovered = [q for q in inv if q in _C13_UNCOVERED]
    return res


PLANS["C13"].extra.append(_prove_c13_inventory)
PLANS["C13"].bounded = list(PLANS["C13"].bounded) + [bounded.c13_spaces.harness]
PLANS["C13"].assumptions = list(PLANS["C13"].assumptions) + [
    f"compiled kernel not under contract: {k} ({v})" for k, v in _C13_UNCOVERED.items()]

_MIN_ANN = ["moptipyapps.dynamic_control.controllers.min_ann:" + k for k in (
    "__min_ann_2d_1o_1", "__min_ann_3d_1o_1", "__min_ann_2d_1o_2", "__min_ann_3d_1o_2", "__min_ann_2d_1o_3",
    "__min_ann_3d_1o_3")]
PLANS["C16"] = Plan(
    "C16", "proof",
    functions=list(_MIN_ANN),
    extra=[contracts.control.prove_c16],
    bounded=[bounded.control.harness_min_ann],
    explanation="every controller kernel and system-equation kernel is read from /repo, evaluated symbolically over the reals and "
                "compared with its documented function: polynomial controllers by polynomial normal form (every monomial of "
                "degree 1..d exactly once, one parameter each, bijection onto the declared param_dims, no constant term); "
                "partially linear controllers against 'law of the nearest anchor, first on ties' by z3 non-linear real "
                "arithmetic per path and anchor; peak controllers and generated ANN programs (captured generator output, per "
                "architecture) against the network evaluated layer by layer; Stuart-Landau, Lorenz, three-oscillator systems "
                "against the published equations; constant indices within declared dims; no kernel writes its inputs; the six "
                "minimising-network kernels (bracket + golden-section search, real source, arctan uninterpreted) return a "
                "value inside [-1000, 1000]: bracket points stay on the grid -990 + 10 k (ghost integers), section points "
                "between x_low and x_high, nextafter never crosses its argument (partial correctness)",
    trusted=["sympy polynomial arithmetic / z3 nlsat", "IEEE arithmetic treated as real arithmetic (kernels use fastmath)",
             "parameter layout of partially linear / peak / ANN controllers: block order as documented in this contract"],
    assumptions=["min_ann controllers: termination of the search loops is not proved (the bounded harness runs them); floats as "
                 "reals, arctan total, nextafter(x, +-inf) on the far side of x never",
                 "predefined controllers: formulas not covered (memory safety proved under C13)"],
)

PLANS["C04"] = Plan(
    "C04", "proof",
    functions=["moptipyapps.binpacking2d.packing_space:PackingSpace.validate#sound",
               "moptipyapps.binpacking2d.packing_space:PackingSpace.validate#complete"],
    lemmas=["cnt_le", "cnt_full", "cnt_tail", "cnt_add", "cnt_prefix", "scnt_step", "scnt_rows", "scnt_zero",
            "rowcount_nonneg", "pigeon"],
    consts={"IDX_ID": 0, "IDX_BIN": 1, "IDX_LEFT_X": 2, "IDX_BOTTOM_Y": 3, "IDX_RIGHT_X": 4, "IDX_TOP_Y": 5,
            "IDX_WIDTH": 0, "IDX_HEIGHT": 1, "IDX_REPETITION": 2},
    bounded=[bounded.packing_validate.harness],
    explanation="two contracts on the real method PackingSpace.validate: #sound - on normal return the packing is Feasible "
                "(every row valid id/bin/box/size in one of the two orientations, no overlap within a bin, every id with its "
                "prescribed multiplicity (pigeonhole lemma over the Counter model), bins contiguous from 1 (cardinality lemmas "
                "over the set model), stored bin count correct); #complete - for a Feasible packing every `raise` is "
                "unreachable.  Python set / Counter / dict-iteration statements are replaced by summaries on a characteristic-"
                "array model (listed as assumptions).  from_str (numpy text parsing) and the type/shape/identity checks: "
                "bounded harness with clause-derived corruption classes",
    trusted=["summaries of set(), Counter(), max/min/len of a set and the items.items() loop on the array model",
             "assumed contract of pycommons.check_int_range"],
    assumptions=["Instance invariants (repetitions >= 1 summing up to n_items) are taken from Instance.__new__ (block "
                 "contract #dtype proves the sum; E-level assumption here)"],
)

PLANS["C09"] = Plan(
    "C09", "other",
    functions=[QO + ":_evaluate", QO + ":QAPObjective.evaluate", "moptipyapps.qap.instance:Instance.__init__#dtype"],
    bounded=[bounded.qap.harness],
    extra=[contracts.qap.prove_c09_bounds, leancheck.lean_prover(["A4.lean"], "C09")],
    explanation="proved: _evaluate == sum_{i,j} flows[i,j] * distances[x[i],x[j]] (recursive spec qsum/qrow) for every pair of "
                "non-negative matrices, every index vector in range and every storage dtype up to int64/uint32, all "
                "intermediate values within int64; QAPObjective.evaluate (the public entry point) returns exactly that sum for "
                "the instance's two matrices (modular call of _evaluate's contract: every pre-condition established at the "
                "call site, nothing done to the value afterwards); the storage type chosen by Instance.__init__ holds every entry of both "
                "matrices whatever the bounds are (block contract; defect F12 repaired); trivial_bounds (whole-array numpy code, read from /repo) has exactly the "
                "operation tree lower = sum(sort(flows) * reverse(sort(distances))), upper = sum(sort(flows) * "
                "sort(distances)) in uint64 buffers; that these sums bound the objective of every assignment is the "
                "rearrangement inequality A4 (lean/A4.lean, re-checked by Lean 4 + Mathlib in the thorough tier). "
                "bounded: QAPLIB text loading under arbitrary wrapping (incl. lines straddling "
                "the two matrices), value within [lower_bound, upper_bound] for all n! permutations, n <= 6",
    assumptions=["A4 (lean/A4.lean: qap_upper, qap_lower, qap_flatten, qap_bounds - the rearrangement inequality and the link "
                 "between the double sum and the flattened matrices via the pair bijection (i, j) -> (p(i), p(j))) is accepted "
                 "by Lean 4 + Mathlib without sorry; re-checked in the thorough tier only (cold start of Mathlib)",
                 "numpy semantics of flatten / sort / [::-1] / multiply / sum (external)",
                 "numba keeps the int64 accumulator for unsigned element types (typing observed in the design round)",
                 "QAPLIB parser (string processing): bounded only"],
)

PLANS["C18"] = Plan(
    "C18", "other",
    functions=["moptipyapps.tsp.instance:_matrix_from_edge_weights#UPPER_ROW",
               "moptipyapps.tsp.instance:_matrix_from_edge_weights#LOWER_DIAG_ROW",
               "moptipyapps.tsp.instance:_matrix_from_edge_weights#UPPER_DIAG_ROW"],
    lemmas=["uoff_closed", "loff_closed", "udoff_closed", "mul_even"],
    extra=[contracts.tsplib.prove_c18],
    bounded=[bounded.tsplib.harness],
    explanation="proved: the index walkers of the explicit formats UPPER_ROW, LOWER_DIAG_ROW, UPPER_DIAG_ROW (the real function "
                "with the format string fixed, other branches statically dead) fill res[a,b] = res[b,a] = ints[Off(a) + ...] "
                "exactly as TSPLIB95 lays the triangle out (recursive offset functions with closed forms proved by "
                "induction), zero diagonal, all indices in range for every n; the operation DAGs of __nint, __coord_to_rad, __dist_2deuc, __dist_2dceil, __dist_att, __dist_loglat "
                "(read from /repo, int = truncation, sqrt/cos/acos uninterpreted) are identical to the TSPLIB95 definitions. "
                "bounded: write/read round trip, the four explicit formats under random wrapping and with arbitrary diagonal fillers, coordinate instances vs an "
                "independent implementation; exhaustive over the data: all 31 shipped optimal tours",
    assumptions=["GEO uses truncating degree extraction, PI = 3.141592, RRR = 6378.388 (the reading of TSPLIB95 that reproduces "
                 "the published optima)", "FULL_MATRIX (numpy reshape) and the tokenizer / __read_n_ints: bounded only",
                 "assumed contract of __read_n_ints: returns exactly k integers of magnitude <= 10^12"],
)

PLANS["C20"] = Plan(
    "C20", "other",
    functions=["moptipyapps.order1d.distances:swap_distance", "moptipyapps.order1d.instance:Instance.__init__#distances",
               "moptipyapps.order1d.instance:Instance.__init__#flows"],
    bounded=[bounded.order1d.harness],
    explanation="proved: the distance matrix built by order1d.Instance.__init__ is |i - j| (block contract on the real loops); "
                "the flow matrix (block contract on the real double loop, the float expression abstracted as one function "
                "of the rank) is zero on the diagonal and beyond the horizon and is a function of the rank alone, so "
                "equally ranked neighbours get equal flows; "
                "swap_distance never leaves its arrays, reads the scratch flags only after writing them, returns a value "
                "in [0, n] (for every x with entries in range). bounded/exhaustive: swap_distance == minimum number of "
                "transpositions (BFS) for all permutations up to length 6 (thorough: 7); instance construction clauses "
                "(merging, representative index, |i-j|, flow clauses) on generated sequences with duplicates and ties",
    assumptions=["E4: numpy argsort / fancy indexing yield a permutation for permutation inputs", "monotonicity of the flows in the rank rests on monotonicity of x -> round(m * x ** p) "
                 "(float pow / round, external): sampled only", "A4 minimum-transposition "
                 "theorem is not used: the minimum is computed by breadth-first search in the bounded part",
                 "termination of the cycle walk not proved"],
)

PLANS["C03"] = Plan(
    "C03", "other",
    functions=["moptipyapps.binpacking2d.instance:Instance.__new__", "moptipyapps.binpacking2d.instance:__lb_q#tail"],
    bounded=[bounded.bp_lower_bound.harness],
    explanation="proved (Hoare triple on the real statement block of Instance.__new__ from `bin_area = ...` to "
                "`obj.lower_bound_bins = ...`): the geometric bound is the exact ceiling of total item area / bin area and the "
                "stored bound is max(geometric, DAMV), hence at least the area bound; the arithmetic tail of __lb_q returns at most "
                "exactly |S1| + |S2| + max(ceil(sum3/W), ceil(|S3'|/floor(W/(floor(H/2)+1)))) + max(0, ceil(denom/(W*H))) "
                "with integer ceilings (the sets enter through their sizes and sums). 'at most the optimum' rests on the "
                "Dell'Amico-Martello-Vigo theorem (A2, assumed) and is backed by a bounded harness with instances whose optimum "
                "is known by construction",
    assumptions=["A2: the DAMV bound L(q) is a valid lower bound for 2D bin packing with rotation (theorem, not proved here)",
                 "item_area = sum of w*h*repetitions (item loop of __new__): not under contract"],
    trusted=["assumed contracts of check_int_range and _lower_bound_damv (result >= 1)"],
)

PLANS["C17"] = Plan(
    "C17", "other",
    functions=["moptipyapps.binpacking2d.instgen.errors:Errors.evaluate",
               "moptipyapps.binpacking2d.instgen.hardness:Hardness.evaluate",
               "moptipyapps.binpacking2d.instgen.hardness:Hardness.evaluate#term",
               "moptipyapps.binpacking2d.instgen.hardness:Hardness.evaluate#clamped",
               "moptipyapps.binpacking2d.instgen.errors_and_hardness:ErrorsAndHardness.evaluate",
               "moptipyapps.binpacking2d.instgen.inst_decoding:InstanceDecoder.decode#split-cut",
               "moptipyapps.binpacking2d.instgen.inst_decoding:InstanceDecoder.decode#area-floor",
               "moptipyapps.binpacking2d.instgen.inst_decoding:InstanceDecoder.decode#slack-cut"],
    bounded=[bounded.instgen.harness],
    alternatives=[(["moptipyapps.binpacking2d.instgen.hardness:Hardness.evaluate#clamped"],
                   ["moptipyapps.binpacking2d.instgen.hardness:Hardness.evaluate#term",
                    "moptipyapps.binpacking2d.instgen.hardness:Hardness.evaluate"])],
    explanation="proved: instgen.Errors.evaluate, Hardness.evaluate and ErrorsAndHardness.evaluate clamp their results to [0, 1] (block contracts on "
                "the return statements); three "
                "Hoare triples on the real statements of InstanceDecoder.decode that carry the area argument: a splitting cut "
                "(phase 1) replaces one item by two positive parts of the same total size or changes nothing; after phase 1 "
                "the area is min_bins * bin area and the floor min_area exceeds (min_bins - 1) * bin area; a slack cut (phase 2) "
                "decrements current_area by exactly the area it removes from the item, never below min_area, and leaves a "
                "positive item - for every item, cut dimension and selector value. bounded: "
                "post-condition of InstanceDecoder.decode monitored on templates x slack x vectors incl. the extreme values and "
                "their float neighbours (name, bin size, item count, total area in ((min_bins-1)*A, min_bins*A], lower bound == "
                "min_bins, repeatability), Errors == 0 for the template; Hardness and ErrorsAndHardness (tiny budgets) in [0, 1] and "
                "Hardness identical for three evaluations of the same decoded instance",
    assumptions=["InstanceDecoder.decode as a whole (list-of-lists surgery, float-to-int item selection, merging, shuffling) is not "
                 "under a deductive contract: the three block contracts cover its arithmetic core, the rest is bounded only; "
                 "in the block contracts the selected item is a two-cell integer array and `items.append` is a summary", "Hardness repeatability (runs inner optimisers): bounded only, on a few decoded instances with max_fes=40",
                 "'can be packed into exactly min_bins bins' is covered through the area/lower-bound pair only"],
)

PLANS["C19"] = Plan(
    "C19", "exploration",
    bounded=[bounded.text_roundtrip.harness],
    explanation="bounded only: no contract here is decidable by the installed solvers (str.join/split, str(int), np.fromstring, "
                "moptipy CSV classes); the round-trip contracts from_X(to_X(o)) == o are monitored at run time on generated "
                "instances, packings, game plans, orderings and heterogeneous result/statistics tables",
    assumptions=["exploration: finite generated sample, nothing proved"],
)

PLANS["C10"] = Plan(
    "C10", "other",
    functions=[ODE + ":_is_ok", ODE + ":__j_from_ode_compute", ODE + ":j_from_ode"],
    lemmas=["mul_le"],
    bounded=[bounded.ode.harness],
    explanation="proved: _is_ok returns True iff every element lies strictly inside (-1e10, 1e10); __j_from_ode_compute stays "
                "inside both arrays and fills the destination exactly (closed form of the write index), for all row/column/"
                "state-dimension combinations, and the cells of the destination are in one-to-one correspondence (ghost maps "
                "cell <-> (time step, column), mutually inverse) with the documented summands: squared controls of row r-1 "
                "times gamma * (t_r - t_(r-1)) for every step r, squared used states of row r-1 times (t_r - t_(r-1)) for "
                "every step r >= 2 (start state skipped, last row skipped), clipped at 1e100; j_from_ode allocates exactly "
                "that buffer, hands a completely written buffer to fsum, returns fsum(those summands) / final time, and "
                "1e200 for runs with at most one row. bounded: post-condition of run_ode (shape, first row, "
                "strictly increasing times, finiteness, |v| < 1e10, control entries recomputed, failure row) and the "
                "documented figure of merit on a fixed family of programs incl. diverging / NaN / inf controllers and linear "
                "systems with closed-form solutions",
    assumptions=["termination and accuracy of scipy's RK45: not decided (N/A inside C10)", "floats treated as reals in the proofs",
                 "the outer retry loop of run_ode (scipy objects) is not under contract: bounded only"],
)

PLANS["C11"] = Plan(
    "C11", "other",
    functions=["moptipyapps.dynamic_control.objective:FigureOfMerit.set_raw",
               "moptipyapps.dynamic_control.objective:FigureOfMerit.set_model",
               "moptipyapps.dynamic_control.objective:FigureOfMerit.evaluate",
               "moptipyapps.dynamic_control.objective:FigureOfMerit.initialize",
               "moptipyapps.dynamic_control.objective:FigureOfMerit.__append"],
    bounded=[bounded.fom.harness],
    extra=[contracts.fom.prove_c11, contracts.fom.prove_c11_surrogate],
    explanation="proved (object state against the abstract view mode/collecting/collected blocks): evaluate returns one fixed "
                "expression in (x, configuration, current equations): every read of the re-used buffer __results is preceded "
                "by a write in the same call (so earlier evaluations cannot leak in), the aggregate is taken over the figures "
                "of merit of all training cases, 1e200 exactly when a case or the aggregate leaves [0, 1e100], no attribute "
                "is assigned, training data grows only while collecting and by one block per simulated case; the two "
                "sum_up_results bodies are the documented aggregates; initialize clears the collected data and returns to "
                "raw mode (modular call of set_raw's contract); set_raw restores the real equations and collects "
                "iff model mode is supported; set_model raises iff it is not supported, otherwise installs the model and stops "
                "collecting; both assign nothing but the two mode fields; in SurrogateOptimizer.solve the switch to the model is "
                "bracketed (control-flow facts of the real source: set_raw follows set_model in the same statement list with no "
                "early exit in between, initialize is disabled before and restored to the saved original afterwards). bounded interleaving monitor on the real FigureOfMerit / FigureOfMeritLE objects: evaluate(x) after arbitrary "
                "sequences of evaluate / initialize / set_model / set_raw / get_differentials equals evaluate(x) of a fresh "
                "object and an independent recomputation of the documented aggregate; values in [0, 1e100] or 1e200; collected "
                "training rows accounted exactly (grow only in raw mode, unchanged by get_differentials, cleared by initialize)",
    assumptions=["E7: run_ode / j_from_ode / diff_from_ode and the compiled controller/equation callables are deterministic "
                 "functions of their arguments (this is exactly the doubt voiced by the comment in evaluate; monitored, not proved)",
                 "parameter scale limited to |x| <= 10: for |x| ~ 1e8 single evaluations take minutes (observation about RK45, "
                 "see DESIGN.md)"],
)

_WRAP_ENC = [E2 + ":ImprovedBottomLeftEncoding2.__init__", E2 + ":ImprovedBottomLeftEncoding2.decode",
             E1 + ":ImprovedBottomLeftEncoding1.decode"]
_WRAP_OBJ = [OB + "bin_count_and_empty:BinCountAndEmpty.__init__", OB + "bin_count_and_empty:BinCountAndEmpty.evaluate",
             OB + "bin_count_and_small:BinCountAndSmall.__init__", OB + "bin_count_and_small:BinCountAndSmall.evaluate",
             OB + "bin_count_and_last_small:BinCountAndLastSmall.evaluate", OB + "bin_count_and_last_small:BinCountAndLastSmall.__init__"]
_WRAP_TTP = [ER + ":Errors.__init__", ER + ":Errors.evaluate"]
PLANS["C01"].functions += _WRAP_ENC + ["moptipyapps.binpacking2d.instance:Instance.__new__#dtype"]
PLANS["C13"].functions += ["moptipyapps.binpacking2d.instance:Instance.__new__#dtype"]
PLANS["C02"].functions += _WRAP_OBJ + [OB + "bin_count_and_last_small:BinCountAndLastSmall.to_bin_count",
                                       OB + "bin_count_and_last_empty:BinCountAndLastEmpty.to_bin_count"]
PLANS["C02"].lemmas += ["dominance", "bounds_item_count", "bounds_area", "bounds_bin_count", "sky_nonneg", "seg_le", "seg_ge",
                        "seg_sum"]
PLANS["C02"].functions += [OB + "bin_count:BinCount.lower_bound", OB + "bin_count:BinCount.upper_bound",
                           OB + "bin_count:BinCount.to_bin_count",
                           OB + "bin_count_and_last_empty:BinCountAndLastEmpty.lower_bound",
                           OB + "bin_count_and_last_empty:BinCountAndLastEmpty.upper_bound",
                           OB + "bin_count_and_last_small:BinCountAndLastSmall.lower_bound",
                           OB + "bin_count_and_last_small:BinCountAndLastSmall.upper_bound"]
PLANS["C07"].functions += _WRAP_TTP
PLANS["C07"].lemmas += ["even_prod"]
PLANS["C13"].functions += _WRAP_ENC + _WRAP_OBJ + _WRAP_TTP + ["moptipyapps.tsp.fea1p1_revn:TSPFEA1p1revn.solve"]
PLANS["C13"].lemmas += ["even_prod", "path_split", "path_frame", "path_left", "path_rev", "path_bound", "tour_le_ub"]

PLANS["C14"] = Plan(
    "C14", "proof",
    functions=[E1 + ":__move_down", E1 + ":__move_left", E1 + ":_decode",
               E2 + ":__move_down", E2 + ":__move_left", E2 + ":_decode"],
    bounded=[bounded.bl_reference.harness],
    explanation="rule obligations R1-R9 (start position, orientation, strongest post of down/left moves, down precedence as "
                "iteration contract of the while loop, stop condition, next-fit / first-fit as control-flow refinement "
                "assertions, new-bin placement, write-before-read of y / bin_starts / bin_ends); the documented procedure is "
                "deterministic, so these pin the result; an executable reference of the documentation is the replay vehicle",
    trusted=["E1, E2 as for C01", "meta-argument: a deterministic step function iterated from a fixed start has one trajectory"],
)

REV = "moptipyapps.tsp.ea1p1_revn"
FEA = "moptipyapps.tsp.fea1p1_revn"
import bounded.tsp_solve  # noqa: E402

PLANS["C06"] = Plan(
    "C06", "proof",
    functions=[REV + ":rev_if_not_worse", FEA + ":rev_if_h_not_worse", REV + ":TSPEA1p1revn.solve",
               FEA + ":TSPFEA1p1revn.solve", "moptipyapps.tsp.instance:Instance.__new__#dtype"],
    lemmas=["path_split", "path_frame", "path_left", "path_rev", "path_bound", "tour_le_ub"],
    bounded=[bounded.tsp_solve.harness],
    explanation="kernels: permutation preserved, returned length exact (segment-reversal lemmas proved by induction), "
                "EA never worse, FEA table indices in [0, UB]; solve loops: invariant perm(x) and y == tour(x), "
                "pre@call:register proves every registered pair",
    trusted=["axiom tour_le_ub (= definition of the ghost predicate tour_bounded; justified by C05 + Lean lemma A3)",
             "summaries of moptipy/numpy calls in solve() (E2, E3, E4)"],
)

PLANS["C05"] = Plan(
    "C05", "proof",
    functions=[TL + ":tour_length", TL + ":TourLength.evaluate", "moptipyapps.tsp.instance:Instance.__new__",
               "moptipyapps.tsp.instance:Instance.__new__#copy-check", "moptipyapps.tsp.instance:Instance.__new__#dtype",
               "moptipyapps.tsp.instance:Instance.__new__#lower", "moptipyapps.tsp.instance:Instance.__new__#attributes",
               TL + ":TourLength.lower_bound", TL + ":TourLength.upper_bound"],
    lemmas=["cyc_is_tour", "rmax_ge", "rmin_le", "cyc_le_max", "cyc_ge_min", "tour_within_instance_bounds"],
    extra=[leancheck.lean_prover(["A3.lean"], "C05")],
    bounded=[bounded.tsp_instance.harness],
    explanation="tour_length equals the cyclic edge sum for every matrix/permutation/dtype, no int64 overflow, and so does the "
                "public entry point TourLength.evaluate (modular call of the kernel's contract on self.instance); block contracts "
                "on tsp.Instance.__new__: upper bound = sum of row maxima, lower bound = sum of row minima (off-diagonal), "
                "symmetry flag true iff the matrix is symmetric, zero diagonal and a positive entry per row enforced, stored "
                "matrix equals the given one entry by entry (copy-check loop)",
    assumptions=["lemma tour_within_instance_bounds (sum of row minima <= tour <= sum of row maxima for every permutation) is "
                 "proved by induction in z3 from one axiom: the permutation-sum lemma A3 (lean/A3.lean = Mathlib "
                 "Equiv.sum_comp), re-checked by Lean in the thorough tier; the correspondence between the Lean statement "
                 "(Fin n, Equiv.Perm) and the SMT instance (array x with range + injectivity) is trusted",
                 "the instance's tour_length_lower_bound may also come from a table of known optima: not verifiable here",
                 "E1: int_range_to_dtype(-limit, limit) returns a signed type containing the range"],
)


META = {
    "C11": {"text": "evaluate proved to be a fixed function of (x, configuration, current dynamics): the re-used result buffer is "
                    "completely rewritten before it is read, no attribute assigned, 1e200 exactly on a failed case, data "
                    "collected only in collect mode; initialize / set_raw / set_model / __append proved against the abstract "
                    "view; evaluate after arbitrary method sequences vs a fresh object: bounded interleaving monitor",
            "note": "level 'other': the method contracts are proved with run_ode / j_from_ode / diff_from_ode / sum_up_results as "
                    "assumed pure functions (E7: determinism of the simulation is exactly what the source comment doubts; it is "
                    "monitored by the bounded harness, not proved); get_differentials is covered by the monitor only",
            "technique": "contract-based deductive verification of the FigureOfMerit methods (object state, frame, "
                         "write-before-read ghost state) + run-time contract monitor"},
    "C10": {"text": "the code around the integrator is proved: _is_ok, and the figure of merit j_from_ode = exactly rounded sum of "
                    "the documented time-weighted squared controls and states divided by the simulated time (cell-by-cell "
                    "bijection between the buffer and the documented summands); the simulation post-condition is monitored on a fixed family of programs including "
                    "diverging and NaN/inf controllers; termination/accuracy of scipy RK45 is outside any contract here",
            "note": "level 'other': proof for helper kernels + bounded stand-in for run_ode",
            "technique": "contract-based deductive verification (closed-form index invariant) + bounded run-time monitor"},
    "C19": {"text": "round-trip contracts monitored on generated objects and tables (bounded exploration); nothing is called proved",
            "note": "string/CSV code is outside the VC generator's subset and outside what z3/cvc5 decide (DESIGN.md C19)",
            "technique": "run-time contract monitor (bounded stand-in)"},
    "C17": {"text": "the area arithmetic of the decoder (splitting cut, area floor, slack cut with exact area accounting) and the "
                    "clamp of the similarity objective proved as Hoare triples on the real statement blocks; the decode "
                    "post-condition as a whole monitored on a stated finite family of templates/vectors/slack values (bounded)",
            "note": "level 'other': block contracts for the arithmetic core + bounded stand-in for the whole method; Hardness not covered",
            "technique": "contract-based deductive verification of statement blocks (nested block contracts, z3) + run-time "
                         "contract monitor (bounded)"},
    "C03": {"text": "arithmetic of the bound proved on the real statement block (exact ceiling, maximum, >= area bound); validity "
                    "of the DAMV bound is an assumed theorem, backed by instances with optimum known by construction",
            "note": "level 'other': proof for the arithmetic clauses + assumption A2 + bounded harness",
            "technique": "contract-based deductive verification (Hoare triple on a statement block) + bounded monitor"},
    "C20": {"text": "swap_distance proved memory-safe with result in [0, n]; equality with the minimum number of transpositions "
                    "decided exhaustively up to length 6/7 by breadth-first search; ordering-instance clauses by a bounded harness",
            "note": "level 'other': proof + exhaustive enumeration within the quantifier's own bound + sampling",
            "technique": "contract-based deductive verification (bounds/range) + exhaustive bounded enumeration"},
    "C18": {"text": "coordinate distance functions proved identical (operation by operation) to the TSPLIB95 formulas; explicit "
                    "formats, wrapping, round trip checked by a bounded harness; shipped tours checked exhaustively",
            "note": "level 'other': formula identity is a proof over uninterpreted sqrt/cos/acos/trunc; parsing is bounded",
            "technique": "contract-based deductive verification of straight-line float code (DAG identity) + bounded monitor + "
                         "exhaustive check of shipped data"},
    "C09": {"text": "objective kernel proved equal to the flow-distance double sum without overflow for all matrices/permutations/"
                    "dtypes; parser and bounds clauses decided by a bounded harness (random wrappings, all permutations n <= 6)",
            "note": "level 'other': proof for the kernel, bounded for text parsing (string operations) and for the bound "
                    "computation (numpy library calls + rearrangement inequality)",
            "technique": "contract-based deductive verification (nested-loop invariants over recursive sums) + bounded monitor"},
    "C04": {"text": "validate proved sound (normal return implies Feasible) and complete (Feasible implies no raise) on the real "
                    "method for all instances and matrices, with set/Counter statements summarised on an array model and the "
                    "multiplicity / contiguity arguments as inductive lemmas; text parsing and type/shape checks: bounded",
            "note": "assumes the listed summaries of Python set/Counter primitives and check_int_range; from_str is bounded only",
            "technique": "contract-based deductive verification (two contracts on one method, ghost cardinality and witnesses, "
                         "inductive lemmas; z3/cvc5) + bounded monitor"},
    "C16": {"text": "all polynomial, partially-linear, peak and ANN controller kernels (generated architectures as programs) and "
                    "the three system-equation kernels proved equal to their documented formulas over the reals for every "
                    "state/parameter vector; inputs never written; min_ann: bounded stand-in",
            "note": "real arithmetic instead of IEEE; generated ANNs: bundled shapes plus a seeded sample of architectures per run "
                    "(thorough: 1500)",
            "technique": "contract-based deductive verification of straight-line float code (symbolic evaluation of the real AST, "
                         "polynomial normal form, z3 NRA)"},
    "C13": {"text": "every array subscript of the listed compiled kernels is a proved bounds obligation for all inputs accepted "
                    "by the public spaces/constructors (the kernels run with boundscheck=False, so no test can observe a "
                    "violation); slice assignments and reductions included",
            "note": "kernels not yet under contract are listed in the evidence 'assumptions' (controllers, ode helpers, "
                    "swap_distance: see DESIGN.md); E1/E2 assumed for the pre-conditions",
            "technique": "contract-based deductive verification (per-subscript bounds VCs under loop invariants; z3/cvc5)"},
    "C08": {"text": "game_plan_length proved equal to the tournament-walk model, within its declared bounds, and strictly "
                    "increased by every game-to-bye replacement, for all plans / matrices / sizes; the four-team optimum "
                    "clause (finite) decided by exhaustive enumeration with the real kernel",
            "note": "level 'proof' for the three universally quantified clauses (kernel contract + bye penalty contract + "
                    "inductive lemmas over the walk specification); the optimum clause is a statement about 7 fixed instances "
                    "and is decided by enumerating all 12^6 consistent plans of each (bounded harness, labelled exhaustive)",
            "technique": "contract-based deductive verification (recursive spec of the walk, relational lemmas by induction) "
                         "+ exhaustive enumeration for the finite optimum clause"},
    "C15": {"text": "map_games proved: earliest-free-day placement, mutual consistency, no self-play, range, exactly two cells "
                    "written per game; search-space composition enumerated for all n <= 24 (thorough 40), rounds <= 7 (9)",
            "note": "level 'other': proof for the decoder + exhaustive enumeration of the two-parameter generator",
            "technique": "contract-based deductive verification (iteration invariant 'earlier days blocked') + exhaustive enumeration"},
    "C07": {"text": "count_errors proved memory-safe, stateless w.r.t. its scratch arrays, non-negative, and zero only for plans "
                    "in which every team plays every day consistently, every pairing occurs the prescribed number of times "
                    "with balanced roles, no streak leaves its permitted range and repeated pairings respect the separation "
                    "limits, and conversely - value 0 if and only if feasible (all plans, all sizes, all limits); "
                    "the exact per-rule count of infeasible plans is decided exhaustively for all 12^6 four-team plans x "
                    "constraint settings against an executable specification written from the statement; declared upper "
                    "bound: known finding F4",
            "note": "level 'other': zero-iff-feasible, non-negativity and memory safety are proved; the exact value for "
                    "infeasible plans is bounded (exhaustive for four teams); the upper-bound clause is violated by the "
                    "repository (known finding F4); integer counter treated as mathematical",
            "technique": "contract-based deductive verification (two contracts on the real kernel: soundness and completeness "
                         "of the zero test; recursive counts, streak lengths, previous-meeting days; induction lemmas) + "
                         "exhaustive bounded enumeration (12^6 plans) vs executable spec"},
    "C02": {"text": "all six njit objective kernels proved equal to recursive spec functions for arbitrary row order (bins, item "
                    "count, covered area, least filled bin as attained minimum, area under the skyline of the last / lowest "
                    "bin via segment lemmas); declared bounds, to_bin_count and strict dominance proved as one-sided method "
                    "contracts plus lemmas over the value forms; the hypotheses those lemmas take from feasibility (every bin "
                    "used, item areas, bins <= items) and from C03 are listed; all seven classes additionally compared with an "
                    "independent recomputation on generated feasible packings (bounded)",
            "note": "level 'other': every clause has a deductive argument, but the bound clauses rest on hypotheses established "
                    "by other properties' contracts (C01/C04 feasibility, C03 bin lower bound with assumption A2) rather than "
                    "re-derived; the bounded oracle is labelled and never counted in 'discharged'",
            "technique": "contract-based deductive verification (recursive spec functions, quantified definitional axioms, "
                         "inductive segment lemmas, ghost witnesses) + bounded run-time oracle"},
    "C01": {"text": "all six decoder functions proved against contracts for every instance/permutation/dtype: inside-bin, "
                    "pairwise non-overlap per bin, id/size/rotation, gap-free bins (ghost witnesses), bin count, every store "
                    "within the storage type; bounded run of the public decode() as replay vehicle",
            "note": "assumed: E1 int_range_to_dtype, E2 signed-permutation space; class wrappers decode() are one-line calls "
                    "checked only by the bounded monitor",
            "technique": "contract-based deductive verification (loop invariants, modular callee contracts, ghost witnesses; z3/cvc5)"},
    "C14": {"text": "rule obligations R1-R9 of the documented bottom-left procedure proved on the real decoders: start position, "
                    "orientation, strongest post-conditions of both moves (no tunnelling, tight), down-precedence iteration "
                    "contract, stop condition, next-/first-fit refinement assertions, new-bin placement, write-before-read of all "
                    "scratch state; reference decoder written from the documentation as bounded cross-check",
            "note": "assumed: E1, E2; determinism meta-argument (unique trajectory of a deterministic step function)",
            "technique": "contract-based deductive verification (iteration contracts, branch-iff refinement assertions, ghost written-sets)"},
    "C05": {"text": "tour_length proved equal to the cyclic edge sum, overflow-free, for every matrix/permutation/dtype "
                    "(unbounded, z3); a proof is the right level because the property quantifies over all instances",
            "note": "trusted: VC generator, z3/cvc5; numba computes integer arithmetic in 64 bits (NBEP-1)",
            "technique": "contract-based deductive verification (VCs from the real AST, z3/cvc5)"},
    "C06": {"text": "both kernels and both solve() loops proved against contracts: permutation preserved, length exact "
                    "(segment-reversal lemmas by induction), EA monotone, FEA table indices in range; every register(x, y) "
                    "call is a proved pre@call obligation; bounded run-time monitor on the real solve() as replay vehicle",
            "note": "assumed: contracts of moptipy Process / numpy Generator calls (summaries), axiom tour_le_ub "
                    "(justified by C05 + Lean lemma A3)",
            "technique": "contract-based deductive verification (loop invariants, inductive lemmas, z3/cvc5)"},
}

_PENDING = "check under construction in this build round (DESIGN.md section 4); not claimed until it is green"
NOT_APPLICABLE = [
    {"property_id": "C12", "reason": "whole-run two-execution property through moptipy Execution/RNG/log files; no "
                                     "contract on a function of this repository can state it (DESIGN.md section 8)"},
]
for _p in ["C01", "C02", "C03", "C04", "C07", "C08", "C09", "C10", "C11", "C13", "C14", "C15", "C16", "C17", "C18",
           "C19", "C20"]:
    if _p not in PLANS:
        NOT_APPLICABLE.append({"property_id": _p, "reason": _PENDING})
